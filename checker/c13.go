package main

import (
	"go/token"
	"go/types"
	"strings"

	"golang.org/x/tools/go/ssa"
)

func init() { register("C13", propC13) }

func propC13() *Property {
	return &Property{
		ID:         "C13",
		Decides:    "R13.1 nextRecv is advanced only by one, only in moveRecvBufToRecvQueue, only after the segment whose sequence number equals nextRecv was inserted into recvQueue; R13.2 every cumulative ack written into outgoing metadata is a fresh load of nextRecv; R13.3 sendBuf entries are deleted only under seq < peer's unAckSeq (or wholesale at close), and a new segment is inserted into sendBuf before its first transmission; R13.4 the identity fields of a segment (payload, metadata, transport; protocol, sessionID, seq, fragment, payload lengths, low-entropy mode/rotation, status) are assigned only at construction or in Unmarshal; R13.5 every nextSend.Add(1) is paired, under oLock, with a segment whose seq is the nextSend.Load() of the same critical section.",
		NotDecided: "the comparison of emitted acks with the set of datagrams actually delivered (needs a network history); 32-bit sequence wrap-around; what btree.ReplaceOrInsert does with equal keys.",
		Rules: []Rule{
			{ID: "R13.1", Floor: 1, Text: "Session.nextRecv: the only writer is Add(1) in moveRecvBufToRecvQueue, dominated by a successful recvQueue.Insert of the segment taken from recvBuf under seq <= nextRecv and not skipped by seq < nextRecv", Run: r13_1},
			{ID: "R13.2", Floor: 4, Text: "every non-parse store to dataAckStruct.unAckSeq has the value Session.nextRecv.Load()", Run: r13_2},
			{ID: "R13.3", Floor: 2, Text: "sendBuf deletions: DeleteMinIf only with the predicate seq < unAckSeq taken from the received segment, DeleteAll only in closeWithError, DeleteMin never; sendBuf.Insert(seg) dominates output(seg) in the new-segment loop", Run: r13_3},
			{ID: "R13.4", Floor: 20, Text: "segment identity fields are written only in composite literals (construction) and in the Unmarshal methods", Run: r13_4},
			{ID: "R13.7", Floor: 32, Text: "a segment of the wrong direction never reaches inputData/inputAck (it could advance nextRecv and be acknowledged as if the peer had sent it): the direction whitelist of Session.input, folded for every protocol number and role (shared with R05.6)", Run: func(c *RC) { r05_6(c) }},
			{ID: "R13.6", Floor: 6, Text: "the payload of a segment never aliases a buffer owned by the caller: every store to segment.payload is a fresh make, a decrypt result, or nil (a retransmission must not see later writes to the application's buffer)", Run: r13_6},
			{ID: "R13.5", Floor: 5, Text: "every Session.nextSend.Add has argument 1, runs with oLock held, and the same block sequence builds a segment whose seq is nextSend.Load()", Run: r13_5},
		},
	}
}

func atomicCallOn(in ssa.Instruction, f *types.Var) (string, ssa.CallInstruction) {
	cl, ok := in.(ssa.CallInstruction)
	if !ok {
		return "", nil
	}
	sc := cl.Common().StaticCallee()
	if sc == nil || (sc.Signature.Recv() == nil && (sc.Origin() == nil || sc.Origin().Signature.Recv() == nil)) {
		return "", nil
	}
	args := cl.Common().Args
	if len(args) == 0 {
		return "", nil
	}
	if fv := fieldOrigin(args[0]); !sameField(fv, f) {
		return "", nil
	}
	if o := sc.Origin(); o != nil {
		return o.Name(), cl
	}
	return sc.Name(), cl
}

func r13_1(c *RC) {
	p := c.P
	nr := p.Field(protoPkg, "Session", "nextRecv")
	rq := p.Field(protoPkg, "Session", "recvQueue")
	rb := p.Field(protoPkg, "Session", "recvBuf")
	if nr == nil || rq == nil || rb == nil {
		c.Anchor("Session.nextRecv/recvQueue/recvBuf")
		return
	}
	for _, fn := range p.Funcs() {
		instrs(fn, func(_ *ssa.BasicBlock, _ int, in ssa.Instruction) {
			name, cl := atomicCallOn(in, nr)
			if cl == nil || name == "Load" {
				return
			}
			key := "write:nextRecv." + name + "@" + fnName(fn)
			if name != "Add" || fn.Name() != "moveRecvBufToRecvQueue" {
				c.Bad(key, in.Pos(), "Session.nextRecv is modified by %s in %s; only Add(1) in moveRecvBufToRecvQueue may advance the cumulative ack", name, fnName(fn))
				return
			}
			if k, ok := constInt(cl.Common().Args[1]); !ok || k != 1 {
				c.Bad(key, in.Pos(), "nextRecv advanced by %s, not by 1", describe(cl.Common().Args[1]))
				return
			}
			// dominated by successful recvQueue.Insert(seg)
			var ins *ssa.Call
			instrs(fn, func(_ *ssa.BasicBlock, _ int, x ssa.Instruction) {
				if call, ok := x.(*ssa.Call); ok {
					if sc := call.Common().StaticCallee(); sc != nil && sc.Name() == "Insert" && sameField(fieldOrigin(call.Common().Args[0]), rq) && instrDominates(x, in) {
						ins = call
					}
				}
			})
			if ins == nil {
				c.Bad(key, in.Pos(), "nextRecv.Add(1) is not dominated by recvQueue.Insert(seg): an ack could cover a segment that was not delivered")
				return
			}
			// the Add must be on the Insert-succeeded edge
			onTrue := false
			for _, e := range controllingEdges(in.Block()) {
				v := e.If.Cond
				neg := false
				if u, ok := v.(*ssa.UnOp); ok && u.Op == token.NOT {
					v = u.X
					neg = true
				}
				if v == ssa.Value(ins) && ((neg && e.Idx == 1) || (!neg && e.Idx == 0)) {
					onTrue = true
				}
			}
			if !onTrue {
				c.Bad(key, in.Pos(), "nextRecv.Add(1) is not restricted to the edge on which recvQueue.Insert returned true")
				return
			}
			// inserted segment = result of recvBuf.DeleteMinIf, and seq<nextRecv skip exists
			seg := ins.Common().Args[1]
			fromBuf := false
			var del *ssa.Call
			for _, l := range Leaves(seg, nil) {
				if ex, ok := l.(*ssa.Extract); ok {
					if call, ok := ex.Tuple.(*ssa.Call); ok {
						if sc := call.Common().StaticCallee(); sc != nil && sc.Name() == "DeleteMinIf" && sameField(fieldOrigin(call.Common().Args[0]), rb) {
							fromBuf = true
							del = call
						}
					}
				}
			}
			if !fromBuf {
				c.Bad(key, in.Pos(), "the segment inserted into recvQueue before nextRecv.Add is not the one removed from recvBuf")
				return
			}
			// predicate closure: seq <= nextRecv ; plus a seq < nextRecv -> continue guard
			isSeq := func(v ssa.Value) bool {
				for _, l := range Leaves(v, nil) {
					if ex, ok := l.(*ssa.Extract); ok {
						if call, ok := ex.Tuple.(*ssa.Call); ok && strings.HasSuffix(calleeID(call), "segment).Seq") {
							return true
						}
					}
				}
				return false
			}
			// the predicate: seq <= nextRecv, in any equivalent spelling
			predOK := false
			if cf, _ := closureOf(del.Common().Args[1]); cf != nil {
				instrs(cf, func(_ *ssa.BasicBlock, _ int, x ssa.Instruction) {
					if r, ok := x.(*ssa.Return); ok && len(r.Results) == 1 && cmpForm(retVal(r, 0), token.LEQ, isSeq, nil) {
						predOK = true
					}
				})
			}
			// the Add happens only where seq >= nextRecv is known (older
			// segments are skipped), in any equivalent spelling
			skipOK := false
			for _, ce := range controlConds(fn, in.Block()) {
				if (ce.Idx == 0 && cmpForm(ce.If.Cond, token.GEQ, isSeq, nil)) || (ce.Idx == 1 && cmpForm(ce.If.Cond, token.LSS, isSeq, nil)) {
					skipOK = true
				}
			}
			if predOK && skipOK {
				c.OKH(key, in.Pos(), "Add(1) on the success edge of recvQueue.Insert(seg), seg = recvBuf.DeleteMinIf(seq <= nextRecv), and seq < nextRecv is skipped first (so seq == nextRecv)")
			} else {
				c.Bad(key, in.Pos(), "cannot establish seq == nextRecv for the delivered segment (predicate seq<=nextRecv: %v, skip of seq<nextRecv: %v)", predOK, skipOK)
			}
		})
	}
}

func r13_2(c *RC) {
	p := c.P
	ua := p.Field(protoPkg, "dataAckStruct", "unAckSeq")
	nr := p.Field(protoPkg, "Session", "nextRecv")
	if ua == nil {
		c.Anchor("dataAckStruct.unAckSeq")
		return
	}
	for _, s := range p.FieldStores(ua) {
		key := "store:unAckSeq@" + fnName(s.Fn)
		if s.Fn.Name() == "Unmarshal" {
			c.OK(key, s.Pos(), "parse of received metadata")
			continue
		}
		ok := true
		for _, l := range Leaves(s.Val, nil) {
			call, isCall := l.(*ssa.Call)
			if !isCall {
				ok = false
				continue
			}
			name, _ := atomicCallOn(call, nr)
			if name != "Load" {
				ok = false
			}
		}
		if ok {
			c.OKH(key, s.Pos(), "unAckSeq = s.nextRecv.Load()")
		} else {
			c.Bad(key, s.Pos(), "the cumulative ack written here is %s, not a load of Session.nextRecv: an endpoint could acknowledge data it has not received", describe(s.Val))
		}
	}
}

func r13_3(c *RC) {
	p := c.P
	sb := p.Field(protoPkg, "Session", "sendBuf")
	if sb == nil {
		c.Anchor("Session.sendBuf")
		return
	}
	for _, s := range p.FieldMethodCalls(sb, "DeleteMin", "DeleteMinIf", "DeleteAll") {
		cl := s.Instr.(ssa.CallInstruction)
		name := calleeName(cl)
		key := "sendBuf." + name + "@" + fnName(s.Fn)
		switch name {
		case "DeleteAll":
			if ownerName(p, s.Fn) == "closeWithError" {
				c.OK(key, s.Pos(), "wholesale discard at close")
			} else {
				c.Bad(key, s.Pos(), "sendBuf.DeleteAll outside closeWithError: unacknowledged data would be forgotten")
			}
		case "DeleteMin":
			c.Bad(key, s.Pos(), "sendBuf.DeleteMin removes a segment without consulting the peer's acknowledgement")
		case "DeleteMinIf":
			cf, bindings := closureOf(cl.Common().Args[1])
			if cf == nil {
				c.Undecided(key, s.Pos(), "predicate is not a closure literal")
				continue
			}
			mc := struct{ Bindings []ssa.Value }{bindings}
			// closure must be: seq(iter) < captured unAckSeq, where captured value is a load of field unAckSeq of received metadata
			good := false
			instrs(cf, func(_ *ssa.BasicBlock, _ int, x ssa.Instruction) {
				bo, ok := x.(*ssa.BinOp)
				if !ok {
					return
				}
				// seq < unAckSeq may be spelled unAckSeq > seq
				switch bo.Op {
				case token.LSS:
				case token.GTR:
					sw := *bo
					sw.X, sw.Y, sw.Op = bo.Y, bo.X, token.LSS
					bo = &sw
				default:
					return
				}
				lhsSeq := false
				for _, l := range Leaves(bo.X, nil) {
					if ex, ok := l.(*ssa.Extract); ok {
						if call, ok := ex.Tuple.(*ssa.Call); ok && strings.HasSuffix(calleeID(call), "segment).Seq") {
							lhsSeq = true
						}
					}
				}
				rhsAck := false
				for _, l := range Leaves(bo.Y, nil) {
					if fv, ok := l.(*ssa.FreeVar); ok {
						// bound value in MakeClosure
						for i, f := range cf.FreeVars {
							if f == fv && i < len(mc.Bindings) {
								for _, bl := range Leaves(mc.Bindings[i], nil) {
									if fld := fieldOrigin(bl); fld != nil && fld.Name() == "unAckSeq" {
										rhsAck = true
									}
									if a, ok := bl.(*ssa.Alloc); ok {
										for _, sv := range allocStores(a) {
											if fld := fieldOrigin(sv); fld != nil && fld.Name() == "unAckSeq" {
												rhsAck = true
											}
										}
									}
								}
							}
						}
					}
					if u, ok := l.(*ssa.UnOp); ok && u.Op == token.MUL {
						if fv, ok := u.X.(*ssa.FreeVar); ok {
							for i, f := range cf.FreeVars {
								if f == fv && i < len(mc.Bindings) {
									if a, ok := mc.Bindings[i].(*ssa.Alloc); ok {
										for _, sv := range allocStores(a) {
											if fld := fieldOrigin(sv); fld != nil && fld.Name() == "unAckSeq" {
												rhsAck = true
											}
										}
									}
								}
							}
						}
					}
				}
				if lhsSeq && rhsAck {
					good = true
				}
			})
			if good {
				c.OKH(key, s.Pos(), "predicate is iter.Seq() < unAckSeq of the received segment")
			} else {
				c.Bad(key, s.Pos(), "sendBuf.DeleteMinIf predicate is not `seq < peer's unAckSeq`: the sender could forget data the peer has not acknowledged")
			}
		}
	}
	// Insert before output in runOutputOncePacket new-segment loop
	fn := p.Fn(protoPkg, "Session.runOutputOncePacket")
	if fn == nil {
		c.Anchor("Session.runOutputOncePacket")
		return
	}
	sq := p.Field(protoPkg, "Session", "sendQueue")
	// segments taken from sendQueue.DeleteMinIf
	instrs(fn, func(_ *ssa.BasicBlock, _ int, in ssa.Instruction) {
		call, ok := in.(*ssa.Call)
		if !ok {
			return
		}
		sc := call.Common().StaticCallee()
		if sc == nil || sc.Name() != "output" {
			return
		}
		seg := call.Common().Args[1]
		fromQueue := false
		for _, l := range Leaves(seg, nil) {
			if ex, ok := l.(*ssa.Extract); ok {
				if dc, ok := ex.Tuple.(*ssa.Call); ok {
					if s2 := dc.Common().StaticCallee(); s2 != nil && strings.HasPrefix(s2.Name(), "DeleteMin") && sameField(fieldOrigin(dc.Common().Args[0]), sq) {
						fromQueue = true
					}
				}
			}
		}
		if !fromQueue {
			return
		}
		key := "first-transmission@runOutputOncePacket"
		var ins ssa.Instruction
		instrs(fn, func(_ *ssa.BasicBlock, _ int, x ssa.Instruction) {
			if ic, ok := x.(*ssa.Call); ok {
				if s3 := ic.Common().StaticCallee(); s3 != nil && s3.Name() == "Insert" && sameField(fieldOrigin(ic.Common().Args[0]), sb) && ic.Common().Args[1] == seg && instrDominates(x, in) {
					ins = x
				}
			}
		})
		if ins != nil {
			c.OKH(key, in.Pos(), "sendBuf.Insert(seg) dominates the first output(seg)")
		} else {
			c.Bad(key, in.Pos(), "a segment taken from sendQueue is transmitted without first being retained in sendBuf: a lost datagram could never be retransmitted")
		}
	})
}

func r13_4(c *RC) {
	p := c.P
	type fld struct{ typ, name string }
	ident := []fld{
		{"segment", "payload"}, {"segment", "metadata"}, {"segment", "transport"},
		{"baseStruct", "protocol"},
		{"sessionStruct", "sessionID"}, {"sessionStruct", "seq"}, {"sessionStruct", "statusCode"}, {"sessionStruct", "payloadLen"},
		{"dataAckStruct", "sessionID"}, {"dataAckStruct", "seq"}, {"dataAckStruct", "fragment"}, {"dataAckStruct", "windowSize"},
		{"dataAckStruct", "payloadLen"}, {"dataAckStruct", "extractedPayloadLen"}, {"dataAckStruct", "lowEntropyMode"}, {"dataAckStruct", "lowEntropyMaskRotation"},
	}
	for _, f := range ident {
		fv := p.Field(protoPkg, f.typ, f.name)
		if fv == nil {
			c.Anchor(f.typ + "." + f.name)
			continue
		}
		for _, s := range p.FieldStores(fv) {
			key := "store:" + f.typ + "." + f.name + "@" + fnName(s.Fn)
			base := storeBase(s.Instr.(*ssa.Store))
			switch {
			case s.Fn.Name() == "Unmarshal":
				c.OK(key, s.Pos(), "parse")
			case isFreshAlloc(base):
				c.OK(key, s.Pos(), "initialisation of a freshly allocated value (composite literal / constructor)")
			case freshRoot(base, 0) != nil:
				root := freshRoot(base, 0)
				objs := []*ssa.Alloc{root}
				// enclosing literals that hold a pointer to root
				instrs(s.Fn, func(_ *ssa.BasicBlock, _ int, x ssa.Instruction) {
					if st, ok := x.(*ssa.Store); ok {
						if fr := freshRoot(st.Val, 0); fr == root {
							if outer, ok := storeBase(st).(*ssa.Alloc); ok {
								objs = append(objs, outer)
							}
						}
					}
				})
				if pub := publishedBefore(s.Fn, objs, s.Instr); pub != nil {
					c.Bad(key, s.Pos(), "%s.%s of a locally built segment is modified after the segment was handed to %s", f.typ, f.name, describeInstr(pub))
				} else {
					c.OKH(key, s.Pos(), "field of a locally built literal, set before the object is handed to any other function")
				}
			default:
				c.Bad(key, s.Pos(), "%s.%s is modified after construction (target %s): a retransmission could carry different content than the first transmission", f.typ, f.name, describe(base))
			}
		}
	}
}

// storeBase returns the object whose field is written (skipping nested
// embedded-struct field addresses).
func storeBase(st *ssa.Store) ssa.Value {
	v := st.Addr
	for {
		fa, ok := v.(*ssa.FieldAddr)
		if !ok {
			return v
		}
		v = fa.X
	}
}

// isFreshAlloc: v is an Alloc made in this function (composite literal) whose
// address has not yet escaped before... (we accept any local Alloc: stores to
// it through the Alloc value itself are initialisation of the literal).
func isFreshAlloc(v ssa.Value) bool {
	_, ok := v.(*ssa.Alloc)
	return ok
}

func r13_5(c *RC) {
	p := c.P
	ns := p.Field(protoPkg, "Session", "nextSend")
	ol := p.Field(protoPkg, "Session", "oLock")
	if ns == nil || ol == nil {
		c.Anchor("Session.nextSend/oLock")
		return
	}
	for _, fn := range p.Funcs() {
		instrs(fn, func(_ *ssa.BasicBlock, _ int, in ssa.Instruction) {
			name, cl := atomicCallOn(in, ns)
			if cl == nil || name == "Load" {
				return
			}
			key := "write:nextSend." + name + "@" + fnName(fn)
			if name != "Add" {
				c.Bad(key, in.Pos(), "Session.nextSend modified by %s", name)
				return
			}
			if k, ok := constInt(cl.Common().Args[1]); !ok || k != 1 {
				c.Bad(key, in.Pos(), "nextSend advanced by %s, not 1", describe(cl.Common().Args[1]))
				return
			}
			if !lockHeldAt(fn, in, ol) {
				c.Bad(key, in.Pos(), "nextSend.Add(1) without oLock held: two writers could obtain the same sequence number or queue out of order")
				return
			}
			// a store to a seq field with value nextSend.Load() precedes in the same lock region
			found := false
			instrs(fn, func(_ *ssa.BasicBlock, _ int, x ssa.Instruction) {
				st, ok := x.(*ssa.Store)
				if !ok {
					return
				}
				f, _ := fieldOfAddr(st.Addr)
				if f == nil || f.Name() != "seq" {
					return
				}
				for _, l := range Leaves(st.Val, nil) {
					if call, ok := l.(*ssa.Call); ok {
						if n2, _ := atomicCallOn(call, ns); n2 == "Load" && instrDominates(call, in) && lockHeldAt(fn, call, ol) {
							found = true
						}
					}
				}
			})
			if found {
				c.OKH(key, in.Pos(), "Add(1) under oLock, paired with a segment literal whose seq = nextSend.Load() taken under the same lock")
			} else {
				c.Bad(key, in.Pos(), "nextSend.Add(1) is not paired with a segment whose seq is nextSend.Load() read under oLock before it")
			}
		})
	}
}

// lockHeldAt: a must-hold approximation inside one function: there is a
// Lock() on the given mutex field that dominates `at`, and no Unlock() on it
// lies on a path from that Lock to `at`.
func lockHeldAt(fn *ssa.Function, at ssa.Instruction, mu *types.Var) bool {
	if lockHeldLocal(fn, at, mu) {
		return true
	}
	// an unexported helper that is only ever called with the lock held
	return heldByAllCallers(fn, mu, 0)
}

func heldByAllCallers(fn *ssa.Function, mu *types.Var, d int) bool {
	if gProg == nil || d >= 2 || fn == nil || fn.Parent() != nil || fn.Object() == nil || fn.Object().Exported() {
		return false
	}
	n := 0
	for _, cs := range gProg.CallsToFn(fn) {
		if strings.HasSuffix(strings.SplitN(gProg.Pos(cs.Pos()), ":", 2)[0], "_test.go") {
			continue
		}
		if _, isGo := cs.Instr.(*ssa.Go); isGo {
			return false
		}
		n++
		if !lockHeldLocal(cs.Fn, cs.Instr, mu) && !heldByAllCallers(cs.Fn, mu, d+1) {
			return false
		}
	}
	return n > 0
}

// gProg is the program under analysis (set by runProperty); used by helpers
// whose signature predates interprocedural reasoning.
var gProg *Prog

func lockHeldLocal(fn *ssa.Function, at ssa.Instruction, mu *types.Var) bool {
	isMu := func(in ssa.Instruction, method string) bool {
		cl, ok := in.(ssa.CallInstruction)
		if !ok {
			return false
		}
		if _, isDefer := in.(*ssa.Defer); isDefer {
			return false
		}
		sc := cl.Common().StaticCallee()
		if sc == nil || sc.Name() != method || len(cl.Common().Args) == 0 {
			return false
		}
		return sameField(fieldOrigin(cl.Common().Args[0]), mu)
	}
	held := false
	instrs(fn, func(_ *ssa.BasicBlock, _ int, in ssa.Instruction) {
		if !isMu(in, "Lock") || !instrDominates(in, at) {
			return
		}
		// no unlock between
		hit := reachableAvoiding(fn, in, func(x ssa.Instruction) bool { return x == at }, func(x ssa.Instruction) bool { return isMu(x, "Unlock") })
		if hit == nil {
			return
		}
		// and `at` must not be reachable from the lock through an Unlock
		// (i.e. every path from lock to at is unlock-free): check that removing
		// nothing, at reachable via a path containing unlock?
		viaUnlock := false
		instrs(fn, func(_ *ssa.BasicBlock, _ int, u ssa.Instruction) {
			if isMu(u, "Unlock") {
				// lock -> u reachable and u -> at reachable without another Lock
				r1 := reachableAvoiding(fn, in, func(x ssa.Instruction) bool { return x == u }, nil)
				r2 := reachableAvoiding(fn, u, func(x ssa.Instruction) bool { return x == at }, func(x ssa.Instruction) bool { return isMu(x, "Lock") })
				if r1 != nil && r2 != nil {
					viaUnlock = true
				}
			}
		})
		if !viaUnlock {
			held = true
		}
	})
	return held
}

// closureOf unwraps conversions to a named func type and returns the function
// literal and its bindings (nil for a plain function value).
func closureOf(v ssa.Value) (*ssa.Function, []ssa.Value) {
	for {
		switch x := v.(type) {
		case *ssa.ChangeType:
			v = x.X
			continue
		case *ssa.Convert:
			v = x.X
			continue
		case *ssa.MakeClosure:
			f, _ := x.Fn.(*ssa.Function)
			return f, x.Bindings
		case *ssa.Function:
			return x, nil
		}
		return nil, nil
	}
}

// freshRoot resolves the object a field store targets to a local Alloc of the
// same function when the path to it only goes through fields of locally
// allocated literals: complit, complit.f.(T) where complit.f was stored from a
// local Alloc, etc.
func freshRoot(v ssa.Value, depth int) *ssa.Alloc {
	if depth > 4 {
		return nil
	}
	switch x := v.(type) {
	case *ssa.Alloc:
		return x
	case *ssa.TypeAssert:
		return freshRoot(x.X, depth+1)
	case *ssa.MakeInterface:
		return freshRoot(x.X, depth+1)
	case *ssa.ChangeType:
		return freshRoot(x.X, depth+1)
	case *ssa.UnOp:
		if x.Op != token.MUL {
			return nil
		}
		fa, ok := x.X.(*ssa.FieldAddr)
		if !ok {
			return nil
		}
		outer := freshRoot(fa.X, depth+1)
		if outer == nil {
			return nil
		}
		// all stores to this field of the outer alloc must store fresh allocs
		var res *ssa.Alloc
		n := 0
		for _, r := range *outer.Referrers() {
			fa2, ok := r.(*ssa.FieldAddr)
			if !ok || fa2.Field != fa.Field {
				continue
			}
			for _, u := range *fa2.Referrers() {
				if st, ok := u.(*ssa.Store); ok && st.Addr == fa2 {
					n++
					res = freshRoot(st.Val, depth+1)
					if res == nil {
						return nil
					}
				}
			}
		}
		if n == 1 {
			return res
		}
	}
	return nil
}

// publishedBefore reports whether some call that receives the object (or the
// enclosing literal that points to it) can execute before the store.
func publishedBefore(fn *ssa.Function, objs []*ssa.Alloc, store ssa.Instruction) ssa.Instruction {
	var hit ssa.Instruction
	instrs(fn, func(_ *ssa.BasicBlock, _ int, in ssa.Instruction) {
		cl, ok := in.(ssa.CallInstruction)
		if !ok || hit != nil {
			return
		}
		uses := false
		for _, a := range callArgs(cl) {
			for _, l := range Leaves(a, nil) {
				for _, o := range objs {
					if l == ssa.Value(o) {
						uses = true
					}
				}
			}
		}
		if !uses {
			return
		}
		if sc := cl.Common().StaticCallee(); sc != nil && (strings.HasSuffix(sc.String(), "log.Tracef") || strings.HasSuffix(sc.String(), "log.Debugf")) {
			return
		}
		if reachableAvoiding(fn, in, func(x ssa.Instruction) bool { return x == store }, nil) != nil {
			hit = in
		}
	})
	return hit
}

func r13_6(c *RC) {
	p := c.P
	pl := p.Field(protoPkg, "segment", "payload")
	if pl == nil {
		c.Anchor("segment.payload")
		return
	}
	for _, s := range p.FieldStores(pl) {
		key := "payload-owner@" + fnName(s.Fn)
		bad := ""
		for _, l := range Leaves(s.Val, nil) {
			switch x := l.(type) {
			case *ssa.Parameter:
				bad = "parameter " + x.Name()
			case *ssa.FreeVar:
				bad = "captured variable " + x.Name()
			case *ssa.UnOp:
				// load of a field of another object: allowed only for segment.payload copies
				if f := fieldOrigin(x); f != nil && !sameField(f, pl) {
					bad = "field " + f.Name()
				}
			}
		}
		if bad != "" {
			c.Bad(key, s.Pos(), "segment.payload is set to a slice of %s: the segment shares memory with a buffer its creator does not own, so a retransmission can carry different bytes than the first transmission", bad)
		} else {
			c.OKH(key, s.Pos(), "payload is a fresh buffer / decrypt result / nil (%s)", leafKinds(s.Val))
		}
	}
}

func leafKinds(v ssa.Value) string {
	var ks []string
	seen := map[string]bool{}
	for _, l := range Leaves(v, nil) {
		k := leafKind(l)
		if !seen[k] {
			seen[k] = true
			ks = append(ks, k)
		}
	}
	return strings.Join(ks, ",")
}
