package main

import (
	"fmt"
	"go/constant"
	"go/token"
	"go/types"
	"os"
	"path/filepath"
	"regexp"
	"strings"

	"golang.org/x/tools/go/ssa"
)

func init() { register("C17", propC17) }

func propC17() *Property {
	return &Property{
		ID:          "C17",
		Decides:     "R17.1 the hardware path is the instruction its name says: in every assembly file of pkg/mathext the pdep/pext routines load x and mask from their declared frame slots, execute exactly one PDEPQ/PEXTQ with the mask in the mask operand and x in the source operand, and store the destination to the result slot; init installs pdepBMI2 as pdepImpl and pextBMI2 as pextImpl (not crossed) only under cpu.X86.HasBMI2; R17.2 validation precedes the codec (codec-parameter validation at the head of encoder and decoder, metadata validation before decode, and in Unmarshal before any field is stored); R17.3 tables: mode parameters, chunk length, rotation validity set and direction, and the encoded-length law ceil(N/C)*8 with its uint16 bound (folded for boundary N); R17.4 canonical padding: the decoder's per-chunk acceptance predicate, folded over padding polarity x padding value, accepts only all-zero padding for polarity 0 and all-one padding for polarity 1, for the first and for later chunks.",
		NotDecided:  "that decode(encode(x)) == x and that the portable loops equal PDEP/PEXT for all inputs (numerical bijection claims over 2^128 inputs — not a static property in reach); the random mask generator's distribution.",
		Assumptions: []string{"the Go assembler's operand order for PDEPQ/PEXTQ is (mask, source, destination)"},
		Rules: []Rule{
			{ID: "R17.1", Floor: 3, Text: "assembly routines and their installation", Run: r17_1},
			{ID: "R17.2", Floor: 4, Text: "validation dominates encode/decode; Unmarshal validates low-entropy metadata before storing", Run: r17_2},
			{ID: "R17.3", Floor: 12, Text: "parameter table, rotation set/direction, encoded length law", Run: func(c *RC) { ruleLowEntropyTables(c); ruleRotation(c); r17_3len(c) }},
			{ID: "R17.5", Floor: 1, Text: "no buffer taken from a sync.Pool is handed out of the function that puts it back (an encoded payload would be overwritten by a concurrent encoder before its caller copies it)", Run: r17_5},
			{ID: "R17.4", Floor: 9, Text: "decoder padding acceptance table", Run: r17_4},
		},
	}
}

var asmText = regexp.MustCompile(`^TEXT\s+·(\w+)\(SB\)\s*,\s*\w+\s*,\s*\$(\d+)-(\d+)`)

func r17_1(c *RC) {
	p := c.P
	dir := filepath.Join(p.Dir, "pkg", "mathext")
	files, _ := filepath.Glob(filepath.Join(dir, "*.s"))
	if len(files) == 0 {
		c.Bad("asm-files", 0, "no assembly file in pkg/mathext although bit_amd64.go declares assembly routines")
		return
	}
	for _, f := range files {
		b, err := os.ReadFile(f)
		if err != nil {
			c.Undecided("asm:"+filepath.Base(f), 0, "%v", err)
			continue
		}
		type routine struct {
			name  string
			frame string
			body  []string
		}
		var rs []routine
		for _, line := range strings.Split(string(b), "\n") {
			l := strings.TrimSpace(line)
			if i := strings.Index(l, "//"); i >= 0 {
				l = strings.TrimSpace(l[:i])
			}
			if l == "" || strings.HasPrefix(l, "#") {
				continue
			}
			if m := asmText.FindStringSubmatch(l); m != nil {
				rs = append(rs, routine{name: m[1], frame: m[2] + "-" + m[3]})
				continue
			}
			if len(rs) > 0 {
				rs[len(rs)-1].body = append(rs[len(rs)-1].body, l)
			}
		}
		want := map[string]string{"pdepBMI2": "PDEPQ", "pextBMI2": "PEXTQ"}
		seen := map[string]bool{}
		for _, r := range rs {
			key := "asm:" + filepath.Base(f) + ":" + r.name
			op, ok := want[r.name]
			if !ok {
				c.Undecided(key, 0, "unknown assembly routine %s (the reader only knows pdepBMI2 and pextBMI2)", r.name)
				continue
			}
			seen[r.name] = true
			regOf := map[string]string{} // frame slot -> register
			var problems []string
			nOp := 0
			stored := false
			for _, ins := range r.body {
				fs := strings.Fields(strings.ReplaceAll(ins, ",", " "))
				switch fs[0] {
				case "MOVQ":
					if len(fs) != 3 {
						problems = append(problems, "malformed "+ins)
						continue
					}
					if strings.Contains(fs[1], "(FP)") {
						regOf[fs[1]] = fs[2]
					} else if strings.Contains(fs[2], "(FP)") {
						if fs[2] != "ret+16(FP)" {
							problems = append(problems, "result stored to "+fs[2])
						}
						stored = true
						regOf["ret"] = fs[1]
					}
				case "PDEPQ", "PEXTQ":
					nOp++
					if fs[0] != op {
						problems = append(problems, r.name+" executes "+fs[0])
					}
					if len(fs) != 4 {
						problems = append(problems, "malformed "+ins)
						continue
					}
					if fs[1] != regOf["mask+8(FP)"] {
						problems = append(problems, "mask operand is "+fs[1]+", but mask+8(FP) was loaded into "+regOf["mask+8(FP)"])
					}
					if fs[2] != regOf["x+0(FP)"] {
						problems = append(problems, "source operand is "+fs[2]+", but x+0(FP) was loaded into "+regOf["x+0(FP)"])
					}
					regOf["dst"] = fs[3]
				case "RET":
				default:
					problems = append(problems, "unknown mnemonic "+fs[0]+" (undecided)")
				}
			}
			if nOp != 1 {
				problems = append(problems, fmt.Sprintf("%d %s instructions", nOp, op))
			}
			if !stored || regOf["ret"] != regOf["dst"] {
				problems = append(problems, "the destination register of "+op+" is not what is stored to ret+16(FP)")
			}
			if r.frame != "0-24" {
				problems = append(problems, "frame $"+r.frame+", want $0-24")
			}
			if len(problems) == 0 {
				c.OKH(key, 0, "%s: x+0(FP)->src, mask+8(FP)->mask, one %s, dst->ret+16(FP)", r.name, op)
			} else {
				c.Bad(key, 0, "%s in %s: %s", r.name, filepath.Base(f), strings.Join(problems, "; "))
			}
		}
		for n := range want {
			if !seen[n] {
				c.Bad("asm:"+filepath.Base(f)+":"+n, 0, "routine %s missing from %s", n, filepath.Base(f))
			}
		}
	}
	// init wiring
	mp := p.Pkg("pkg/mathext")
	if mp == nil {
		c.Anchor("pkg/mathext")
		return
	}
	wired := map[string]string{}
	guarded := true
	for _, fn := range p.Funcs("pkg/mathext") {
		instrs(fn, func(_ *ssa.BasicBlock, _ int, in ssa.Instruction) {
			st, ok := in.(*ssa.Store)
			if !ok {
				return
			}
			g, ok := st.Addr.(*ssa.Global)
			if !ok || (g.Name() != "pdepImpl" && g.Name() != "pextImpl") {
				return
			}
			tf, ok := st.Val.(*ssa.Function)
			if !ok {
				wired[g.Name()+"@"+fn.Name()] = describe(st.Val)
				return
			}
			wired[g.Name()+"@"+fn.Name()] = tf.Name()
			if strings.HasSuffix(tf.Name(), "BMI2") {
				has := false
				for _, e := range controllingEdges(in.Block()) {
					if f := fieldOrigin(e.If.Cond); f != nil && f.Name() == "HasBMI2" && e.Idx == 0 {
						has = true
					}
				}
				if !has {
					guarded = false
				}
			}
		})
	}
	var problems []string
	for k, v := range wired {
		impl := strings.SplitN(k, "@", 2)[0]
		if impl == "pdepImpl" && v != "pdepBMI2" && v != "pdepGeneric" {
			problems = append(problems, "pdepImpl = "+v)
		}
		if impl == "pextImpl" && v != "pextBMI2" && v != "pextGeneric" {
			problems = append(problems, "pextImpl = "+v)
		}
	}
	if !guarded {
		problems = append(problems, "a BMI2 routine is installed without checking cpu.X86.HasBMI2")
	}
	if len(wired) < 2 {
		problems = append(problems, "pdepImpl/pextImpl are not assigned")
	}
	if len(problems) == 0 {
		c.OKH("impl-wiring", mp.Func("init").Pos(), "pdepImpl in {pdepGeneric, pdepBMI2}, pextImpl in {pextGeneric, pextBMI2}; BMI2 only under cpu.X86.HasBMI2")
	} else {
		c.Bad("impl-wiring", mp.Func("init").Pos(), "%s", strings.Join(problems, "; "))
	}
}

func r17_2(c *RC) {
	p := c.P
	first := func(fname, validator string, before ...string) {
		fn := p.Fn(protoPkg, fname)
		if fn == nil {
			c.Anchor(fname)
			return
		}
		var val ssa.Instruction
		instrs(fn, func(_ *ssa.BasicBlock, _ int, in ssa.Instruction) {
			if cl, ok := in.(ssa.CallInstruction); ok && calleeName(cl) == validator && val == nil {
				val = in
			}
		})
		key := "validate-first@" + fname
		if val == nil {
			c.Bad(key, fn.Pos(), "%s no longer calls %s", fname, validator)
			return
		}
		// the error edge returns; every call in `before` and every read of the data is dominated
		bad := ""
		instrs(fn, func(_ *ssa.BasicBlock, _ int, in ssa.Instruction) {
			cl, ok := in.(ssa.CallInstruction)
			if !ok {
				return
			}
			n := calleeName(cl)
			for _, b := range before {
				if n == b && !instrDominates(val, in) {
					bad = n
				}
			}
		})
		if call, ok := val.(*ssa.Call); ok {
			var es *ssa.BasicBlock
			if tup, ok := call.Type().(*types.Tuple); ok {
				es = errSuccessorOfTuple(call, tup.Len()-1)
			} else {
				es = errSuccessorSingle(call)
			}
			if es != nil {
				ret := false
				for _, x := range es.Instrs {
					if r, ok := x.(*ssa.Return); ok && !retIsNil(r, len(r.Results)-1) {
						ret = true
					}
				}
				if !ret {
					bad = "its error edge does not return the error"
				}
			}
		}
		if bad == "" {
			c.OKH(key, val.Pos(), "%s is called first and dominates %v; its error is returned", validator, before)
		} else {
			c.Bad(key, val.Pos(), "%s: %s is not dominated by a successful %s", fname, bad, validator)
		}
	}
	first("encodeLowEntropyPayloadWithPaddingBit", "validateLowEntropyCodecParams", "lowEntropyEncodedPayloadLen", "rotateLowEntropyMask", "PDEP")
	first("decodeLowEntropyPayload", "validateLowEntropyCodecParams", "lowEntropyEncodedPayloadLen", "rotateLowEntropyMask", "PEXT", "PDEP")
	first("decodeLowEntropyEncryptedPayload", "validateLowEntropyDataAckMetadata", "decodeLowEntropyPayload")
	// Unmarshal: on a low-entropy protocol the validation call dominates every store to the receiver
	um := p.Fn(protoPkg, "dataAckStruct.Unmarshal")
	if um == nil {
		c.Anchor("dataAckStruct.Unmarshal")
		return
	}
	_, da := protoFamilies(p)
	for k := range da {
		if k != 10 && k != 11 {
			continue
		}
		// fold with b[0]==k: every outcome that reaches a store to the receiver must have passed the validator
		var val ssa.Instruction
		instrs(um, func(_ *ssa.BasicBlock, _ int, in ssa.Instruction) {
			if cl, ok := in.(ssa.CallInstruction); ok && calleeName(cl) == "validateLowEntropyDataAckMetadata" {
				val = in
			}
		})
		key := fmt.Sprintf("unmarshal-validates:%d", k)
		if val == nil {
			c.Bad(key, um.Pos(), "dataAckStruct.Unmarshal does not validate low-entropy metadata")
			continue
		}
		// reach a receiver store while avoiding the validator call?
		passed := false
		f := &Folder{P: p, Assume: func(v ssa.Value) (cval, bool) {
			if u, ok := v.(*ssa.UnOp); ok && u.Op == token.MUL {
				if ia, ok := u.X.(*ssa.IndexAddr); ok {
					if idx, ok := constInt(ia.Index); ok && idx == 0 {
						if _, isParam := ia.X.(*ssa.Parameter); isParam {
							return cInt(k), true
						}
					}
				}
			}
			if cl, ok := v.(*ssa.Call); ok {
				switch calleeNameAny(cl) {
				case "len":
					return cInt(32), true
				case "WithinRange":
					return cBool(true), true
				}
			}
			return cval{}, false
		}, OnCall: func(call *ssa.Call, _ []cval) {
			if ssa.Instruction(call) == val {
				passed = true
			}
		}, Stop: func(in ssa.Instruction) bool {
			st, ok := in.(*ssa.Store)
			if !ok {
				return false
			}
			_, isParam := storeBase(st).(*ssa.Parameter)
			return isParam && !passed
		}}
		outs := f.Eval(um, []cval{{nonNil: true}, {nonNil: true}})
		early := false
		for _, o := range outs {
			if o.Stopped != nil {
				early = true
			}
		}
		if early {
			c.Bad(key, val.Pos(), "for protocol %d dataAckStruct.Unmarshal stores into the receiver before validateLowEntropyDataAckMetadata was called", k)
		} else {
			c.OKH(key, val.Pos(), "protocol %d: no store to the receiver is reachable before validateLowEntropyDataAckMetadata", k)
		}
	}
}

func r17_3len(c *RC) {
	p := c.P
	fn := p.Fn(protoPkg, "lowEntropyEncodedPayloadLen")
	if fn == nil {
		c.Anchor("lowEntropyEncodedPayloadLen")
		return
	}
	cs := map[int64]int64{1: 4, 2: 5, 3: 6, 4: 7}
	for mode, C := range cs {
		var wrong []string
		ns := []int64{1, 2, C - 1, C, C + 1, 2 * C, 2*C + 1, 1000, 32764, 32768, 8191 * C, 8191*C + 1, 40000}
		for _, n := range ns {
			if n <= 0 {
				continue
			}
			f := &Folder{P: p, Assume: func(v ssa.Value) (cval, bool) {
				switch x := v.(type) {
				case *ssa.Field:
					if fo := fieldOrigin(x); fo != nil && fo.Name() == "sourceBytesPerChunk" {
						return cInt(C), true
					}
				case *ssa.UnOp:
					if fo := fieldOrigin(x); fo != nil && fo.Name() == "sourceBytesPerChunk" {
						return cInt(C), true
					}
				case *ssa.Extract:
					if call, ok := x.Tuple.(*ssa.Call); ok && calleeName(call) == "buildLowEntropyParams" && x.Index == 1 {
						return cval{isNil: true}, true
					}
				}
				return cval{}, false
			}}
			outs := f.Eval(fn, []cval{cInt(n), cInt(mode)})
			if len(outs) != 1 || !outs[0].Returned {
				c.Undecided(fmt.Sprintf("length-law:mode%d", mode), fn.Pos(), "does not fold for N=%d (%d outcomes)", n, len(outs))
				return
			}
			chunks := (n + C - 1) / C
			wantErr := chunks > 8191
			r := outs[0].Results
			gotErr := !r[1].isNil
			if gotErr != wantErr {
				wrong = append(wrong, fmt.Sprintf("N=%d: error=%v want %v", n, gotErr, wantErr))
				continue
			}
			if !wantErr {
				if !r[0].known {
					wrong = append(wrong, fmt.Sprintf("N=%d: length not constant", n))
					continue
				}
				got, _ := constant.Int64Val(r[0].v)
				if got != chunks*8 {
					wrong = append(wrong, fmt.Sprintf("N=%d: %d want %d", n, got, chunks*8))
				}
			}
		}
		key := fmt.Sprintf("length-law:mode%d", mode)
		if len(wrong) == 0 {
			c.OKH(key, fn.Pos(), "encoded length == ceil(N/%d)*8 and > 8191 chunks is an error (folded for %d boundary values of N)", C, len(ns))
		} else {
			c.Bad(key, fn.Pos(), "encoded-length law violated for C=%d: %s", C, strings.Join(wrong, "; "))
		}
	}
}

func r17_4(c *RC) {
	p := c.P
	fn := p.Fn(protoPkg, "decodeLowEntropyPayload")
	if fn == nil {
		c.Anchor("decodeLowEntropyPayload")
		return
	}
	// identify padding = chunk & paddingMask, paddingMask = ^dataMask
	var padding, paddingMask ssa.Value
	instrs(fn, func(_ *ssa.BasicBlock, _ int, in ssa.Instruction) {
		bo, ok := in.(*ssa.BinOp)
		if !ok || bo.Op != token.AND {
			return
		}
		for _, v := range []ssa.Value{bo.X, bo.Y} {
			if u, ok := v.(*ssa.UnOp); ok && u.Op == token.XOR {
				padding, paddingMask = bo, u
			}
		}
	})
	if padding == nil {
		c.Undecided("padding-value", fn.Pos(), "cannot find `padding := chunk & ^dataMask` in decodeLowEntropyPayload")
		return
	}
	// polarity variable: a uint8 phi compared with 0/1
	var polarity ssa.Value
	instrs(fn, func(_ *ssa.BasicBlock, _ int, in ssa.Instruction) {
		bo, ok := in.(*ssa.BinOp)
		if !ok || (bo.Op != token.EQL && bo.Op != token.NEQ) {
			return
		}
		for _, pr := range [][2]ssa.Value{{bo.X, bo.Y}, {bo.Y, bo.X}} {
			if phi, ok := pr[0].(*ssa.Phi); ok && strings.HasSuffix(phi.Type().String(), "uint8") {
				if _, ok := constInt(pr[1]); ok {
					polarity = phi
				}
			}
		}
	})
	// the chunk index: what the decoder asks the chunk mask for
	var chunkIndex ssa.Value
	instrs(fn, func(_ *ssa.BasicBlock, _ int, in ssa.Instruction) {
		if cl, ok := in.(*ssa.Call); ok && (calleeName(cl) == "lowEntropyChunkMask" || calleeName(cl) == "rotateLowEntropyMask") && len(cl.Common().Args) == 3 {
			for _, l := range Leaves(cl.Common().Args[2], nil) {
				if phi, ok := l.(*ssa.Phi); ok {
					chunkIndex = phi
				}
			}
		}
		// ... and where it reads the chunk: encoded[chunkIndex*8:]
		if sl, ok := in.(*ssa.Slice); ok && chunkIndex == nil {
			if bo, ok := sl.Low.(*ssa.BinOp); ok && bo.Op == token.MUL {
				for _, v := range []ssa.Value{bo.X, bo.Y} {
					if phi, ok := v.(*ssa.Phi); ok {
						chunkIndex = phi
					}
				}
			}
		}
	})
	if polarity == nil || chunkIndex == nil {
		c.Undecided("padding-structure", fn.Pos(), "cannot identify the polarity variable / the chunk index of the decoder loop")
		return
	}
	const mask = 0xF0F0
	stop := func(in ssa.Instruction) bool {
		cl, ok := in.(ssa.CallInstruction)
		return ok && calleeName(cl) == "PEXT"
	}
	// Fold the rest of one loop iteration from the block that computes the
	// padding, with the case under study pinned: chunk index (0 = first),
	// polarity learnt so far, padding bits and padding mask.
	padBlock := padding.(ssa.Instruction).Block()
	var padPred *ssa.BasicBlock
	if len(padBlock.Preds) > 0 {
		padPred = padBlock.Preds[0]
	}
	run := func(idx, pol, pad int64) (accept, reject bool) {
		pin := map[ssa.Value]cval{padding: cInt(pad), paddingMask: cInt(mask), polarity: cInt(pol), chunkIndex: cInt(idx)}
		f := &Folder{P: p, Stop: stop, Pin: pin}
		outs := f.EvalFrom(fn, padBlock, padPred, pin)
		for _, o := range outs {
			if o.Stopped != nil {
				accept = true
			}
			if o.Returned && len(o.Results) == 2 && !o.Results[1].isNil {
				reject = true
			}
		}
		return
	}
	at := padding.Pos()
	// later chunks
	for _, pol := range []int64{0, 1} {
		for _, pad := range []struct {
			name string
			v    int64
		}{{"all-zero", 0}, {"all-one", mask}, {"mixed", 0x00F0}, {"single-bit", 0x0010}} {
			want := (pol == 0 && pad.v == 0) || (pol == 1 && pad.v == mask)
			acc, rej := run(1, pol, pad.v)
			key := fmt.Sprintf("later-chunk:polarity%d:%s", pol, pad.name)
			switch {
			case want && acc && !rej:
				c.OKH(key, at, "accepted (canonical)")
			case !want && rej && !acc:
				c.OKH(key, at, "rejected")
			case !want && acc:
				c.Bad(key, at, "a later chunk with polarity %d and %s padding is ACCEPTED: the decoder accepts byte strings the encoder never produces (padding is outside the AEAD, so an on-path party can alter it)", pol, pad.name)
			case want && !acc:
				c.Bad(key, at, "a later chunk with canonical padding (polarity %d, %s) is rejected", pol, pad.name)
			default:
				c.Undecided(key, at, "fold gave accept=%v reject=%v", acc, rej)
			}
		}
	}
	// first chunk: only all-zero / all-one accepted
	for _, pad := range []struct {
		name string
		v    int64
	}{{"all-zero", 0}, {"all-one", mask}, {"mixed", 0x00F0}} {
		want := pad.v == 0 || pad.v == mask
		acc, rej := run(0, 0, pad.v)
		key := "first-chunk:" + pad.name
		switch {
		case want && acc && !rej:
			c.OKH(key, at, "accepted, fixes the polarity")
		case !want && rej && !acc:
			c.OKH(key, at, "rejected")
		default:
			c.Bad(key, at, "first chunk with %s padding: accept=%v reject=%v (want accept=%v)", pad.name, acc, rej, want)
		}
	}
}


// r17_5: ownership of pooled buffers in the protocol code. A function that
// returns (a slice of) an object it got from sync.Pool.Get and also Puts that
// object back - deferred or not - hands its caller memory that the next Get
// may give to another goroutine: two encoders then write one buffer and a mix
// of two encodings goes on the wire (seed C17h).
func r17_5(c *RC) {
	p := c.P
	n := 0
	for _, fn := range p.Funcs("pkg/protocol", "pkg/cipher", "pkg/socks5", "pkg/mathext", "pkg/replay", "apis") {
		var gets []*ssa.Call
		var puts []ssa.CallInstruction
		instrs(fn, func(_ *ssa.BasicBlock, _ int, in ssa.Instruction) {
			cl, ok := in.(ssa.CallInstruction)
			if !ok {
				return
			}
			switch calleeID(cl) {
			case "(*sync.Pool).Get":
				if c2, ok := in.(*ssa.Call); ok {
					gets = append(gets, c2)
				}
			case "(*sync.Pool).Put":
				puts = append(puts, cl)
			}
		})
		for _, g := range gets {
			n++
			key := "pooled-buffer-stays-inside@" + fnName(fn)
			// everything that may alias the pooled object
			alias := map[ssa.Value]bool{g: true}
			for changed := true; changed; {
				changed = false
				instrs(fn, func(_ *ssa.BasicBlock, _ int, in ssa.Instruction) {
					v, ok := in.(ssa.Value)
					if !ok || alias[v] {
						return
					}
					hit := false
					switch x := in.(type) {
					case *ssa.TypeAssert:
						hit = alias[x.X]
					case *ssa.UnOp:
						hit = alias[x.X]
					case *ssa.Slice:
						hit = alias[x.X]
					case *ssa.ChangeType:
						hit = alias[x.X]
					case *ssa.MakeInterface:
						hit = alias[x.X]
					case *ssa.Phi:
						for _, e := range x.Edges {
							if alias[e] {
								hit = true
							}
						}
					case *ssa.Call:
						if b, ok := x.Call.Value.(*ssa.Builtin); ok && b.Name() == "append" && len(x.Call.Args) > 0 {
							hit = alias[x.Call.Args[0]]
						}
					}
					if hit {
						alias[v] = true
						changed = true
					}
				})
			}
			putBack := false
			for _, pc := range puts {
				if len(pc.Common().Args) > 1 && alias[pc.Common().Args[1]] {
					putBack = true
				}
			}
			var escapes ssa.Instruction
			instrs(fn, func(_ *ssa.BasicBlock, _ int, in ssa.Instruction) {
				if r, ok := in.(*ssa.Return); ok {
					for i := range r.Results {
						for _, l := range Leaves(retVal(r, i), nil) {
							if alias[l] {
								escapes = in
							}
						}
						if alias[retVal(r, i)] {
							escapes = in
						}
					}
				}
			})
			if putBack && escapes != nil {
				c.Bad(key, escapes.Pos(), "%s returns memory of an object it took from a sync.Pool and also puts back: the caller's slice is overwritten as soon as another goroutine gets the same object (for the low-entropy encoder: two connections encoding at once put a mix of two payloads on the wire)", fnName(fn))
			} else {
				c.OKH(key, g.Pos(), "the pooled object is %s", map[bool]string{true: "put back and not returned", false: "not put back by this function"}[putBack])
			}
		}
	}
	if n == 0 {
		c.OK("pooled-buffer-stays-inside", token.NoPos, "the protocol, cipher and socks5 code takes no buffer from a sync.Pool")
	}
}
