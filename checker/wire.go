package main

// Wire-table extraction (analysis A8) and the protocol document reader (A9).

import (
	"fmt"
	"go/token"
	"os"
	"path/filepath"
	"regexp"
	"sort"
	"strconv"
	"strings"

	"golang.org/x/tools/go/ssa"
)

type wireField struct {
	Off   int64
	Width int64
	Field string // struct field name (or "?" when not a single field)
	Order string // "BE", "LE", "byte"
}

func (w wireField) String() string {
	return fmt.Sprintf("%d/%d:%s", w.Off, w.Width, w.Field)
}

func wireKey(ws []wireField, withField bool) string {
	var ss []string
	for _, w := range ws {
		if withField {
			ss = append(ss, w.String())
		} else {
			ss = append(ss, fmt.Sprintf("%d/%d", w.Off, w.Width))
		}
	}
	sort.Strings(ss)
	return strings.Join(ss, " ")
}

func binaryCall(c ssa.CallInstruction) (order, op string, width int64, ok bool) {
	id := calleeID(c)
	for _, o := range []struct{ recv, ord string }{{"(encoding/binary.bigEndian).", "BE"}, {"(encoding/binary.littleEndian).", "LE"}} {
		if strings.HasPrefix(id, o.recv) {
			m := strings.TrimPrefix(id, o.recv)
			for _, w := range []struct {
				suf string
				n   int64
			}{{"Uint16", 2}, {"Uint32", 4}, {"Uint64", 8}} {
				if m == "Put"+w.suf {
					return o.ord, "put", w.n, true
				}
				if m == w.suf {
					return o.ord, "get", w.n, true
				}
				if m == "Append"+w.suf {
					return o.ord, "append", w.n, true
				}
			}
		}
	}
	return "", "", 0, false
}

// sliceLow returns the constant low bound of b[k:] (0 when absent) and the
// sliced base.
func sliceLow(v ssa.Value) (int64, ssa.Value, bool) {
	sl, ok := v.(*ssa.Slice)
	if !ok {
		return 0, v, true
	}
	if sl.Low == nil {
		return 0, sl.X, true
	}
	k, ok := constInt(sl.Low)
	return k, sl.X, ok
}

// marshalTable extracts the (offset,width,field) writes of a Marshal-like
// function into its result buffer.
func marshalTable(fn *ssa.Function) ([]wireField, []string) {
	var out []wireField
	var problems []string
	instrs(fn, func(_ *ssa.BasicBlock, _ int, in ssa.Instruction) {
		switch x := in.(type) {
		case *ssa.Store:
			ia, ok := x.Addr.(*ssa.IndexAddr)
			if !ok {
				return
			}
			if _, isArr := ia.X.Type().Underlying().(interface{ Elem() interface{} }); isArr {
				_ = isArr
			}
			k, ok := constInt(ia.Index)
			if !ok {
				problems = append(problems, "store to a non-constant offset "+describe(ia.Index))
				return
			}
			// only byte slices
			if !strings.HasSuffix(ia.X.Type().String(), "[]byte") && !strings.HasSuffix(ia.X.Type().String(), "[]uint8") {
				return
			}
			name := "?"
			if f := fieldOrigin(x.Val); f != nil {
				name = f.Name()
			} else if c, ok := x.Val.(*ssa.Const); ok {
				name = "const:" + c.Value.ExactString()
			}
			out = append(out, wireField{k, 1, name, "byte"})
		case *ssa.Call:
			ord, op, w, ok := binaryCall(x)
			if !ok || op != "put" {
				return
			}
			args := x.Common().Args
			off, _, okc := sliceLow(args[1])
			if !okc {
				problems = append(problems, "Put at a non-constant offset")
				return
			}
			name := "?"
			if f := fieldOrigin(args[2]); f != nil {
				name = f.Name()
			}
			out = append(out, wireField{off, w, name, ord})
		}
	})
	return out, problems
}

// unmarshalTable extracts, for every store to a field of the receiver struct,
// the (offset,width) of the buffer read it derives from.
func unmarshalTable(fn *ssa.Function) ([]wireField, []string) {
	var out []wireField
	var problems []string
	seen := map[string]bool{}
	instrs(fn, func(_ *ssa.BasicBlock, _ int, in ssa.Instruction) {
		st, ok := in.(*ssa.Store)
		if !ok {
			return
		}
		f, _ := fieldOfAddr(st.Addr)
		if f == nil {
			return
		}
		base := storeBase(st)
		if _, isParam := base.(*ssa.Parameter); !isParam {
			// only the receiver, not temporaries - except a scratch value
			// of the receiver's type that is copied into it as a whole
			// (`parsed := T{}; ...; *recv = parsed`)
			if !copiedIntoParam(base) {
				return
			}
		}
		add := func(wf wireField) {
			if !seen[wf.String()] {
				seen[wf.String()] = true
				out = append(out, wf)
			}
		}
		// reads(v, shift, args): the wire reads v is made of. Inside a small
		// reader helper (depth 1) a read of the helper's buffer parameter is
		// shifted by the constant offset of the caller's argument.
		var reads func(v ssa.Value, depth int, shift func(buf ssa.Value) (int64, bool))
		reads = func(v ssa.Value, depth int, shift func(buf ssa.Value) (int64, bool)) {
			for _, l := range Leaves(v, nil) {
				switch x := l.(type) {
				case *ssa.Extract:
					if call, ok := x.Tuple.(*ssa.Call); ok {
						readsOfHelper(call, x.Index, depth, shift, reads)
					}
				case *ssa.Call:
					ord, op, w, ok := binaryCall(x)
					if !ok {
						readsOfHelper(x, 0, depth, shift, reads)
						continue
					}
					if op != "get" {
						continue
					}
					off, buf, okc := sliceLow(x.Common().Args[1])
					sh, oks := shift(buf)
					if !okc || !oks {
						problems = append(problems, "read at a non-constant offset")
						continue
					}
					add(wireField{off + sh, w, f.Name(), ord})
				case *ssa.UnOp:
					if x.Op != token.MUL {
						continue
					}
					ia, ok := x.X.(*ssa.IndexAddr)
					if !ok {
						continue
					}
					k, ok := constInt(ia.Index)
					if !ok {
						continue
					}
					sh, oks := shift(ia.X)
					if !oks {
						problems = append(problems, "read at a non-constant offset")
						continue
					}
					add(wireField{k + sh, 1, f.Name(), "byte"})
				}
			}
		}
		reads(st.Val, 0, func(ssa.Value) (int64, bool) { return 0, true })
	})
	return out, problems
}

// ------------------------------------------------------------------ document

type docTable struct {
	Heading string
	Names   []string
	Widths  []string
}

var mdRow = regexp.MustCompile(`^\|(.+)\|\s*$`)

func splitRow(l string) []string {
	m := mdRow.FindStringSubmatch(l)
	if m == nil {
		return nil
	}
	parts := strings.Split(m[1], "|")
	for i := range parts {
		parts[i] = strings.TrimSpace(parts[i])
	}
	return parts
}

// readDocTables reads every 3-line markdown table (names, alignment, one data
// row) of docs/protocol.md with the nearest preceding heading.
func readDocTables(repo string) ([]docTable, map[string]int64, error) {
	b, err := os.ReadFile(filepath.Join(repo, "docs", "protocol.md"))
	if err != nil {
		return nil, nil, err
	}
	lines := strings.Split(string(b), "\n")
	var tables []docTable
	consts := map[string]int64{}
	heading := ""
	bullet := regexp.MustCompile("^- `([A-Za-z0-9_]+)` = ([0-9]+)")
	for i := 0; i < len(lines); i++ {
		l := lines[i]
		if strings.HasPrefix(l, "#") {
			heading = strings.TrimSpace(strings.TrimLeft(l, "# "))
		}
		if m := bullet.FindStringSubmatch(l); m != nil {
			v, _ := strconv.ParseInt(m[2], 10, 64)
			consts[m[1]] = v
		}
		names := splitRow(l)
		if names == nil || i+2 >= len(lines) {
			continue
		}
		align := splitRow(lines[i+1])
		if align == nil || !strings.Contains(lines[i+1], "---") {
			continue
		}
		var rows [][]string
		j := i + 2
		for ; j < len(lines); j++ {
			r := splitRow(lines[j])
			if r == nil {
				break
			}
			rows = append(rows, r)
		}
		if len(rows) == 1 && len(rows[0]) == len(names) {
			tables = append(tables, docTable{heading, names, rows[0]})
		} else if len(rows) > 1 {
			// multi-row table: keep as names + flattened rows (used for the mode table)
			for _, r := range rows {
				tables = append(tables, docTable{heading + "#row", names, r})
			}
		}
		i = j
	}
	return tables, consts, nil
}

// layoutFromDoc accumulates widths of a one-row layout table into
// (offset,width) pairs, skipping cells named "unused".
func layoutFromDoc(t docTable) ([]wireField, bool) {
	var out []wireField
	off := int64(0)
	for i, n := range t.Names {
		w, err := strconv.ParseInt(t.Widths[i], 10, 64)
		if err != nil {
			return nil, false
		}
		if !strings.EqualFold(n, "unused") {
			out = append(out, wireField{off, w, n, ""})
		}
		off += w
	}
	return out, true
}

// readsOfHelper follows a field value into a small same-package helper that
// decodes it from a buffer argument (`ts, err := unmarshalTimestamp(b)`).
func readsOfHelper(call *ssa.Call, idx, depth int, outer func(ssa.Value) (int64, bool),
	reads func(ssa.Value, int, func(ssa.Value) (int64, bool))) {
	sc := call.Common().StaticCallee()
	if depth >= 2 || sc == nil || sc.Pkg == nil || call.Parent().Pkg != sc.Pkg || len(sc.Blocks) == 0 || len(sc.Blocks) > 12 {
		return
	}
	shift := func(buf ssa.Value) (int64, bool) {
		for i, prm := range sc.Params {
			if ssa.Value(prm) == buf && i < len(call.Common().Args) {
				off, base, ok := sliceLow(call.Common().Args[i])
				if !ok {
					return 0, false
				}
				sh, ok2 := outer(base)
				return off + sh, ok2
			}
		}
		return 0, true
	}
	for _, b := range sc.Blocks {
		if ret, ok := b.Instrs[len(b.Instrs)-1].(*ssa.Return); ok && idx < len(ret.Results) {
			reads(ret.Results[idx], depth+1, shift)
		}
	}
}

// copiedIntoParam: v is a local variable whose whole value is stored through
// a parameter of the function (`*recv = v`).
func copiedIntoParam(v ssa.Value) bool {
	al, ok := v.(*ssa.Alloc)
	if !ok || al.Referrers() == nil {
		return false
	}
	for _, r := range *al.Referrers() {
		ld, ok := r.(*ssa.UnOp)
		if !ok || ld.Op != token.MUL || ld.Referrers() == nil {
			continue
		}
		for _, u := range *ld.Referrers() {
			if st, ok := u.(*ssa.Store); ok && st.Val == ssa.Value(ld) {
				if _, isParam := st.Addr.(*ssa.Parameter); isParam {
					return true
				}
			}
		}
	}
	return false
}
