package main

// Constant propagation over go/ssa with one (or a few) assumed constants:
// used to enumerate a finite-domain predicate (protocol numbers, rotation
// bytes, low-entropy modes) statically — the same folding a compiler does,
// applied per assumed value. Unknown values make a branch fork; calls to
// small product functions are folded recursively up to a depth bound.

import (
	"fmt"
	"go/constant"
	"go/token"
	"go/types"
	"sort"
	"strings"

	"golang.org/x/tools/go/ssa"
)

type cval struct {
	known  bool
	v      constant.Value
	isNil  bool // the nil constant of a pointer/interface/slice type
	nonNil bool // known to be non-nil (fresh allocation, fmt.Errorf result, ...)
	// fields: a struct value, by field index (entries may be unknown)
	fields map[int]cval
}

var unknownVal = cval{}

type Outcome struct {
	Ret      *ssa.Return
	Returned bool
	Results  []cval
	Stopped  ssa.Instruction // evaluation stopped here (reached the stop predicate)
	Panicked bool
}

type Folder struct {
	P *Prog
	// Assume supplies constants for designated values (e.g. the result of a
	// Protocol() call, a field load). Return ok=false for everything else.
	Assume func(v ssa.Value) (cval, bool)
	// Stop ends a path successfully at an instruction (outcome.Stopped).
	Stop func(in ssa.Instruction) bool
	// OnCall observes every evaluated call with its folded arguments.
	OnCall func(call *ssa.Call, args []cval)
	// OnStore observes every store of the function under evaluation (not of
	// folded callees) with the folded value.
	OnStore func(st *ssa.Store, v cval)
	// Pin forces the value of instructions of the folded function (depth 0)
	// whatever they compute: the case under study.
	Pin map[ssa.Value]cval
	// CallHook may supply the result of a call from its folded arguments.
	CallHook func(call *ssa.Call, args []cval) (cval, bool)
	MaxDepth int
	Steps    int
	Budget   int
	Over     bool

	// tuples holds, per evaluated call with several results, the agreed
	// constant of each position (nil entries: unknown)
	tuples map[*ssa.Call][]cval
	// lookups holds the (value, ok) of the last evaluation of a comma-ok
	// lookup in a package-level table
	lookups map[*ssa.Lookup][]cval
	gmaps   map[*ssa.Global]map[string]cval

	startBlock, startPred *ssa.BasicBlock
	preset                map[ssa.Value]cval
}

func (f *Folder) Eval(fn *ssa.Function, args []cval) []Outcome {
	if f.MaxDepth == 0 {
		f.MaxDepth = 5
	}
	if f.Budget == 0 {
		f.Budget = 200000
	}
	return f.eval(fn, args, 0)
}

type fenv map[ssa.Value]cval

func (e fenv) clone() fenv {
	n := make(fenv, len(e)+8)
	for k, v := range e {
		n[k] = v
	}
	return n
}

// EvalFrom folds fn starting at block start (as if entered from pred) with a
// preset environment for values defined earlier.
func (f *Folder) EvalFrom(fn *ssa.Function, start, pred *ssa.BasicBlock, preset map[ssa.Value]cval) []Outcome {
	if f.MaxDepth == 0 {
		f.MaxDepth = 5
	}
	if f.Budget == 0 {
		f.Budget = 200000
	}
	f.startBlock, f.startPred, f.preset = start, pred, preset
	defer func() { f.startBlock, f.startPred, f.preset = nil, nil, nil }()
	return f.eval(fn, nil, 0)
}

func (f *Folder) eval(fn *ssa.Function, args []cval, depth int) []Outcome {
	if len(fn.Blocks) == 0 {
		return []Outcome{{Returned: true}}
	}
	env := fenv{}
	for i, p := range fn.Params {
		if i < len(args) {
			env[p] = args[i]
		}
	}
	first, firstPred := fn.Blocks[0], (*ssa.BasicBlock)(nil)
	if depth == 0 && f.startBlock != nil {
		first, firstPred = f.startBlock, f.startPred
		for k, v := range f.preset {
			env[k] = v
		}
	}
	var outs []Outcome
	type frame struct {
		b    *ssa.BasicBlock
		pred *ssa.BasicBlock
		env  fenv
		mem  map[string]cval
	}
	work := []frame{{first, firstPred, env, map[string]cval{}}}
	visits := map[*ssa.BasicBlock]int{}
	seenState := map[string]bool{}
	for len(work) > 0 {
		fr := work[len(work)-1]
		work = work[:len(work)-1]
		sk := stateKey(fr.b, fr.pred, fr.env) + memKey(fr.mem)
		if seenState[sk] {
			continue
		}
		seenState[sk] = true
		visits[fr.b]++
		if visits[fr.b] > 5000 {
			f.Over = true
			continue
		}
		env := fr.env
		mem := fr.mem
		done := false
		for _, in := range fr.b.Instrs {
			f.Steps++
			if f.Steps > f.Budget {
				f.Over = true
				return outs
			}
			if f.Stop != nil && f.Stop(in) {
				outs = append(outs, Outcome{Stopped: in})
				done = true
				break
			}
			switch x := in.(type) {
			case *ssa.Phi:
				for i, p := range fr.b.Preds {
					if p == fr.pred {
						env[x] = f.val(env, x.Edges[i])
					}
				}
			case *ssa.BinOp:
				env[x] = f.binop(x, f.val(env, x.X), f.val(env, x.Y))
			case *ssa.UnOp:
				if x.Op == token.MUL {
					if _, assumed := f.assume(x); !assumed {
						// a local struct: assemble it from its tracked fields
						if sv, ok := loadStruct(mem, x.X); ok {
							env[x] = sv
							break
						}
						// a package-level lookup table, never written after init
						if g, ok := x.X.(*ssa.Global); ok {
							if t := f.globalMap(g); t != nil {
								env[x] = cval{nonNil: true}
								break
							}
						}
						if k := addrKey(env, f, x.X); k != "" {
							if v, ok := mem[k]; ok {
								env[x] = v
								break
							}
						}
					}
				}
				env[x] = f.unop(env, x)
			case *ssa.Store:
				if f.OnStore != nil && depth == 0 {
					f.OnStore(x, f.val(env, x.Val))
				}
				if k := addrKey(env, f, x.Addr); k != "" {
					sv := f.val(env, x.Val)
					mem[k] = sv
					storeStruct(mem, x.Addr, sv)
				}
			case *ssa.Field:
				env[x] = unknownVal
				if sv := f.val(env, x.X); sv.fields != nil {
					if fv, ok := sv.fields[x.Field]; ok {
						env[x] = fv
					}
				}
			case *ssa.Lookup:
				env[x] = unknownVal
				if f.lookups != nil {
					delete(f.lookups, x)
				}
				if ld, ok := x.X.(*ssa.UnOp); ok && ld.Op == token.MUL {
					if g, ok := ld.X.(*ssa.Global); ok {
						if t := f.globalMap(g); t != nil {
							if k := f.val(env, x.Index); k.known {
								v, found := t[k.v.ExactString()]
								if x.CommaOk {
									if f.lookups == nil {
										f.lookups = map[*ssa.Lookup][]cval{}
									}
									f.lookups[x] = []cval{v, {known: true, v: constant.MakeBool(found)}}
								} else if found {
									env[x] = v
								}
							}
						}
					}
				}
			case *ssa.Convert:
				env[x] = convertConst(f.val(env, x.X), x.Type())
			case *ssa.ChangeType:
				env[x] = f.val(env, x.X)
			case *ssa.MakeInterface:
				v := f.val(env, x.X)
				v.nonNil = true
				env[x] = v
			case *ssa.Alloc:
				env[x] = cval{nonNil: true}
			case *ssa.MakeSlice, *ssa.MakeMap, *ssa.MakeChan, *ssa.MakeClosure:
				env[x.(ssa.Value)] = cval{nonNil: true}
			case *ssa.Call:
				// a call may modify any tracked local whose address it receives
				for _, a := range x.Common().Args {
					for k := range mem {
						if strings.HasPrefix(k, a.Name()+"[") || k == a.Name() {
							delete(mem, k)
						}
					}
				}
				env[x] = f.call(env, x, depth)
			case *ssa.Extract:
				env[x] = unknownVal
				if lk, ok := x.Tuple.(*ssa.Lookup); ok && f.lookups != nil {
					if t, ok := f.lookups[lk]; ok && x.Index < len(t) {
						env[x] = t[x.Index]
					}
				}
				if cl, ok := x.Tuple.(*ssa.Call); ok && f.tuples != nil {
					if t, ok := f.tuples[cl]; ok && x.Index < len(t) {
						env[x] = t[x.Index]
					}
				}
				if a, ok := f.assume(x); ok {
					env[x] = a
				}
			case *ssa.Panic:
				outs = append(outs, Outcome{Panicked: true})
				done = true
			case *ssa.Return:
				o := Outcome{Returned: true, Ret: x}
				for i := range x.Results {
					o.Results = append(o.Results, f.val(env, retVal(x, i)))
				}
				outs = append(outs, o)
				done = true
			case *ssa.If:
				c := f.val(env, x.Cond)
				if c.known && c.v.Kind() == constant.Bool {
					idx := 1
					if constant.BoolVal(c.v) {
						idx = 0
					}
					work = append(work, frame{fr.b.Succs[idx], fr.b, env, mem})
				} else {
					work = append(work, frame{fr.b.Succs[0], fr.b, env.clone(), cloneMem(mem)})
					work = append(work, frame{fr.b.Succs[1], fr.b, env.clone(), cloneMem(mem)})
				}
				done = true
			case *ssa.Jump:
				work = append(work, frame{fr.b.Succs[0], fr.b, env, mem})
				done = true
			default:
				if v, ok := in.(ssa.Value); ok {
					if a, ok := f.assume(v); ok {
						env[v] = a
					}
				}
			}
			if depth == 0 && f.Pin != nil {
				if v, ok := in.(ssa.Value); ok {
					if pv, ok := f.Pin[v]; ok {
						env[v] = pv
					}
				}
			}
			if done {
				break
			}
		}
	}
	return outs
}

// stateKey identifies an evaluation state by block, incoming edge and the
// known part of the environment restricted to values that can still matter:
// values defined in blocks that do not strictly dominate b may be re-defined,
// but their current content decides phis and branches, so all known values
// are included.
func stateKey(b, pred *ssa.BasicBlock, env fenv) string {
	live := liveIn(b.Parent())[b]
	parts := make([]string, 0, len(env))
	for v, c := range env {
		// a value that no instruction from b onwards reads cannot influence
		// the rest of the evaluation: states that differ only there are one
		// state (a finished counting loop leaves one continuation, not one
		// per iteration count)
		if !live[v] {
			continue
		}
		switch {
		case c.known:
			parts = append(parts, v.Name()+"="+c.v.ExactString())
		case c.isNil:
			parts = append(parts, v.Name()+"=nil")
		case c.fields != nil:
			parts = append(parts, v.Name()+"="+fieldsKey(c.fields))
		}
	}
	sort.Strings(parts)
	pi := -1
	if pred != nil {
		pi = pred.Index
	}
	return fmt.Sprintf("%d<%d|%s", b.Index, pi, strings.Join(parts, ","))
}

var liveCache = map[*ssa.Function]map[*ssa.BasicBlock]map[ssa.Value]bool{}

// liveIn: for every block of fn the SSA values that may still be read at its
// entry or later (classic backward liveness; the operands of a block's phis
// count as live at the entry of that block, which only keeps more).
func liveIn(fn *ssa.Function) map[*ssa.BasicBlock]map[ssa.Value]bool {
	if l, ok := liveCache[fn]; ok {
		return l
	}
	in := map[*ssa.BasicBlock]map[ssa.Value]bool{}
	use := map[*ssa.BasicBlock]map[ssa.Value]bool{}
	def := map[*ssa.BasicBlock]map[ssa.Value]bool{}
	for _, b := range fn.Blocks {
		u, d := map[ssa.Value]bool{}, map[ssa.Value]bool{}
		var ops []*ssa.Value
		for _, instr := range b.Instrs {
			ops = instr.Operands(ops[:0])
			_, isPhi := instr.(*ssa.Phi)
			for _, op := range ops {
				if op == nil || *op == nil {
					continue
				}
				switch (*op).(type) {
				case *ssa.Const, *ssa.Function, *ssa.Global, *ssa.Builtin:
					continue
				}
				if isPhi || !d[*op] {
					u[*op] = true
				}
			}
			if v, ok := instr.(ssa.Value); ok {
				d[v] = true
			}
		}
		use[b], def[b], in[b] = u, d, map[ssa.Value]bool{}
		for v := range u {
			in[b][v] = true
		}
	}
	for changed := true; changed; {
		changed = false
		for i := len(fn.Blocks) - 1; i >= 0; i-- {
			b := fn.Blocks[i]
			for _, s := range b.Succs {
				for v := range in[s] {
					if !def[b][v] && !in[b][v] {
						in[b][v] = true
						changed = true
					}
				}
			}
		}
	}
	liveCache[fn] = in
	return in
}

func (f *Folder) assume(v ssa.Value) (cval, bool) {
	if f.Assume == nil {
		return cval{}, false
	}
	return f.Assume(v)
}

func (f *Folder) val(env fenv, v ssa.Value) cval {
	if v == nil {
		return unknownVal
	}
	if a, ok := f.assume(v); ok {
		return a
	}
	if c, ok := v.(*ssa.Const); ok {
		if c.Value == nil {
			return cval{isNil: true, known: false}
		}
		return cval{known: true, v: c.Value}
	}
	if x, ok := env[v]; ok {
		return x
	}
	switch x := v.(type) {
	case *ssa.Function, *ssa.Global:
		return cval{nonNil: true}
	case *ssa.Convert:
		return convertConst(f.val(env, x.X), x.Type())
	case *ssa.ChangeType:
		return f.val(env, x.X)
	}
	return unknownVal
}

func (f *Folder) unop(env fenv, x *ssa.UnOp) cval {
	if a, ok := f.assume(x); ok {
		return a
	}
	v := f.val(env, x.X)
	switch x.Op {
	case token.NOT:
		if v.known && v.v.Kind() == constant.Bool {
			return cval{known: true, v: constant.MakeBool(!constant.BoolVal(v.v))}
		}
	case token.SUB, token.XOR:
		if v.known && v.v.Kind() == constant.Int {
			return convertConst(cval{known: true, v: constant.UnaryOp(x.Op, v.v, 0)}, x.Type())
		}
	case token.MUL:
		// load: constants of package-level "var" are not folded
	}
	return unknownVal
}

func (f *Folder) binop(x *ssa.BinOp, a, b cval) cval {
	switch x.Op {
	case token.EQL, token.NEQ:
		// nil comparisons
		if (a.isNil && b.nonNil) || (b.isNil && a.nonNil) {
			return cval{known: true, v: constant.MakeBool(x.Op == token.NEQ)}
		}
		if a.isNil && b.isNil {
			return cval{known: true, v: constant.MakeBool(x.Op == token.EQL)}
		}
	}
	if !a.known || !b.known {
		// short cuts: x % k etc are unknown
		return unknownVal
	}
	switch x.Op {
	case token.EQL, token.NEQ, token.LSS, token.LEQ, token.GTR, token.GEQ:
		if a.v.Kind() != b.v.Kind() && !(isNum(a.v) && isNum(b.v)) {
			return unknownVal
		}
		return cval{known: true, v: constant.MakeBool(constant.Compare(a.v, x.Op, b.v))}
	case token.SHL, token.SHR:
		s, ok := constant.Uint64Val(b.v)
		if !ok || s > 64 {
			return unknownVal
		}
		return convertConst(cval{known: true, v: constant.Shift(a.v, x.Op, uint(s))}, x.Type())
	case token.QUO, token.REM:
		if constant.Sign(b.v) == 0 {
			return unknownVal
		}
		op := x.Op
		if a.v.Kind() == constant.Int && b.v.Kind() == constant.Int && op == token.QUO {
			op = token.QUO_ASSIGN // integer division
		}
		return convertConst(cval{known: true, v: constant.BinaryOp(a.v, op, b.v)}, x.Type())
	case token.ADD, token.SUB, token.MUL, token.AND, token.OR, token.XOR, token.AND_NOT, token.LAND, token.LOR:
		if a.v.Kind() == constant.Bool || b.v.Kind() == constant.Bool {
			return unknownVal
		}
		return convertConst(cval{known: true, v: constant.BinaryOp(a.v, x.Op, b.v)}, x.Type())
	}
	return unknownVal
}

func isNum(v constant.Value) bool { return v.Kind() == constant.Int || v.Kind() == constant.Float }

// convertConst truncates an integer constant to the target basic type.
func convertConst(c cval, t types.Type) cval {
	if !c.known || c.v.Kind() != constant.Int {
		return c
	}
	b, ok := t.Underlying().(*types.Basic)
	if !ok {
		return c
	}
	var bits uint
	signed := false
	switch b.Kind() {
	case types.Uint8:
		bits = 8
	case types.Uint16:
		bits = 16
	case types.Uint32:
		bits = 32
	case types.Uint64, types.Uint, types.Uintptr:
		bits = 64
	case types.Int8:
		bits, signed = 8, true
	case types.Int16:
		bits, signed = 16, true
	case types.Int32:
		bits, signed = 32, true
	case types.Int64, types.Int:
		bits, signed = 64, true
	default:
		return c
	}
	mask := constant.BinaryOp(constant.Shift(constant.MakeInt64(1), token.SHL, bits), token.SUB, constant.MakeInt64(1))
	v := constant.BinaryOp(c.v, token.AND, mask)
	if signed {
		half := constant.Shift(constant.MakeInt64(1), token.SHL, bits-1)
		if constant.Compare(v, token.GEQ, half) {
			v = constant.BinaryOp(v, token.SUB, constant.Shift(constant.MakeInt64(1), token.SHL, bits))
		}
	}
	return cval{known: true, v: v}
}

func (f *Folder) call(env fenv, x *ssa.Call, depth int) cval {
	if a, ok := f.assume(x); ok {
		return a
	}
	cc := x.Common()
	if f.OnCall != nil || f.CallHook != nil {
		var as []cval
		for _, a := range cc.Args {
			as = append(as, f.val(env, a))
		}
		if f.OnCall != nil {
			f.OnCall(x, as)
		}
		if f.CallHook != nil {
			if r, ok := f.CallHook(x, as); ok {
				return r
			}
		}
	}
	if b, ok := cc.Value.(*ssa.Builtin); ok {
		_ = b
		return unknownVal
	}
	sc := cc.StaticCallee()
	if sc == nil {
		return unknownVal
	}
	id := sc.String()
	switch id {
	case "(time.Duration).Nanoseconds":
		if len(cc.Args) == 1 {
			return f.val(env, cc.Args[0])
		}
	}
	switch {
	case id == "fmt.Errorf", id == "errors.New", strings.HasSuffix(id, "stderror.WrapErrorWithType"):
		return cval{nonNil: true}
	}
	if !inProductFn(sc) || sc.Blocks == nil || depth >= f.MaxDepth || len(sc.Blocks) > 40 {
		return unknownVal
	}
	switch relPkg(sc) {
	case "pkg/log", "pkg/metrics", "pkg/stderror":
		return unknownVal
	}
	nres := sc.Signature.Results().Len()
	if nres == 0 {
		return unknownVal
	}
	if nres > 1 && len(sc.Blocks) > 12 {
		// several results are folded for small helpers only (cost)
		return unknownVal
	}
	var args []cval
	for _, a := range cc.Args {
		args = append(args, f.val(env, a))
	}
	outs := f.eval(sc, args, depth+1)
	if nres > 1 {
		// several results: each position is known if all outcomes agree on it
		agreed := make([]cval, nres)
		set := make([]bool, nres)
		okAll := len(outs) > 0
		for _, o := range outs {
			if !o.Returned || len(o.Results) != nres {
				okAll = false
				break
			}
			for i, r := range o.Results {
				if !set[i] {
					agreed[i], set[i] = r, true
					continue
				}
				a := agreed[i]
				switch {
				case a.known && r.known && constant.Compare(a.v, token.EQL, r.v):
				case a.isNil && r.isNil:
				case a.nonNil && r.nonNil && !a.known && !r.known:
				default:
					agreed[i] = unknownVal
				}
			}
		}
		if okAll {
			if f.tuples == nil {
				f.tuples = map[*ssa.Call][]cval{}
			}
			f.tuples[x] = agreed
		}
		return unknownVal
	}
	// all outcomes must agree on a known constant
	var res *cval
	for _, o := range outs {
		if !o.Returned || len(o.Results) != 1 {
			return unknownVal
		}
		r := o.Results[0]
		if res == nil {
			rr := r
			res = &rr
			continue
		}
		if !(res.known && r.known && constant.Compare(res.v, token.EQL, r.v)) {
			if res.isNil && r.isNil {
				continue
			}
			if res.nonNil && r.nonNil && !res.known && !r.known {
				continue
			}
			return unknownVal
		}
	}
	if res == nil {
		return unknownVal
	}
	return *res
}

// ---------------------------------------------------------------- helpers

// protocolConsts returns name -> value of the protocolType constants.
func protocolConsts(p *Prog) map[string]int64 {
	out := map[string]int64{}
	tp := p.TypesPkg(protoPkg)
	if tp == nil {
		return out
	}
	for _, n := range tp.Scope().Names() {
		c, ok := tp.Scope().Lookup(n).(*types.Const)
		if !ok {
			continue
		}
		if named, ok := c.Type().(*types.Named); ok && named.Obj().Name() == "protocolType" {
			if v, ok := constant.Int64Val(c.Val()); ok {
				out[n] = v
			}
		}
	}
	return out
}

// assumeProtocol returns an Assume function that fixes the result of every
// Protocol() call (on metadata or segment) and every load of baseStruct.protocol
// to k, plus optional boolean field assumptions (field name -> value).
func assumeProtocol(k int64, boolFields map[string]bool) func(v ssa.Value) (cval, bool) {
	return func(v ssa.Value) (cval, bool) {
		switch x := v.(type) {
		case *ssa.Call:
			n := calleeName(x)
			if n == "Protocol" {
				return cval{known: true, v: constant.MakeInt64(k)}, true
			}
		case *ssa.UnOp:
			if x.Op == token.MUL {
				if f := fieldOrigin(x); f != nil {
					if f.Name() == "protocol" {
						return cval{known: true, v: constant.MakeInt64(k)}, true
					}
					if b, ok := boolFields[f.Name()]; ok {
						return cval{known: true, v: constant.MakeBool(b)}, true
					}
				}
			}
		}
		return cval{}, false
	}
}

// acceptsNil: does some outcome return a nil value as its last result?
func acceptsNil(outs []Outcome) (accept bool, reject bool) {
	for _, o := range outs {
		if o.Stopped != nil {
			accept = true
			continue
		}
		if !o.Returned || len(o.Results) == 0 {
			continue
		}
		r := o.Results[len(o.Results)-1]
		if r.isNil {
			accept = true
		} else {
			reject = true
		}
	}
	return
}

func cloneMem(m map[string]cval) map[string]cval {
	n := make(map[string]cval, len(m))
	for k, v := range m {
		n[k] = v
	}
	return n
}

func memKey(m map[string]cval) string {
	if len(m) == 0 {
		return ""
	}
	parts := make([]string, 0, len(m))
	for k, v := range m {
		if v.known {
			parts = append(parts, k+"="+v.v.ExactString())
		} else if v.fields != nil {
			parts = append(parts, k+"="+fieldsKey(v.fields))
		}
	}
	sort.Strings(parts)
	return "|M:" + strings.Join(parts, ",")
}

// addrKey names a memory cell of a function-local object: an Alloc, or an
// element with a constant index of a locally made slice/array.
func addrKey(env fenv, f *Folder, addr ssa.Value) string {
	switch a := addr.(type) {
	case *ssa.Alloc:
		return a.Name()
	case *ssa.FieldAddr:
		if al, ok := a.X.(*ssa.Alloc); ok {
			return al.Name() + "." + fmt.Sprint(a.Field)
		}
	case *ssa.IndexAddr:
		idx := f.val(env, a.Index)
		if !idx.known {
			return ""
		}
		base := a.X
		for {
			if sl, ok := base.(*ssa.Slice); ok && sl.Low == nil {
				base = sl.X
				continue
			}
			break
		}
		switch base.(type) {
		case *ssa.MakeSlice, *ssa.Alloc:
			return base.Name() + "[" + idx.v.ExactString() + "]"
		}
	}
	return ""
}

// loadStruct: the value of a local struct variable assembled from what the
// evaluation stored into it (as a whole or field by field).
func loadStruct(mem map[string]cval, addr ssa.Value) (cval, bool) {
	al, ok := addr.(*ssa.Alloc)
	if !ok {
		return cval{}, false
	}
	st, ok := al.Type().(*types.Pointer).Elem().Underlying().(*types.Struct)
	if !ok {
		return cval{}, false
	}
	fs := map[int]cval{}
	if whole, ok := mem[al.Name()]; ok && whole.fields != nil {
		for i, v := range whole.fields {
			fs[i] = v
		}
	}
	for i := 0; i < st.NumFields(); i++ {
		if v, ok := mem[al.Name()+"."+fmt.Sprint(i)]; ok {
			fs[i] = v
		}
	}
	if len(fs) == 0 {
		return cval{}, false
	}
	return cval{fields: fs}, true
}

// storeStruct keeps whole-struct and per-field entries of a local consistent.
func storeStruct(mem map[string]cval, addr ssa.Value, v cval) {
	if al, ok := addr.(*ssa.Alloc); ok {
		// whole-variable store: older per-field entries are stale
		for mk := range mem {
			if strings.HasPrefix(mk, al.Name()+".") {
				delete(mem, mk)
			}
		}
	}
}

func fieldsKey(fs map[int]cval) string {
	ks := make([]int, 0, len(fs))
	for k := range fs {
		ks = append(ks, k)
	}
	sort.Ints(ks)
	var sb strings.Builder
	sb.WriteString("{")
	for _, k := range ks {
		c := fs[k]
		switch {
		case c.known:
			fmt.Fprintf(&sb, "%d:%s,", k, c.v.ExactString())
		case c.isNil:
			fmt.Fprintf(&sb, "%d:nil,", k)
		}
	}
	sb.WriteString("}")
	return sb.String()
}

// globalMap returns the contents of a package-level map variable that is
// built once by its initialiser with constant keys and constant (or constant
// struct) values and never written again in its package: a lookup table.
// Keys are the ExactString of the constant key. nil when g is not such a map.
func (f *Folder) globalMap(g *ssa.Global) map[string]cval {
	if t, ok := f.gmaps[g]; ok {
		return t
	}
	if f.gmaps == nil {
		f.gmaps = map[*ssa.Global]map[string]cval{}
	}
	f.gmaps[g] = nil
	if _, isMap := g.Type().(*types.Pointer).Elem().Underlying().(*types.Map); !isMap || g.Pkg == nil {
		return nil
	}
	if !token.IsExported(g.Name()) {
		// (an exported variable could be written from another package)
	} else {
		return nil
	}
	var mk ssa.Value
	stores := 0
	var fns []*ssa.Function
	for _, m := range g.Pkg.Members {
		if fn, ok := m.(*ssa.Function); ok {
			fns = append(fns, fn)
		}
		if tp, ok := m.(*ssa.Type); ok {
			for _, t := range []types.Type{tp.Type(), types.NewPointer(tp.Type())} {
				ms := g.Pkg.Prog.MethodSets.MethodSet(t)
				for i := 0; i < ms.Len(); i++ {
					if fn := g.Pkg.Prog.MethodValue(ms.At(i)); fn != nil && fn.Pkg == g.Pkg {
						fns = append(fns, fn)
					}
				}
			}
		}
	}
	for i := 0; i < len(fns); i++ {
		fns = append(fns, fns[i].AnonFuncs...)
	}
	okAll := true
	isG := func(v ssa.Value) bool {
		ld, ok := v.(*ssa.UnOp)
		return ok && ld.X == ssa.Value(g)
	}
	for _, fn := range fns {
		isInit := fn.Name() == "init" && fn.Synthetic != ""
		instrs(fn, func(_ *ssa.BasicBlock, _ int, in ssa.Instruction) {
			switch x := in.(type) {
			case *ssa.Store:
				if x.Addr == ssa.Value(g) {
					stores++
					mk = x.Val
					if !isInit {
						okAll = false
					}
				}
			case *ssa.MapUpdate:
				if isG(x.Map) {
					okAll = false // written through the variable
				}
			case *ssa.Call:
				if b, ok := x.Call.Value.(*ssa.Builtin); ok && (b.Name() == "delete" || b.Name() == "clear") && len(x.Call.Args) > 0 && isG(x.Call.Args[0]) {
					okAll = false
				}
			}
		})
	}
	if !okAll || stores != 1 || mk == nil {
		return nil
	}
	if _, ok := mk.(*ssa.MakeMap); !ok {
		return nil
	}
	table := map[string]cval{}
	for _, ref := range *mk.Referrers() {
		switch x := ref.(type) {
		case *ssa.MapUpdate:
			k, isK := x.Key.(*ssa.Const)
			if !isK || k.Value == nil {
				return nil
			}
			var v cval
			switch y := x.Value.(type) {
			case *ssa.Const:
				if y.Value == nil {
					return nil
				}
				v = cval{known: true, v: y.Value}
			case *ssa.UnOp:
				al, isAl := y.X.(*ssa.Alloc)
				if !isAl || y.Op != token.MUL {
					return nil
				}
				st, isSt := al.Type().(*types.Pointer).Elem().Underlying().(*types.Struct)
				if !isSt {
					return nil
				}
				fs := map[int]cval{}
				for i := 0; i < st.NumFields(); i++ {
					// unset integer fields of a composite literal are zero
					if bt, ok := st.Field(i).Type().Underlying().(*types.Basic); ok && bt.Info()&types.IsInteger != 0 {
						fs[i] = cInt(0)
					}
				}
				for _, r2 := range *al.Referrers() {
					fa, ok := r2.(*ssa.FieldAddr)
					if !ok {
						continue
					}
					for _, r3 := range *fa.Referrers() {
						if st2, ok := r3.(*ssa.Store); ok {
							if c2, ok := st2.Val.(*ssa.Const); ok && c2.Value != nil {
								fs[fa.Field] = cval{known: true, v: c2.Value}
							} else {
								delete(fs, fa.Field)
							}
						}
					}
				}
				v = cval{fields: fs}
			default:
				return nil
			}
			table[k.Value.ExactString()] = v
		case *ssa.Store:
			// the store into the variable
		default:
			return nil
		}
	}
	f.gmaps[g] = table
	return table
}
