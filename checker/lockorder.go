package main

// Lock-order analysis (rule R15.6): which mutex fields can be acquired while
// which other mutex field is held, across calls. Locks are identified by the
// struct field that holds the mutex ("Session.oLock"); two instances of the
// same type are not told apart, which over-approximates: a cycle found here
// is a candidate, the absence of cycles is a guarantee (for the locks and
// calls the call graph resolves).

import (
	"go/types"
	"sort"
	"strings"

	"golang.org/x/tools/go/callgraph"
	"golang.org/x/tools/go/ssa"
)

type lockID string

type lockAcq struct {
	Fn    *ssa.Function
	Instr ssa.Instruction
	Lock  lockID
	Read  bool
}

type lockEdge struct {
	From, To lockID
	// witness
	Holder *ssa.Function   // function that holds From
	At     ssa.Instruction // call / Lock made while holding
	Via    *ssa.Function   // function that acquires To (== Holder for direct)
}

type lockOrder struct {
	Acqs     []lockAcq
	Edges    []lockEdge
	Acquires map[*ssa.Function]map[lockID]*ssa.Function // transitive: lock -> function that takes it
	// blocking operations performed while a lock is held
	Blocking []lockEdge
}

func mutexFieldID(v ssa.Value) (lockID, bool) {
	// v is the receiver argument of Lock/Unlock: &x.f (FieldAddr) possibly through embedded struct addr
	fa, ok := v.(*ssa.FieldAddr)
	if !ok {
		return "", false
	}
	f, _ := fieldOfAddr(fa)
	if f == nil {
		return "", false
	}
	pt, ok := fa.X.Type().Underlying().(*types.Pointer)
	if !ok {
		return "", false
	}
	tn := pt.Elem().String()
	if i := strings.LastIndex(tn, "/"); i >= 0 {
		tn = tn[i+1:]
	}
	return lockID(tn + "." + f.Name()), true
}

func lockCall(in ssa.Instruction) (id lockID, kind string, ok bool) {
	cl, isCall := in.(ssa.CallInstruction)
	if !isCall {
		return "", "", false
	}
	sc := cl.Common().StaticCallee()
	if sc == nil || len(cl.Common().Args) == 0 {
		return "", "", false
	}
	full := sc.String()
	switch full {
	case "(*sync.Mutex).Lock", "(*sync.RWMutex).Lock":
		kind = "Lock"
	case "(*sync.RWMutex).RLock":
		kind = "RLock"
	case "(*sync.Mutex).Unlock", "(*sync.RWMutex).Unlock":
		kind = "Unlock"
	case "(*sync.RWMutex).RUnlock":
		kind = "RUnlock"
	default:
		return "", "", false
	}
	id, ok = mutexFieldID(cl.Common().Args[0])
	return id, kind, ok
}

func buildLockOrder(p *Prog) *lockOrder {
	lo := &lockOrder{Acquires: map[*ssa.Function]map[lockID]*ssa.Function{}}
	fns := p.Funcs()
	inScope := map[*ssa.Function]bool{}
	for _, f := range fns {
		inScope[f] = true
	}
	// direct acquisitions
	direct := map[*ssa.Function]map[lockID]bool{}
	for _, fn := range fns {
		instrs(fn, func(_ *ssa.BasicBlock, _ int, in ssa.Instruction) {
			if _, isDefer := in.(*ssa.Defer); isDefer {
				return
			}
			if id, kind, ok := lockCall(in); ok && (kind == "Lock" || kind == "RLock") {
				lo.Acqs = append(lo.Acqs, lockAcq{fn, in, id, kind == "RLock"})
				if direct[fn] == nil {
					direct[fn] = map[lockID]bool{}
				}
				direct[fn][id] = true
			}
		})
	}
	// callees (same goroutine): static + call graph for dynamic
	cg := p.CallGraph()
	callees := func(in ssa.Instruction, fn *ssa.Function) []*ssa.Function {
		cl, ok := in.(ssa.CallInstruction)
		if !ok {
			return nil
		}
		if _, isGo := in.(*ssa.Go); isGo {
			return nil
		}
		if sc := cl.Common().StaticCallee(); sc != nil {
			return []*ssa.Function{sc}
		}
		var out []*ssa.Function
		if n := cg.Nodes[fn]; n != nil {
			for _, e := range n.Out {
				if e.Site == cl {
					out = append(out, e.Callee.Func)
				}
			}
		}
		return out
	}
	// transitive acquires: fixpoint
	for _, fn := range fns {
		m := map[lockID]*ssa.Function{}
		for id := range direct[fn] {
			m[id] = fn
		}
		lo.Acquires[fn] = m
	}
	calls := map[*ssa.Function][]*ssa.Function{}
	for _, fn := range fns {
		seen := map[*ssa.Function]bool{}
		instrs(fn, func(_ *ssa.BasicBlock, _ int, in ssa.Instruction) {
			for _, g := range callees(in, fn) {
				if o := g.Origin(); o != nil && inScope[o] {
					g = o
				}
				if inScope[g] && !seen[g] {
					seen[g] = true
					calls[fn] = append(calls[fn], g)
				}
			}
			// closures called later in the same goroutine are approximated by their creation
			if mc, ok := in.(*ssa.MakeClosure); ok {
				if g, ok := mc.Fn.(*ssa.Function); ok && inScope[g] && !seen[g] {
					// only when not started with `go`
					startedWithGo := false
					for _, r := range *mc.Referrers() {
						if _, isGo := r.(*ssa.Go); isGo {
							startedWithGo = true
						}
					}
					if !startedWithGo {
						seen[g] = true
						calls[fn] = append(calls[fn], g)
					}
				}
			}
		})
	}
	for changed := true; changed; {
		changed = false
		for _, fn := range fns {
			for _, g := range calls[fn] {
				for id, via := range lo.Acquires[g] {
					if _, has := lo.Acquires[fn][id]; !has {
						lo.Acquires[fn][id] = via
						changed = true
					}
				}
			}
		}
	}
	// edges: for each acquisition, the region where it is held
	for _, a := range lo.Acqs {
		held := heldRegion(a.Fn, a.Instr, a.Lock)
		for in := range held {
			if id, kind, ok := lockCall(in); ok && (kind == "Lock" || kind == "RLock") {
				if _, isDefer := in.(*ssa.Defer); !isDefer {
					lo.Edges = append(lo.Edges, lockEdge{a.Lock, id, a.Fn, in, a.Fn})
				}
				continue
			}
			for _, g := range callees(in, a.Fn) {
				if o := g.Origin(); o != nil && inScope[o] {
					g = o
				}
				for id, via := range lo.Acquires[g] {
					lo.Edges = append(lo.Edges, lockEdge{a.Lock, id, a.Fn, in, via})
				}
			}
			if mc, ok := in.(*ssa.MakeClosure); ok {
				if g, ok := mc.Fn.(*ssa.Function); ok {
					startedWithGo := false
					for _, r := range *mc.Referrers() {
						if _, isGo := r.(*ssa.Go); isGo {
							startedWithGo = true
						}
					}
					if !startedWithGo {
						for id, via := range lo.Acquires[g] {
							lo.Edges = append(lo.Edges, lockEdge{a.Lock, id, a.Fn, in, via})
						}
					}
				}
			}
		}
	}
	return lo
}

// heldRegion: instructions that may execute while the lock taken at `at` is
// still held (until a non-deferred Unlock of the same lock on the path).
func heldRegion(fn *ssa.Function, at ssa.Instruction, id lockID) map[ssa.Instruction]bool {
	out := map[ssa.Instruction]bool{}
	type pos struct {
		b *ssa.BasicBlock
		i int
	}
	seenB := map[*ssa.BasicBlock]bool{}
	var walk func(b *ssa.BasicBlock, from int)
	walk = func(b *ssa.BasicBlock, from int) {
		for i := from; i < len(b.Instrs); i++ {
			in := b.Instrs[i]
			if lid, kind, ok := lockCall(in); ok && lid == id && (kind == "Unlock" || kind == "RUnlock") {
				if _, isDefer := in.(*ssa.Defer); !isDefer {
					return
				}
			}
			out[in] = true
		}
		for _, s := range b.Succs {
			if !seenB[s] {
				seenB[s] = true
				walk(s, 0)
			}
		}
	}
	walk(at.Block(), instrIndex(at)+1)
	return out
}

// cycles returns the strongly connected components with more than one lock,
// and the self-loops.
func (lo *lockOrder) graph() map[lockID]map[lockID]lockEdge {
	g := map[lockID]map[lockID]lockEdge{}
	for _, e := range lo.Edges {
		if g[e.From] == nil {
			g[e.From] = map[lockID]lockEdge{}
		}
		if _, has := g[e.From][e.To]; !has {
			g[e.From][e.To] = e
		}
	}
	return g
}

func (lo *lockOrder) sccs() [][]lockID {
	g := lo.graph()
	var nodes []lockID
	seen := map[lockID]bool{}
	for a, m := range g {
		if !seen[a] {
			seen[a] = true
			nodes = append(nodes, a)
		}
		for b := range m {
			if !seen[b] {
				seen[b] = true
				nodes = append(nodes, b)
			}
		}
	}
	sort.Slice(nodes, func(i, j int) bool { return nodes[i] < nodes[j] })
	index := map[lockID]int{}
	low := map[lockID]int{}
	on := map[lockID]bool{}
	var stack []lockID
	var out [][]lockID
	idx := 0
	var strong func(v lockID)
	strong = func(v lockID) {
		idx++
		index[v], low[v] = idx, idx
		stack = append(stack, v)
		on[v] = true
		var succ []lockID
		for w := range g[v] {
			succ = append(succ, w)
		}
		sort.Slice(succ, func(i, j int) bool { return succ[i] < succ[j] })
		for _, w := range succ {
			if index[w] == 0 {
				strong(w)
				if low[w] < low[v] {
					low[v] = low[w]
				}
			} else if on[w] && index[w] < low[v] {
				low[v] = index[w]
			}
		}
		if low[v] == index[v] {
			var comp []lockID
			for {
				w := stack[len(stack)-1]
				stack = stack[:len(stack)-1]
				on[w] = false
				comp = append(comp, w)
				if w == v {
					break
				}
			}
			if len(comp) > 1 {
				sort.Slice(comp, func(i, j int) bool { return comp[i] < comp[j] })
				out = append(out, comp)
			}
		}
	}
	for _, v := range nodes {
		if index[v] == 0 {
			strong(v)
		}
	}
	return out
}

var _ = callgraph.CalleesOf
