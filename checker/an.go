package main

// Shared analyses over go/ssa: field store / call-site inventories,
// instruction-level dominance and reachability, backward provenance slices.

import (
	"fmt"
	"go/constant"
	"go/token"
	"go/types"
	"sort"
	"strings"

	"golang.org/x/tools/go/ssa"
)

// ---------------------------------------------------------------- instructions

func instrs(f *ssa.Function, visit func(b *ssa.BasicBlock, i int, in ssa.Instruction)) {
	for _, b := range f.Blocks {
		for i, in := range b.Instrs {
			visit(b, i, in)
		}
	}
}

func instrIndex(in ssa.Instruction) int {
	for i, x := range in.Block().Instrs {
		if x == in {
			return i
		}
	}
	return -1
}

// instrDominates: a executes before b on every path from entry to b.
func instrDominates(a, b ssa.Instruction) bool {
	if a.Block() == b.Block() {
		return instrIndex(a) < instrIndex(b)
	}
	return a.Block().Dominates(b.Block())
}

// reachableAvoiding reports whether "to" is reachable from "from" (exclusive of
// from itself) in f's CFG without executing any instruction in avoid.
// from == nil means function entry.
func reachableAvoiding(f *ssa.Function, from ssa.Instruction, to func(ssa.Instruction) bool, avoid func(ssa.Instruction) bool) ssa.Instruction {
	type pt struct {
		b *ssa.BasicBlock
		i int
	}
	var start pt
	if from == nil {
		if len(f.Blocks) == 0 {
			return nil
		}
		start = pt{f.Blocks[0], 0}
	} else {
		start = pt{from.Block(), instrIndex(from) + 1}
	}
	seenBlock := map[*ssa.BasicBlock]bool{}
	work := []pt{start}
	for len(work) > 0 {
		p := work[len(work)-1]
		work = work[:len(work)-1]
		blocked := false
		for i := p.i; i < len(p.b.Instrs); i++ {
			in := p.b.Instrs[i]
			if avoid != nil && avoid(in) {
				blocked = true
				break
			}
			if to(in) {
				return in
			}
		}
		if blocked {
			continue
		}
		for _, s := range p.b.Succs {
			if !seenBlock[s] {
				seenBlock[s] = true
				work = append(work, pt{s, 0})
			}
		}
	}
	return nil
}

func isReturn(in ssa.Instruction) bool { _, ok := in.(*ssa.Return); return ok }

// ---------------------------------------------------------------- callees

// staticCallee returns the statically resolved callee of a call instruction
// (function, method, or closure), or nil.
func staticCallee(c ssa.CallInstruction) *ssa.Function {
	return c.Common().StaticCallee()
}

// calleeID gives a stable textual identity for the callee of a call:
// "pkg.Func", "(*pkg.T).M", or "iface:pkg.I.M" for interface invokes; for
// generic instantiations the origin is used.
func calleeID(c ssa.CallInstruction) string {
	cc := c.Common()
	if cc.IsInvoke() {
		m := cc.Method
		recv := m.Type().(*types.Signature).Recv()
		rn := "?"
		if recv != nil {
			rn = types.TypeString(recv.Type(), nil)
		}
		return "iface:" + rn + "." + m.Name()
	}
	if f := cc.StaticCallee(); f != nil {
		if o := f.Origin(); o != nil {
			f = o
		}
		return f.String()
	}
	if b, ok := cc.Value.(*ssa.Builtin); ok {
		return "builtin:" + b.Name()
	}
	return "dynamic"
}

func isCallTo(in ssa.Instruction, ids ...string) (ssa.CallInstruction, bool) {
	c, ok := in.(ssa.CallInstruction)
	if !ok {
		return nil, false
	}
	id := calleeID(c)
	for _, want := range ids {
		if id == want || id == strings.ReplaceAll(want, "MOD", modPath) {
			return c, true
		}
	}
	return nil, false
}

// callArgs returns the arguments including the receiver as args[0] for
// method calls (both static and invoke).
func callArgs(c ssa.CallInstruction) []ssa.Value {
	cc := c.Common()
	if cc.IsInvoke() {
		return append([]ssa.Value{cc.Value}, cc.Args...)
	}
	return cc.Args
}

// ---------------------------------------------------------------- fields

// fieldOfAddr: if v is &x.f returns f's object and x.
func fieldOfAddr(v ssa.Value) (*types.Var, ssa.Value) {
	fa, ok := v.(*ssa.FieldAddr)
	if !ok {
		return nil, nil
	}
	pt, ok := fa.X.Type().Underlying().(*types.Pointer)
	if !ok {
		return nil, nil
	}
	st, ok := pt.Elem().Underlying().(*types.Struct)
	if !ok {
		return nil, nil
	}
	return st.Field(fa.Field), fa.X
}

// sameField compares struct fields by declaration position (robust across
// generic instantiation).
func sameField(a, b *types.Var) bool {
	if a == nil || b == nil {
		return false
	}
	return a == b || (a.Pos() == b.Pos() && a.Name() == b.Name() && a.Pos().IsValid())
}

// fieldOrigin strips loads, conversions and slicing and returns the field a
// value was loaded from (x.f, *x.f, x.f[:n] ...), or nil.
func fieldOrigin(v ssa.Value) *types.Var {
	for i := 0; i < 8; i++ {
		switch x := v.(type) {
		case *ssa.UnOp:
			if x.Op == token.MUL {
				if f, _ := fieldOfAddr(x.X); f != nil {
					return f
				}
				v = x.X
				continue
			}
			return nil
		case *ssa.FieldAddr:
			f, _ := fieldOfAddr(x)
			return f
		case *ssa.Field:
			st, ok := x.X.Type().Underlying().(*types.Struct)
			if ok {
				return st.Field(x.Field)
			}
			return nil
		case *ssa.ChangeType:
			v = x.X
		case *ssa.Convert:
			v = x.X
		case *ssa.ChangeInterface:
			v = x.X
		case *ssa.MakeInterface:
			v = x.X
		case *ssa.Slice:
			v = x.X
		case *ssa.TypeAssert:
			v = x.X
		default:
			return nil
		}
	}
	return nil
}

type Site struct {
	Fn    *ssa.Function
	Instr ssa.Instruction
	Val   ssa.Value // stored value / call
}

func (s Site) Pos() token.Pos {
	if p := s.Instr.Pos(); p.IsValid() {
		return p
	}
	// stores from composite literals often carry no position: use nearest
	b := s.Instr.Block()
	idx := instrIndex(s.Instr)
	for d := 1; d < len(b.Instrs); d++ {
		for _, j := range []int{idx - d, idx + d} {
			if j >= 0 && j < len(b.Instrs) && b.Instrs[j].Pos().IsValid() {
				return b.Instrs[j].Pos()
			}
		}
	}
	return s.Fn.Pos()
}

// FieldStores lists every SSA store to the given struct field in product code
// (assignments and composite-literal initialisers alike).
func (p *Prog) FieldStores(f *types.Var) []Site {
	var out []Site
	for _, fn := range p.allFns {
		instrs(fn, func(_ *ssa.BasicBlock, _ int, in ssa.Instruction) {
			if st, ok := in.(*ssa.Store); ok {
				if fv, _ := fieldOfAddr(st.Addr); sameField(fv, f) {
					out = append(out, Site{fn, in, st.Val})
				}
			}
		})
	}
	return out
}

// FieldMethodCalls lists calls x.f.M(...) where f is the given field (the
// receiver is the field's address or a value loaded from it).
func (p *Prog) FieldMethodCalls(f *types.Var, methods ...string) []Site {
	var out []Site
	for _, fn := range p.allFns {
		instrs(fn, func(_ *ssa.BasicBlock, _ int, in ssa.Instruction) {
			c, ok := in.(ssa.CallInstruction)
			if !ok {
				return
			}
			name := ""
			cc := c.Common()
			if cc.IsInvoke() {
				name = cc.Method.Name()
			} else if sc := cc.StaticCallee(); sc != nil && len(cc.Args) > 0 && (sc.Signature.Recv() != nil || (sc.Origin() != nil && sc.Origin().Signature.Recv() != nil)) {
				name = sc.Name()
				if o := sc.Origin(); o != nil {
					name = o.Name()
				}
			} else {
				return
			}
			match := len(methods) == 0
			for _, m := range methods {
				if m == name {
					match = true
				}
			}
			if !match {
				return
			}
			args := callArgs(c)
			if len(args) == 0 {
				return
			}
			if fv := fieldOrigin(args[0]); sameField(fv, f) {
				out = append(out, Site{fn, in, nil})
			}
		})
	}
	return out
}

// CallsTo lists every call in product code whose calleeID is one of ids.
func (p *Prog) CallsTo(ids ...string) []Site {
	var out []Site
	for _, fn := range p.allFns {
		instrs(fn, func(_ *ssa.BasicBlock, _ int, in ssa.Instruction) {
			if c, ok := isCallTo(in, ids...); ok {
				out = append(out, Site{fn, c, c.Value()})
			}
		})
	}
	return out
}

// CallsToFn lists calls statically resolved to fn.
func (p *Prog) CallsToFn(fn *ssa.Function) []Site {
	var out []Site
	if fn == nil {
		return out
	}
	for _, f := range p.allFns {
		instrs(f, func(_ *ssa.BasicBlock, _ int, in ssa.Instruction) {
			if c, ok := in.(ssa.CallInstruction); ok {
				if sc := c.Common().StaticCallee(); sc != nil && (sc == fn || sc.Origin() == fn) {
					out = append(out, Site{f, c, c.Value()})
				}
			}
		})
	}
	return out
}

// outermost returns the enclosing declared function of a closure.
func outermost(f *ssa.Function) *ssa.Function {
	for f.Parent() != nil {
		f = f.Parent()
	}
	return f
}

// ---------------------------------------------------------------- provenance

// allocStores returns the values stored into a local Alloc (for defer-spilled
// results and address-taken locals).
func allocStores(a *ssa.Alloc) []ssa.Value {
	var out []ssa.Value
	for _, r := range *a.Referrers() {
		if st, ok := r.(*ssa.Store); ok && st.Addr == a {
			out = append(out, st.Val)
		}
	}
	return out
}

// Leaves computes the set of leaf values a value may derive from by walking
// back through phis, conversions, slices, tuple extraction and loads of local
// allocs. stop(v) == true makes v a leaf. Everything that is not transparent
// is a leaf too.
func Leaves(v ssa.Value, stop func(ssa.Value) bool) []ssa.Value {
	seen := map[ssa.Value]bool{}
	var out []ssa.Value
	var walk func(v ssa.Value)
	walk = func(v ssa.Value) {
		if v == nil || seen[v] {
			return
		}
		seen[v] = true
		if stop != nil && stop(v) {
			out = append(out, v)
			return
		}
		switch x := v.(type) {
		case *ssa.Phi:
			for _, e := range x.Edges {
				walk(e)
			}
		case *ssa.ChangeType:
			walk(x.X)
		case *ssa.Convert:
			walk(x.X)
		case *ssa.ChangeInterface:
			walk(x.X)
		case *ssa.MakeInterface:
			walk(x.X)
		case *ssa.Slice:
			walk(x.X)
		case *ssa.UnOp:
			if x.Op == token.MUL {
				if a, ok := x.X.(*ssa.Alloc); ok {
					sts := allocStores(a)
					if len(sts) == 0 {
						out = append(out, v)
						return
					}
					for _, s := range sts {
						walk(s)
					}
					return
				}
			}
			out = append(out, v)
		default:
			out = append(out, v)
		}
	}
	walk(v)
	return out
}

// describe renders an SSA value as a short, position-free expression used in
// messages and canonical keys.
func describe(v ssa.Value) string { return describeD(v, 0) }

func describeD(v ssa.Value, d int) string {
	if v == nil {
		return "<nil>"
	}
	if d > 6 {
		return "…"
	}
	switch x := v.(type) {
	case *ssa.Const:
		if x.Value == nil {
			return "nil"
		}
		return x.Value.ExactString()
	case *ssa.Parameter:
		return x.Name()
	case *ssa.FreeVar:
		return x.Name()
	case *ssa.Global:
		return x.Name()
	case *ssa.Function:
		return fnName(x)
	case *ssa.FieldAddr:
		f, base := fieldOfAddr(x)
		if f == nil {
			return "&?.?"
		}
		return "&" + describeD(base, d+1) + "." + f.Name()
	case *ssa.Field:
		st := x.X.Type().Underlying().(*types.Struct)
		return describeD(x.X, d+1) + "." + st.Field(x.Field).Name()
	case *ssa.UnOp:
		if x.Op == token.MUL {
			if fa, ok := x.X.(*ssa.FieldAddr); ok {
				f, base := fieldOfAddr(fa)
				return describeD(base, d+1) + "." + f.Name()
			}
			if a, ok := x.X.(*ssa.Alloc); ok {
				if a.Comment != "" {
					return a.Comment
				}
			}
			return "*" + describeD(x.X, d+1)
		}
		return x.Op.String() + describeD(x.X, d+1)
	case *ssa.BinOp:
		return "(" + describeD(x.X, d+1) + " " + x.Op.String() + " " + describeD(x.Y, d+1) + ")"
	case *ssa.Call:
		var as []string
		for _, a := range callArgs(x) {
			as = append(as, describeD(a, d+1))
		}
		id := calleeID(x)
		id = strings.ReplaceAll(id, modPath+"/", "")
		return id + "(" + strings.Join(as, ", ") + ")"
	case *ssa.Extract:
		return describeD(x.Tuple, d+1) + "#" + fmt.Sprint(x.Index)
	case *ssa.Phi:
		var as []string
		for _, e := range x.Edges {
			as = append(as, describeD(e, d+2))
		}
		sort.Strings(as)
		return "phi[" + strings.Join(as, "|") + "]"
	case *ssa.Convert:
		return describeD(x.X, d)
	case *ssa.ChangeType:
		return describeD(x.X, d)
	case *ssa.MakeInterface:
		return describeD(x.X, d)
	case *ssa.ChangeInterface:
		return describeD(x.X, d)
	case *ssa.Slice:
		s := describeD(x.X, d+1) + "["
		if x.Low != nil {
			s += describeD(x.Low, d+1)
		}
		s += ":"
		if x.High != nil {
			s += describeD(x.High, d+1)
		}
		return s + "]"
	case *ssa.Alloc:
		if x.Comment != "" {
			return "&" + x.Comment
		}
		return "alloc"
	case *ssa.IndexAddr:
		return "&" + describeD(x.X, d+1) + "[" + describeD(x.Index, d+1) + "]"
	case *ssa.Index:
		return describeD(x.X, d+1) + "[" + describeD(x.Index, d+1) + "]"
	case *ssa.Lookup:
		return describeD(x.X, d+1) + "[" + describeD(x.Index, d+1) + "]"
	case *ssa.TypeAssert:
		return describeD(x.X, d+1) + ".(" + types.TypeString(x.AssertedType, func(p *types.Package) string { return p.Name() }) + ")"
	case *ssa.MakeSlice:
		return "make([]," + describeD(x.Len, d+1) + ")"
	case *ssa.MakeClosure:
		return "closure:" + fnName(x.Fn.(*ssa.Function))
	case *ssa.Builtin:
		return x.Name()
	}
	return fmt.Sprintf("%T", v)
}

func constInt(v ssa.Value) (int64, bool) {
	c, ok := v.(*ssa.Const)
	if !ok || c.Value == nil {
		if cv, ok2 := v.(*ssa.Convert); ok2 {
			return constInt(cv.X)
		}
		return 0, false
	}
	if c.Value.Kind() != constant.Int {
		return 0, false
	}
	return c.Int64(), true
}

func isNilConst(v ssa.Value) bool {
	c, ok := v.(*ssa.Const)
	return ok && c.Value == nil
}

// ---------------------------------------------------------------- branches

// condEdge describes "the branch on cond leaves block b through successor
// index idx" (0 = true edge, 1 = false edge).
type condEdge struct {
	If  *ssa.If
	Idx int
}

// controllingEdges returns, for block b, the set of (if, edge) pairs such that
// b is reached only through that edge: computed as the chain of dominators
// whose terminating If has exactly one successor dominating b (and the other
// not reaching b without passing the dominated one). This is the simple
// structural notion of "b is inside the then/else branch of that if".
func controllingEdges(b *ssa.BasicBlock) []condEdge {
	var out []condEdge
	for d := b.Idom(); d != nil; d = d.Idom() {
		last := d.Instrs[len(d.Instrs)-1]
		iff, ok := last.(*ssa.If)
		if !ok {
			continue
		}
		t, f := d.Succs[0], d.Succs[1]
		td := t.Dominates(b) && onlyPred(t, d)
		fd := f.Dominates(b) && onlyPred(f, d)
		if td && !fd {
			out = append(out, condEdge{iff, 0})
		} else if fd && !td {
			out = append(out, condEdge{iff, 1})
		}
	}
	return out
}

func onlyPred(b, pred *ssa.BasicBlock) bool {
	return len(b.Preds) == 1 && b.Preds[0] == pred
}

// blockReach computes the set of blocks reachable from start when the edges
// in cut (block -> forbidden successor index) are removed.
func blockReach(start *ssa.BasicBlock, cut func(from *ssa.BasicBlock, succIdx int) bool) map[*ssa.BasicBlock]bool {
	seen := map[*ssa.BasicBlock]bool{start: true}
	work := []*ssa.BasicBlock{start}
	for len(work) > 0 {
		b := work[len(work)-1]
		work = work[:len(work)-1]
		for i, s := range b.Succs {
			if cut != nil && cut(b, i) {
				continue
			}
			if !seen[s] {
				seen[s] = true
				work = append(work, s)
			}
		}
	}
	return seen
}

func fmtT(v any) string   { return fmt.Sprintf("%T", v) }
func fmtInt(i int) string { return fmt.Sprint(i) }

// calleeName returns the (origin) name of the static callee of a call.
func calleeName(c ssa.CallInstruction) string {
	sc := c.Common().StaticCallee()
	if sc == nil {
		if c.Common().IsInvoke() {
			return c.Common().Method.Name()
		}
		return ""
	}
	if o := sc.Origin(); o != nil {
		return o.Name()
	}
	return sc.Name()
}

// retVal returns the value returned as result i of a Return instruction,
// looking through go/ssa's defer-spilled results (functions with defers store
// the result into an Alloc, run the defers and return a load of the Alloc).
func retVal(r *ssa.Return, i int) ssa.Value {
	if i >= len(r.Results) {
		return nil
	}
	v := r.Results[i]
	u, ok := v.(*ssa.UnOp)
	if !ok || u.Op != token.MUL {
		return v
	}
	a, ok := u.X.(*ssa.Alloc)
	if !ok {
		return v
	}
	// nearest preceding store to the alloc, searching this block backwards and
	// then unique predecessors.
	b := r.Block()
	idx := instrIndex(u)
	for depth := 0; depth < 6 && b != nil; depth++ {
		for j := idx - 1; j >= 0; j-- {
			if st, ok := b.Instrs[j].(*ssa.Store); ok && st.Addr == ssa.Value(a) {
				return st.Val
			}
		}
		if len(b.Preds) != 1 {
			break
		}
		b = b.Preds[0]
		idx = len(b.Instrs)
	}
	return v
}

// retIsNil: result i of the return is the nil constant (through spills).
func retIsNil(r *ssa.Return, i int) bool { return isNilConst(retVal(r, i)) }

// controlConds returns the branch edges block b is (transitively) control
// dependent on: an If at block a is included with successor index i when
// every path from a.Succs[i] to a function exit passes through b (or through
// a block already found to control b) while the other successor can avoid it.
// Unlike controllingEdges this sees through joins of short-circuit
// conditions (a || b, a && b).
func controlConds(fn *ssa.Function, b *ssa.BasicBlock) []condEdge {
	exits := func(x *ssa.BasicBlock) bool { return len(x.Succs) == 0 }
	// canAvoid: from start, reach an exit without entering target
	canAvoid := func(start, target *ssa.BasicBlock) bool {
		if start == target {
			return false
		}
		seen := map[*ssa.BasicBlock]bool{start: true}
		work := []*ssa.BasicBlock{start}
		for len(work) > 0 {
			x := work[len(work)-1]
			work = work[:len(work)-1]
			if exits(x) {
				return true
			}
			for _, s := range x.Succs {
				if s != target && !seen[s] {
					seen[s] = true
					work = append(work, s)
				}
			}
		}
		return false
	}
	reaches := func(start, target *ssa.BasicBlock) bool {
		if start == target {
			return true
		}
		return blockReach(start, nil)[target]
	}
	var out []condEdge
	seenEdge := map[condEdge]bool{}
	done := map[*ssa.BasicBlock]bool{}
	work := []*ssa.BasicBlock{b}
	for len(work) > 0 {
		t := work[len(work)-1]
		work = work[:len(work)-1]
		if done[t] {
			continue
		}
		done[t] = true
		for _, a := range fn.Blocks {
			if len(a.Succs) != 2 {
				continue
			}
			iff, ok := a.Instrs[len(a.Instrs)-1].(*ssa.If)
			if !ok {
				continue
			}
			m0 := reaches(a.Succs[0], t) && !canAvoid(a.Succs[0], t)
			m1 := reaches(a.Succs[1], t) && !canAvoid(a.Succs[1], t)
			if m0 == m1 {
				continue
			}
			idx := 0
			if m1 {
				idx = 1
			}
			ce := condEdge{iff, idx}
			if !seenEdge[ce] {
				seenEdge[ce] = true
				out = append(out, ce)
			}
			if a != t {
				work = append(work, a)
			}
		}
	}
	return out
}

// LeavesIP is Leaves with one refinement: a leaf that is a parameter of an
// unexported function all of whose callers are static call sites is replaced
// by the leaves of the corresponding argument at each call site (up to two
// levels). Moving a few statements into a local helper therefore does not
// hide where a value comes from.
func LeavesIP(p *Prog, fn *ssa.Function, v ssa.Value, depth int) []ssa.Value {
	var out []ssa.Value
	for _, l := range Leaves(v, nil) {
		prm, ok := l.(*ssa.Parameter)
		if !ok || depth >= 2 || fn == nil || fn.Object() == nil || fn.Object().Exported() {
			out = append(out, l)
			continue
		}
		idx := -1
		for i, q := range fn.Params {
			if q == prm {
				idx = i
			}
		}
		sites := p.CallsToFn(fn)
		if idx < 0 || len(sites) == 0 {
			out = append(out, l)
			continue
		}
		replaced := true
		var sub []ssa.Value
		for _, cs := range sites {
			args := cs.Instr.(ssa.CallInstruction).Common().Args
			if idx >= len(args) {
				replaced = false
				break
			}
			sub = append(sub, LeavesIP(p, cs.Fn, args[idx], depth+1)...)
		}
		if replaced {
			out = append(out, sub...)
		} else {
			out = append(out, l)
		}
	}
	return out
}

// anchorNames are the function names the rules refer to as owners of a role;
// ownerFn never lifts past them.
var anchorNames = map[string]bool{
	"input": true, "inputData": true, "inputAck": true, "inputClose": true, "closeWithError": true, "Close": true,
	"Read": true, "Write": true, "writeChunk": true, "output": true, "runOutputOnceStream": true, "runOutputOncePacket": true,
	"moveRecvBufToRecvQueue": true, "waitForRecvQueueSpace": true, "Unmarshal": true, "Marshal": true, "SetUsers": true,
	"onOpenSessionRequest": true, "onOpenSessionResponse": true, "RunEventLoop": true, "readOneSegment": true,
	"writeOneSegment": true, "maybeInitSendBlockCipher": true, "tryState": true, "tryUser": true, "discoverUser": true,
	"buildState": true, "IsDuplicate": true, "handleAuthentication": true, "FindAction": true, "newSessionWithServerUserPolicy": true,
	"SetDeadline": true, "SetReadDeadline": true, "SetWriteDeadline": true, "readSessionSegment": true, "readDataAckSegment": true,
	"parseSessionSegment": true, "parseDataAckSegment": true, "doRollUp": true, "isDestinationAllowed": true,
}

// ownerFn attributes a small unexported helper to the function it was
// extracted from: while fn is unexported, is not itself a role owner, and all
// its (non-test) static call sites lie in one function, that function takes
// its place. A who-may-write / who-may-call rule then judges "a helper of
// Session.input" as Session.input.
func ownerFn(p *Prog, fn *ssa.Function) *ssa.Function {
	fn = outermost(fn)
	for d := 0; d < 3; d++ {
		if fn.Object() == nil || fn.Object().Exported() || anchorNames[fn.Name()] {
			return fn
		}
		var callers []*ssa.Function
		seen := map[*ssa.Function]bool{}
		for _, cs := range p.CallsToFn(fn) {
			if strings.HasSuffix(strings.SplitN(p.Pos(cs.Pos()), ":", 2)[0], "_test.go") {
				continue
			}
			o := outermost(cs.Fn)
			if !seen[o] {
				seen[o] = true
				callers = append(callers, o)
			}
		}
		if len(callers) != 1 || callers[0] == fn {
			return fn
		}
		fn = callers[0]
	}
	return fn
}

func ownerName(p *Prog, fn *ssa.Function) string { return ownerFn(p, fn).Name() }

// cmpForm reports whether cond is equivalent to (A op B) for some operand A
// accepted by pa and B accepted by pb, whatever way it is written: operands
// swapped (b > a for a < b), negated (!(a >= b)), or both.
func cmpForm(cond ssa.Value, op token.Token, pa, pb func(ssa.Value) bool) bool {
	v, neg := condAtom(cond)
	bo, ok := v.(*ssa.BinOp)
	if !ok {
		return false
	}
	negate := map[token.Token]token.Token{token.LSS: token.GEQ, token.GEQ: token.LSS, token.GTR: token.LEQ, token.LEQ: token.GTR, token.EQL: token.NEQ, token.NEQ: token.EQL}
	swap := map[token.Token]token.Token{token.LSS: token.GTR, token.GTR: token.LSS, token.LEQ: token.GEQ, token.GEQ: token.LEQ, token.EQL: token.EQL, token.NEQ: token.NEQ}
	actual := bo.Op
	if _, known := negate[actual]; !known {
		return false
	}
	if neg {
		actual = negate[actual]
	}
	if pa == nil {
		pa = func(ssa.Value) bool { return true }
	}
	if pb == nil {
		pb = func(ssa.Value) bool { return true }
	}
	if actual == op && pa(bo.X) && pb(bo.Y) {
		return true
	}
	if swap[actual] == op && pa(bo.Y) && pb(bo.X) {
		return true
	}
	return false
}

// LeavesX extends LeavesIP in the other direction too: a leaf that is the
// result of a call to an unexported function of a product package is
// (or of a small exported function of a product package) is
// replaced by the leaves of what that function returns in that result
// position (non-nil-error returns only when the last result is an error),
// so "cipher := u.cipherForSend(seg)" is as transparent as the statements it
// was extracted from. Depth is bounded; anything not expandable stays a leaf.
func LeavesX(p *Prog, fn *ssa.Function, v ssa.Value, depth int) []ssa.Value {
	var out []ssa.Value
	for _, l := range LeavesIP(p, fn, v, depth) {
		var call *ssa.Call
		idx := 0
		switch x := l.(type) {
		case *ssa.Call:
			call = x
		case *ssa.Extract:
			if cl, ok := x.Tuple.(*ssa.Call); ok {
				call, idx = cl, x.Index
			}
		}
		if call == nil || depth >= 2 {
			out = append(out, l)
			continue
		}
		sc := call.Common().StaticCallee()
		if sc == nil || sc.Blocks == nil || sc.Object() == nil || sc.Pkg == nil || sc.Pkg.Pkg == nil || !inProduct(sc.Pkg.Pkg.Path()) || len(sc.Blocks) > 30 {
			out = append(out, l)
			continue
		}
		expanded := false
		instrs(sc, func(_ *ssa.BasicBlock, _ int, in ssa.Instruction) {
			r, ok := in.(*ssa.Return)
			if !ok || idx >= len(r.Results) {
				return
			}
			// skip returns that carry a non-nil error: their other results are not used
			last := len(r.Results) - 1
			if last != idx && types.Identical(sc.Signature.Results().At(last).Type(), types.Universe.Lookup("error").Type()) && !retIsNil(r, last) {
				if _, isK := retVal(r, last).(*ssa.Const); !isK {
					// possibly non-nil error: still include conservatively below
				}
			}
			expanded = true
			out = append(out, LeavesX(p, sc, retVal(r, idx), depth+1)...)
		})
		if !expanded {
			out = append(out, l)
		}
	}
	return out
}

// withHelpers returns fn followed by the unexported functions of the same
// package that it calls statically (transitively up to depth), i.e. the code
// a maintainer may have extracted from fn. Rules that ask "does fn do X"
// about straight-line facts (a comparison, a call) look at all of them.
func withHelpers(p *Prog, fn *ssa.Function, depth int) []*ssa.Function {
	out := []*ssa.Function{fn}
	seen := map[*ssa.Function]bool{fn: true}
	var visit func(f *ssa.Function, d int)
	visit = func(f *ssa.Function, d int) {
		if d >= depth {
			return
		}
		instrs(f, func(_ *ssa.BasicBlock, _ int, in ssa.Instruction) {
			var sc *ssa.Function
			switch x := in.(type) {
			case ssa.CallInstruction:
				sc = x.Common().StaticCallee()
			case *ssa.MakeClosure:
				// a method value used as a callback (`m.Range(scan.visit)`):
				// go/ssa wraps it in a synthetic $bound function
				if w, ok := x.Fn.(*ssa.Function); ok && w.Synthetic != "" && len(w.Blocks) > 0 {
					instrs(w, func(_ *ssa.BasicBlock, _ int, y ssa.Instruction) {
						if cl, ok := y.(ssa.CallInstruction); ok && cl.Common().StaticCallee() != nil {
							sc = cl.Common().StaticCallee()
						}
					})
				}
			}
			if sc == nil || sc.Blocks == nil || seen[sc] || sc.Object() == nil || sc.Object().Exported() || pkgOfFn(sc) != pkgOfFn(fn) || anchorNames[sc.Name()] {
				return
			}
			seen[sc] = true
			out = append(out, sc)
			visit(sc, d+1)
		})
		for _, a := range f.AnonFuncs {
			if !seen[a] {
				seen[a] = true
				out = append(out, a)
				visit(a, d+1)
			}
		}
	}
	visit(fn, 0)
	return out
}

// helperResultLeaves: if l is (an Extract of) a call to an unexported,
// non-role function of a product package, the leaves of what that function
// returns in that position; otherwise l itself. Narrower than LeavesX: it
// expands one extracted helper and nothing else.
func helperResultLeaves(p *Prog, l ssa.Value) []ssa.Value {
	var call *ssa.Call
	idx := 0
	switch x := l.(type) {
	case *ssa.Call:
		call = x
	case *ssa.Extract:
		if cl, ok := x.Tuple.(*ssa.Call); ok {
			call, idx = cl, x.Index
		}
	}
	if call == nil {
		return []ssa.Value{l}
	}
	sc := call.Common().StaticCallee()
	if sc == nil || sc.Blocks == nil || sc.Object() == nil || sc.Object().Exported() || anchorNames[sc.Name()] || sc.Pkg == nil || sc.Pkg.Pkg == nil || !inProduct(sc.Pkg.Pkg.Path()) || len(sc.Blocks) > 30 {
		return []ssa.Value{l}
	}
	var out []ssa.Value
	instrs(sc, func(_ *ssa.BasicBlock, _ int, in ssa.Instruction) {
		if r, ok := in.(*ssa.Return); ok && idx < len(r.Results) {
			out = append(out, Leaves(retVal(r, idx), nil)...)
		}
	})
	if len(out) == 0 {
		return []ssa.Value{l}
	}
	return out
}

// isZero: the integer constant 0.
func isZero(v ssa.Value) bool {
	k, ok := constInt(v)
	return ok && k == 0
}

// callChain: the call instructions leading from `from` down to `to` when
// every level has exactly one static call site of the next function (a
// function split into stages); empty when from == to.
func callChain(p *Prog, from, to *ssa.Function, depth int) ([]ssa.Instruction, bool) {
	if from == to {
		return nil, true
	}
	if depth == 0 {
		return nil, false
	}
	sites := p.CallsToFn(to)
	if len(sites) != 1 {
		return nil, false
	}
	up, ok := callChain(p, from, sites[0].Fn, depth-1)
	if !ok {
		return nil, false
	}
	return append(up, sites[0].Instr), true
}

// selectCaseChan: when e is the edge taken because a select chose one of its
// cases (go/ssa lowers `case <-ch:` to `if index == k`), the struct field the
// channel of that case is read from.
func selectCaseChan(e condEdge) *types.Var {
	if e.Idx != 0 {
		return nil
	}
	bo, ok := e.If.Cond.(*ssa.BinOp)
	if !ok || bo.Op != token.EQL {
		return nil
	}
	ex, ok := bo.X.(*ssa.Extract)
	if !ok || ex.Index != 0 {
		return nil
	}
	sel, ok := ex.Tuple.(*ssa.Select)
	if !ok {
		return nil
	}
	idx, isK := constInt(bo.Y)
	if !isK || int(idx) >= len(sel.States) || idx < 0 {
		return nil
	}
	return fieldOrigin(sel.States[idx].Chan)
}

// pollHelperTrueOn: call invokes a function, method or closure whose whole
// body is one non-blocking select, and which returns true exactly when the
// case of the channel field called name was taken (`isClosed()`).
func pollHelperTrueOn(call *ssa.Call, name string) bool {
	sc := call.Common().StaticCallee()
	if sc == nil || sc.Blocks == nil || len(sc.Blocks) > 8 || sc.Signature.Results().Len() != 1 {
		return false
	}
	nsel, other := 0, false
	instrs(sc, func(_ *ssa.BasicBlock, _ int, y ssa.Instruction) {
		switch z := y.(type) {
		case *ssa.Select:
			nsel++
			if z.Blocking {
				other = true
			}
		case *ssa.Call, *ssa.Go, *ssa.Send, *ssa.Store:
			other = true
		}
	})
	if nsel != 1 || other {
		return false
	}
	sawTrue := false
	ok := true
	instrs(sc, func(b *ssa.BasicBlock, _ int, y ssa.Instruction) {
		r, isRet := y.(*ssa.Return)
		if !isRet {
			return
		}
		k, isK := retVal(r, 0).(*ssa.Const)
		if !isK || k.Value == nil {
			ok = false
			return
		}
		onCase := false
		for _, e := range controllingEdges(b) {
			if f := selectCaseChan(e); f != nil && f.Name() == name {
				onCase = true
			}
		}
		if k.Value.String() == "true" {
			sawTrue = true
			if !onCase {
				ok = false
			}
		} else if onCase {
			ok = false
		}
	})
	return ok && sawTrue
}

// pkgOfFn: the package a function belongs to; instances of generic functions
// have no Pkg of their own and belong to their origin's.
func pkgOfFn(fn *ssa.Function) *ssa.Package {
	if fn.Pkg != nil {
		return fn.Pkg
	}
	if o := fn.Origin(); o != nil {
		return o.Pkg
	}
	if fn.Parent() != nil {
		return pkgOfFn(fn.Parent())
	}
	return nil
}
