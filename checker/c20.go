package main

import (
	"go/constant"
	"go/token"
	"go/types"
	"sort"
	"strings"

	"golang.org/x/tools/go/ssa"
)

func init() { register("C20", propC20) }

const appctlPkg = "pkg/appctl"

func propC20() *Property {
	return &Property{
		ID:         "C20",
		Decides:    "R20.1 the two merge functions are exhaustive over the generated configuration messages (a field added to the .proto and not to the merge is reported by name) and every merged field is selected by a nil test of the same field of the patch and fed from the same field of patch/stored config; R20.2 the share-link writer and reader use the same query keys, scheme strings and base64 alphabet, and user name / password are taken from the parsed URL as they are (no second unescaping); R20.3 the stored server file never holds a plaintext password: the only write of the server config file is in StoreServerConfig, dominated by HashUserPasswords(users, false) whose result is what gets marshalled, and HashUserPassword with keepPlaintext=false has no feasible return that keeps a non-empty Password; R20.4 a patch is merged into the loaded/fetched configuration and fully validated before it is stored — for the local apply functions and for the CLI's RPC path; R20.5 string slicing with a constant bound in the link parsers is guarded by a length/prefix test; R20.6 each store function writes the file once with the complete marshalled message.; R20.7 the traffic-pattern validator and the cipher (which panics on a decode failure) hand the same string - the configured element itself, with no normalisation on one side only - to hex.DecodeString, so a validated configuration cannot crash the process at its first encryption",
		NotDecided: "round-trip equality for every field content (URL escaping, base64 of arbitrary strings, JSON/protobuf equivalence are library behaviour); start-up of a stored configuration; run-time panics beyond the constant-bound slice pattern.",
		Rules: []Rule{
			{ID: "R20.1", Floor: 16, Text: "mergeServerConfig / mergeClientConfigByProfile assign every exported field of the message after proto.Reset, each from the same-named field", Run: r20_1},
			{ID: "R20.2", Floor: 10, Text: "share links: key sets, schemes, alphabet, credentials taken verbatim", Run: r20_2},
			{ID: "R20.3", Floor: 3, Text: "server config writes hash and clear passwords", Run: r20_3},
			{ID: "R20.4", Floor: 4, Text: "patch -> load/fetch -> merge -> validate full -> store", Run: r20_4},
			{ID: "R20.5", Floor: 1, Text: "constant-bound string slices in pkg/appctl are dominated by a length or prefix test covering the bound", Run: r20_5},
			{ID: "R20.8", Floor: 2, Text: "the configuration file's format is decided the same way on every call: a format taken from the file name suffix is returned only after the environment variables that force a format were looked up and not found (load and store of one run agree on the format)", Run: r20_8},
			{ID: "R20.7", Floor: 2, Text: "validator and consumer of the custom nonce prefixes decode the same string", Run: r20_7},
			{ID: "R20.6", Floor: 2, Text: "exactly one os.WriteFile of the marshalled message per store function", Run: r20_6},
		},
	}
}

func exportedFields(t types.Type) []*types.Var {
	if pt, ok := t.(*types.Pointer); ok {
		t = pt.Elem()
	}
	st, ok := t.Underlying().(*types.Struct)
	if !ok {
		return nil
	}
	var out []*types.Var
	for i := 0; i < st.NumFields(); i++ {
		if st.Field(i).Exported() {
			out = append(out, st.Field(i))
		}
	}
	return out
}

func r20_1(c *RC) {
	p := c.P
	for _, fname := range []string{"mergeServerConfig", "mergeClientConfigByProfile"} {
		fn := p.Fn(appctlPkg, fname)
		if fn == nil {
			c.Anchor("appctl." + fname)
			continue
		}
		dst, src := fn.Params[0], fn.Params[1]
		var reset ssa.Instruction
		instrs(fn, func(_ *ssa.BasicBlock, _ int, in ssa.Instruction) {
			if cl, ok := in.(*ssa.Call); ok && strings.HasSuffix(calleeID(cl), "proto.Reset") {
				reset = in
			}
		})
		for _, f := range exportedFields(dst.Type()) {
			key := "merge-field:" + fname + "." + f.Name()
			var st *ssa.Store
			instrs(fn, func(_ *ssa.BasicBlock, _ int, in ssa.Instruction) {
				if s, ok := in.(*ssa.Store); ok {
					if fv, base := fieldOfAddr(s.Addr); sameField(fv, f) && base == ssa.Value(dst) {
						st = s
					}
				}
			})
			if st == nil {
				c.Bad(key, fn.Pos(), "%s does not assign %s: applying any patch silently drops this setting from the stored configuration", fname, f.Name())
				continue
			}
			if reset != nil && !instrDominates(reset, st) {
				c.Bad(key, st.Pos(), "%s is assigned before proto.Reset(dst) and is erased by it", f.Name())
				continue
			}
			// provenance: same field of src / dst
			var wrong []string
			nsrc, ndst := 0, 0
			for _, l := range Leaves(st.Val, func(v ssa.Value) bool { _, ok := v.(*ssa.Call); return ok }) {
				name, owner := "", ssa.Value(nil)
				switch x := l.(type) {
				case *ssa.Call:
					n := calleeNameAny(x)
					if strings.HasPrefix(n, "Get") && len(x.Common().Args) == 1 {
						name, owner = strings.TrimPrefix(n, "Get"), x.Common().Args[0]
					} else if strings.HasSuffix(calleeID(x), "proto.String") || strings.HasSuffix(calleeID(x), "proto.Int32") {
						for _, l2 := range Leaves(x.Common().Args[0], func(v ssa.Value) bool { _, ok := v.(*ssa.Call); return ok }) {
							if c2, ok := l2.(*ssa.Call); ok && strings.HasPrefix(calleeNameAny(c2), "Get") {
								if strings.TrimPrefix(calleeNameAny(c2), "Get") != f.Name() {
									wrong = append(wrong, calleeNameAny(c2))
								}
								if c2.Common().Args[0] == ssa.Value(src) {
									nsrc++
								} else if c2.Common().Args[0] == ssa.Value(dst) {
									ndst++
								}
							}
						}
						continue
					} else {
						continue // make/append of merged lists
					}
				case *ssa.UnOp:
					if fa, ok := x.X.(*ssa.FieldAddr); ok {
						fv, base := fieldOfAddr(fa)
						name, owner = fv.Name(), base
					}
				case *ssa.Alloc:
					// &loggingLevel style local: look at its stores
					for _, sv := range allocStores(x) {
						for _, l2 := range Leaves(sv, func(v ssa.Value) bool { _, ok := v.(*ssa.Call); return ok }) {
							if c2, ok := l2.(*ssa.Call); ok && strings.HasPrefix(calleeNameAny(c2), "Get") {
								if strings.TrimPrefix(calleeNameAny(c2), "Get") != f.Name() {
									wrong = append(wrong, calleeNameAny(c2))
								}
								if c2.Common().Args[0] == ssa.Value(src) {
									nsrc++
								} else if c2.Common().Args[0] == ssa.Value(dst) {
									ndst++
								}
							}
						}
					}
					continue
				}
				if name == "" {
					continue
				}
				if name != f.Name() {
					wrong = append(wrong, name)
				}
				if owner == ssa.Value(src) {
					nsrc++
				} else if owner == ssa.Value(dst) {
					ndst++
				}
			}
			list := strings.HasPrefix(f.Type().String(), "[]") && (f.Name() == "Users" || f.Name() == "Profiles")
			switch {
			case len(wrong) > 0:
				c.Bad(key, st.Pos(), "%s is filled from %v: a patch changes a setting it did not set", f.Name(), wrong)
			case !list && (nsrc == 0 || ndst == 0):
				c.Bad(key, st.Pos(), "%s is not chosen between the patch's and the stored value (patch sources %d, stored sources %d): either the patch cannot change it or applying a patch that does not set it erases it", f.Name(), nsrc, ndst)
			default:
				// nil test of the same field of src guards the choice
				guard := list
				instrs(fn, func(_ *ssa.BasicBlock, _ int, in ssa.Instruction) {
					if iff, ok := in.(*ssa.If); ok {
						if bo, ok := iff.Cond.(*ssa.BinOp); ok && (bo.Op == token.NEQ || bo.Op == token.EQL) && (isNilConst(bo.Y) || isNilConst(bo.X)) {
							x := bo.X
							if isNilConst(x) {
								x = bo.Y
							}
							if u, ok := x.(*ssa.UnOp); ok {
								if fa, ok := u.X.(*ssa.FieldAddr); ok {
									if fv, base := fieldOfAddr(fa); sameField(fv, f) && base == ssa.Value(src) {
										guard = true
									}
								}
							}
						}
					}
				})
				if guard {
					c.OKH(key, st.Pos(), "assigned after Reset from the same field of patch/stored config, chosen by `patch.%s != nil`", f.Name())
				} else {
					c.Bad(key, st.Pos(), "the choice for %s is not made by testing whether the patch sets %s", f.Name(), f.Name())
				}
			}
		}
	}
}

func constStringArgs(p *Prog, fn *ssa.Function, calleeSuffix string, argIdx int) []string {
	set := map[string]bool{}
	instrs(fn, func(_ *ssa.BasicBlock, _ int, in ssa.Instruction) {
		cl, ok := in.(ssa.CallInstruction)
		if !ok || !strings.HasSuffix(calleeID(cl), calleeSuffix) {
			return
		}
		if k, ok := cl.Common().Args[argIdx].(*ssa.Const); ok && k.Value != nil && k.Value.Kind() == constant.String {
			set[constant.StringVal(k.Value)] = true
		}
	})
	var out []string
	for k := range set {
		out = append(out, k)
	}
	sort.Strings(out)
	return out
}

func r20_2(c *RC) {
	p := c.P
	wr := p.Fn(appctlPkg, "ClientProfileToMultiURLs")
	rd := p.Fn(appctlPkg, "URLToClientProfile")
	if wr == nil || rd == nil {
		c.Anchor("appctl.ClientProfileToMultiURLs / URLToClientProfile")
		return
	}
	// (either side may delegate part of the query handling to helpers)
	var wk, rk []string
	for _, f := range withHelpers(p, wr, 2) {
		wk = append(wk, constStringArgs(p, f, "net/url.Values).Add", 1)...)
	}
	for _, f := range withHelpers(p, rd, 2) {
		rk = append(rk, constStringArgs(p, f, "net/url.Values).Get", 1)...)
		// q["port"] style lookups
		instrs(f, func(_ *ssa.BasicBlock, _ int, in ssa.Instruction) {
			if lk, ok := in.(*ssa.Lookup); ok {
				if k, ok := lk.Index.(*ssa.Const); ok && k.Value != nil && k.Value.Kind() == constant.String && strings.HasSuffix(lk.X.Type().String(), "url.Values") {
					rk = append(rk, constant.StringVal(k.Value))
				}
			}
		})
	}
	sort.Strings(wk)
	wk = uniq(wk)
	sort.Strings(rk)
	rk = uniq(rk)
	doc := []string{"handshake-mode", "mtu", "multiplexing", "port", "profile", "protocol", "traffic-pattern"}
	for _, k := range uniq(append(append([]string{}, wk...), append(rk, doc...)...)) {
		inW, inR, inD := has(wk, k), has(rk, k), has(doc, k)
		key := "link-key:" + k
		switch {
		case inW && inR && inD:
			c.OK(key, wr.Pos(), "written, read and documented")
		case inW && !inR:
			c.Bad(key, rd.Pos(), "share-link key %q is exported but never imported: the setting is lost on export-then-import", k)
		case !inW && inR:
			c.Bad(key, wr.Pos(), "share-link key %q is imported but never exported", k)
		default:
			c.Bad(key, wr.Pos(), "share-link key %q: written=%v read=%v documented=%v", k, inW, inR, inD)
		}
	}
	// schemes
	schemeOK := func(fn *ssa.Function, want string) bool {
		found := false
		instrs(fn, func(_ *ssa.BasicBlock, _ int, in ssa.Instruction) {
			for _, op := range in.Operands(nil) {
				if k, ok := (*op).(*ssa.Const); ok && k.Value != nil && k.Value.Kind() == constant.String && constant.StringVal(k.Value) == want {
					found = true
				}
			}
		})
		return found
	}
	for _, pr := range []struct {
		w, r, s string
	}{{"ClientProfileToMultiURLs", "URLToClientProfile", "mierus"}, {"ClientConfigToURL", "URLToClientConfig", "mieru"}} {
		w, r := p.Fn(appctlPkg, pr.w), p.Fn(appctlPkg, pr.r)
		if w == nil || r == nil {
			c.Anchor("appctl." + pr.w + "/" + pr.r)
			continue
		}
		wOK := schemeOK(w, pr.s) || schemeOK(w, pr.s+"://")
		rOK := schemeOK(r, pr.s)
		if wOK && rOK {
			c.OK("scheme:"+pr.s, w.Pos(), "writer and reader use scheme %q", pr.s)
		} else {
			c.Bad("scheme:"+pr.s, w.Pos(), "scheme %q: writer uses it=%v, reader checks it=%v", pr.s, wOK, rOK)
		}
		// base64 alphabet
		enc := func(fn *ssa.Function) string {
			out := ""
			instrs(fn, func(_ *ssa.BasicBlock, _ int, in ssa.Instruction) {
				if cl, ok := in.(*ssa.Call); ok {
					id := calleeID(cl)
					if strings.HasSuffix(id, "base64.Encoding).EncodeToString") || strings.HasSuffix(id, "base64.Encoding).DecodeString") {
						for _, l := range Leaves(cl.Common().Args[0], nil) {
							if u, ok := l.(*ssa.UnOp); ok {
								if g, ok := u.X.(*ssa.Global); ok {
									out = g.Name()
								}
							}
						}
					}
				}
			})
			return out
		}
		if ew, er := enc(w), enc(r); ew != "" && ew == er {
			c.OK("alphabet:"+pr.s, w.Pos(), "both sides use base64.%s", ew)
		} else if ew != "" || er != "" {
			c.Bad("alphabet:"+pr.s, w.Pos(), "base64 alphabets differ: writer %q reader %q", ew, er)
		}
	}
	// credentials verbatim
	for _, fld := range []string{"Name", "Password"} {
		f := p.Field("pkg/appctl/appctlpb", "User", fld)
		for _, s := range p.FieldStores(f) {
			if s.Fn != rd {
				continue
			}
			key := "credential-verbatim:" + fld
			good := false
			bad := ""
			if call, ok := s.Val.(*ssa.Call); ok && strings.HasSuffix(calleeID(call), "proto.String") {
				for _, l := range Leaves(call.Common().Args[0], nil) {
					switch x := l.(type) {
					case *ssa.Call:
						n := calleeName(x)
						if n == "Username" {
							good = true
						} else {
							bad = n
						}
					case *ssa.Extract:
						if cl, ok := x.Tuple.(*ssa.Call); ok {
							if calleeName(cl) == "Password" {
								good = true
							} else {
								bad = calleeName(cl)
							}
						}
					}
				}
			}
			if good && bad == "" {
				c.OKH(key, s.Pos(), "User.%s is what net/url already decoded", fld)
			} else {
				c.Bad(key, s.Pos(), "User.%s is passed through %s after net/url decoded it: a literal %% in a user name or password is decoded twice, so export-then-import does not return the same credential (or fails)", fld, bad)
			}
		}
	}
}

func uniq(ss []string) []string {
	sort.Strings(ss)
	var out []string
	for i, s := range ss {
		if i == 0 || s != ss[i-1] {
			out = append(out, s)
		}
	}
	return out
}

func has(ss []string, k string) bool {
	for _, s := range ss {
		if s == k {
			return true
		}
	}
	return false
}

func r20_3(c *RC) {
	p := c.P
	// every os.WriteFile in pkg/appctl
	for _, fn := range p.Funcs(appctlPkg) {
		instrs(fn, func(_ *ssa.BasicBlock, _ int, in ssa.Instruction) {
			call, ok := in.(*ssa.Call)
			if !ok || calleeID(call) != "os.WriteFile" {
				return
			}
			server := false
			for _, l := range Leaves(call.Common().Args[0], nil) {
				if ex, ok := l.(*ssa.Extract); ok {
					if cl, ok := ex.Tuple.(*ssa.Call); ok && calleeName(cl) == "serverConfigFilePath" {
						server = true
					}
				}
			}
			if !server {
				return
			}
			key := "server-file-write@" + fnName(fn)
			if fn.Name() != "StoreServerConfig" {
				c.Bad(key, call.Pos(), "the server configuration file is written outside StoreServerConfig: the password hashing step is bypassed")
				return
			}
			// HashUserPasswords(config.GetUsers(), false) stored back to config.Users dominates
			var hp *ssa.Call
			instrs(fn, func(_ *ssa.BasicBlock, _ int, x ssa.Instruction) {
				if cl, ok := x.(*ssa.Call); ok && calleeName(cl) == "HashUserPasswords" && instrDominates(x, in) {
					hp = cl
				}
			})
			if hp == nil {
				// the helper written out: a complete loop over config.GetUsers()
				// that hashes every element in place, before the write
				if why := hashLoopBeforeWrite(fn, in); why != "" {
					c.Bad(key, call.Pos(), "StoreServerConfig writes the file without HashUserPasswords on every path (%s)", why)
					return
				}
			}
			inPlace := hp == nil
			if inPlace {
				// hashed in place: nothing to store back; what is marshalled is checked below
			} else if k, ok := hp.Common().Args[1].(*ssa.Const); !ok || k.Value.String() != "false" {
				c.Bad(key, hp.Pos(), "HashUserPasswords is asked to keep the plaintext (keepPlaintext=%s)", describe(hp.Common().Args[1]))
				return
			}
			storedBack := inPlace
			for _, r := range hpReferrers(hp) {
				if st, ok := r.(*ssa.Store); ok {
					if f, base := fieldOfAddr(st.Addr); f != nil && f.Name() == "Users" && base == ssa.Value(fn.Params[0]) {
						storedBack = true
					}
				}
			}
			// marshalled value is the same config
			sameCfg := false
			// (the encoder may sit in a helper taking the config)
			for _, l := range LeavesX(p, fn, call.Common().Args[1], 0) {
				if ex, ok := l.(*ssa.Extract); ok {
					if cl, ok := ex.Tuple.(*ssa.Call); ok && (strings.HasSuffix(calleeID(cl), "proto.Marshal") || calleeName(cl) == "MarshalJSON") {
						for _, l2 := range LeavesIP(p, cl.Parent(), cl.Common().Args[0], 0) {
							if l2 == ssa.Value(fn.Params[0]) {
								sameCfg = true
							}
						}
					}
				}
			}
			if storedBack && sameCfg {
				c.OKH(key, call.Pos(), "config.Users = HashUserPasswords(config.GetUsers(), false) dominates the write of the marshalled config")
			} else {
				c.Bad(key, call.Pos(), "the hashed users are not what is written (result stored back=%v, same message marshalled=%v)", storedBack, sameCfg)
			}
		})
	}
	// HashUserPassword clears
	hu := p.Fn("pkg/appctl/appctlcommon", "HashUserPassword")
	if hu == nil {
		c.Anchor("appctlcommon.HashUserPassword")
		return
	}
	pw := p.Field("pkg/appctl/appctlpb", "User", "Password")
	atom := func(cond ssa.Value) (string, int, bool) {
		v, neg := condAtom(cond)
		ti := 0
		if neg {
			ti = 1
		}
		switch x := v.(type) {
		case *ssa.Parameter:
			if x.Name() == "keepPlaintext" {
				return "keepPlaintext", ti, true
			}
		case *ssa.BinOp:
			if x.Op == token.EQL || x.Op == token.NEQ {
				if isNilConst(x.Y) || isNilConst(x.X) {
					if x.X == ssa.Value(hu.Params[0]) || x.Y == ssa.Value(hu.Params[0]) {
						if x.Op == token.EQL {
							return "user-nil", ti, true
						}
						return "user-nil", 1 - ti, true
					}
				}
				if k, ok := x.Y.(*ssa.Const); ok && k.Value != nil && k.Value.Kind() == constant.String && constant.StringVal(k.Value) == "" {
					if cl, ok := x.X.(*ssa.Call); ok && calleeName(cl) == "GetPassword" {
						if x.Op == token.EQL {
							return "password-empty", ti, true
						}
						return "password-empty", 1 - ti, true
					}
				}
			}
		}
		return "", 0, false
	}
	ex := &Explorer{Fn: hu, Atom: atom, Assume: map[string]bool{"keepPlaintext": false, "user-nil": false, "password-empty": false},
		Avoid: func(in ssa.Instruction) bool {
			st, ok := in.(*ssa.Store)
			if !ok {
				return false
			}
			f, _ := fieldOfAddr(st.Addr)
			return sameField(f, pw)
		}}
	hit := ex.Reach(nil, isReturn)
	if hit != nil {
		c.Bad("clear-plaintext@HashUserPassword", hit.Pos(), "HashUserPassword(user with a non-empty password, keepPlaintext=false) can return without overwriting Password: the plaintext reaches the stored server configuration")
	} else {
		c.OKH("clear-plaintext@HashUserPassword", hu.Pos(), "non-nil user, non-empty password, keepPlaintext=false: every return is preceded by a store to Password (%d path states)", ex.States)
	}
	// and the hash is (re)computed on that path too
	hashed := p.Field("pkg/appctl/appctlpb", "User", "HashedPassword")
	ex2 := &Explorer{Fn: hu, Atom: atom, Assume: map[string]bool{"user-nil": false, "password-empty": false},
		Avoid: func(in ssa.Instruction) bool {
			st, ok := in.(*ssa.Store)
			if !ok {
				return false
			}
			f, _ := fieldOfAddr(st.Addr)
			return sameField(f, hashed)
		}}
	if hit2 := ex2.Reach(nil, isReturn); hit2 != nil {
		c.Bad("rehash@HashUserPassword", hit2.Pos(), "a user that carries a (new) plaintext password can pass through HashUserPassword without HashedPassword being recomputed: a password change is not applied")
	} else {
		c.OKH("rehash@HashUserPassword", hu.Pos(), "a non-empty password always leads to HashedPassword being set")
	}
}

func r20_4(c *RC) {
	p := c.P
	// local apply functions: find functions in pkg/appctl that unmarshal user text into a message and (transitively through one helper) store
	for _, st := range []struct{ store, load, merge, full string }{
		{"StoreServerConfig", "LoadServerConfig", "mergeServerConfig", "ValidateFullServerConfig"},
		{"StoreClientConfig", "LoadClientConfig", "mergeClientConfigByProfile", "ValidateFullClientConfig"},
	} {
		sf := p.Fn(appctlPkg, st.store)
		if sf == nil {
			c.Anchor("appctl." + st.store)
			continue
		}
		for _, cs := range p.CallsToFn(sf) {
			key := "store-call:" + st.store + "@" + fnName(cs.Fn)
			arg := cs.Instr.(ssa.CallInstruction).Common().Args[0]
			origin := ""
			for _, l := range Leaves(arg, nil) {
				switch x := l.(type) {
				case *ssa.Extract:
					if cl, ok := x.Tuple.(*ssa.Call); ok {
						origin = calleeName(cl)
					}
				case *ssa.Parameter:
					origin = "param:" + x.Name()
				case *ssa.Alloc:
					origin = "literal"
				}
			}
			dominated := func(name string) bool {
				ok := false
				instrs(cs.Fn, func(_ *ssa.BasicBlock, _ int, in ssa.Instruction) {
					if cl, isCall := in.(ssa.CallInstruction); isCall && calleeName(cl) == name && instrDominates(in, cs.Instr) {
						// the stored value must be an argument of that call
						for _, a := range cl.Common().Args {
							if a == arg {
								ok = true
							}
						}
					}
				})
				return ok
			}
			usesPatch := false
			instrs(cs.Fn, func(_ *ssa.BasicBlock, _ int, in ssa.Instruction) {
				if cl, ok := in.(ssa.CallInstruction); ok {
					n := calleeName(cl)
					if n == "UnmarshalJSON" || strings.HasPrefix(n, "Validate") && strings.HasSuffix(n, "ConfigPatch") {
						usesPatch = true
					}
				}
			})
			switch {
			case origin == st.load && usesPatch:
				if dominated(st.merge) && dominated(st.full) {
					c.OKH(key, cs.Pos(), "stores the loaded configuration after %s and %s", st.merge, st.full)
				} else {
					c.Bad(key, cs.Pos(), "a patch is applied but the stored message was not both merged (%v) and fully validated (%v)", dominated(st.merge), dominated(st.full))
				}
			case origin == st.load:
				c.OK(key, cs.Pos(), "stores the loaded configuration (edit of the stored configuration, no patch)")
			case origin == "literal" && emptyLiteral(arg) && underFileNotExist(cs.Instr):
				c.OK(key, cs.Pos(), "creates an empty configuration file when none exists (under err == ErrFileNotExist)")
			case strings.HasPrefix(origin, "param:") && cs.Fn.Name() == "SetConfig":
				c.OK(key, cs.Pos(), "RPC handler with replace semantics; its callers are checked below")
			default:
				c.Bad(key, cs.Pos(), "%s stores a message of origin %q that is not the loaded configuration: a patch would replace the whole stored configuration", fnName(cs.Fn), origin)
			}
		}
	}
	// CLI: SetConfig invocations
	n := 0
	for _, fn := range p.Funcs("pkg/cli") {
		instrs(fn, func(_ *ssa.BasicBlock, _ int, in ssa.Instruction) {
			call, ok := in.(*ssa.Call)
			if !ok || !call.Common().IsInvoke() || call.Common().Method.Name() != "SetConfig" {
				return
			}
			n++
			key := "rpc-setconfig@" + fnName(fn)
			arg := call.Common().Args[1]
			// is the argument the message user text was unmarshalled into?
			isPatch := false
			fromGet := false
			instrs(fn, func(_ *ssa.BasicBlock, _ int, x ssa.Instruction) {
				if cl, ok := x.(ssa.CallInstruction); ok && calleeName(cl) == "UnmarshalJSON" {
					for _, a := range cl.Common().Args {
						for _, l := range Leaves(a, nil) {
							for _, l2 := range Leaves(arg, nil) {
								if l == l2 {
									isPatch = true
								}
							}
						}
					}
				}
			})
			for _, l := range Leaves(arg, nil) {
				if ex, ok := l.(*ssa.Extract); ok {
					if cl, ok := ex.Tuple.(*ssa.Call); ok && cl.Common().IsInvoke() && cl.Common().Method.Name() == "GetConfig" {
						fromGet = true
					}
				}
			}
			merged, validated := false, false
			instrs(fn, func(_ *ssa.BasicBlock, _ int, x ssa.Instruction) {
				if cl, ok := x.(ssa.CallInstruction); ok && instrDominates(x, in) {
					switch calleeName(cl) {
					case "MergeServerConfig":
						merged = true
					case "ValidateFullServerConfig":
						validated = true
					}
				}
			})
			switch {
			case isPatch:
				c.Bad(key, call.Pos(), "the CLI sends the user's patch itself to the SetConfig RPC, whose handler stores its argument as the whole configuration: everything the patch does not set is erased")
			case fromGet && merged && validated:
				c.OKH(key, call.Pos(), "sends the configuration fetched with GetConfig after MergeServerConfig and ValidateFullServerConfig")
			case fromGet:
				c.OK(key, call.Pos(), "sends an edited copy of the configuration fetched with GetConfig")
			default:
				c.Bad(key, call.Pos(), "SetConfig argument %s is neither the fetched configuration nor a merge result", describe(arg))
			}
		})
	}
	if n == 0 {
		c.OK("rpc-setconfig", 0, "the CLI does not call SetConfig")
	}
}

func r20_5(c *RC) {
	p := c.P
	for _, fn := range p.Funcs(appctlPkg) {
		if relPkg(fn) != appctlPkg {
			continue
		}
		instrs(fn, func(_ *ssa.BasicBlock, _ int, in ssa.Instruction) {
			sl, ok := in.(*ssa.Slice)
			if !ok {
				return
			}
			if b, isB := sl.X.Type().Underlying().(*types.Basic); !isB || b.Kind() != types.String {
				return
			}
			bound := int64(-1)
			for _, v := range []ssa.Value{sl.Low, sl.High} {
				if v == nil {
					continue
				}
				if k, ok := constInt(v); ok && k > bound {
					bound = k
				}
			}
			if bound <= 0 {
				return
			}
			key := "const-slice@" + fnName(fn)
			guard := false
			instrs(fn, func(_ *ssa.BasicBlock, _ int, x ssa.Instruction) {
				iff, ok := x.(*ssa.If)
				if !ok || !instrDominates(x, in) {
					return
				}
				// conditions whose true edge leaves (returns) when the string is too short
				var conds []ssa.Value
				conds = append(conds, iff.Cond)
				for _, cond := range conds {
					v, _ := condAtom(cond)
					if bo, ok := v.(*ssa.BinOp); ok && (bo.Op == token.LSS || bo.Op == token.GEQ || bo.Op == token.LEQ || bo.Op == token.GTR) {
						if cl, ok := bo.X.(*ssa.Call); ok && calleeNameAny(cl) == "len" && cl.Common().Args[0] == sl.X {
							if k, ok := constInt(bo.Y); ok && k >= bound {
								guard = true
							}
						}
					}
					if cl, ok := v.(*ssa.Call); ok && calleeID(cl) == "strings.HasPrefix" && cl.Common().Args[0] == sl.X {
						if k, ok := cl.Common().Args[1].(*ssa.Const); ok && int64(len(constant.StringVal(k.Value))) >= bound {
							guard = true
						}
					}
				}
			})
			if guard {
				c.OKH(key, sl.Pos(), "s[%d:]-style slice is dominated by a length/prefix test covering %d bytes", bound, bound)
			} else {
				c.Bad(key, sl.Pos(), "%s slices a string at constant offset %d without first establishing that it is that long: a short input such as \"mieru:/\" panics (slice bounds out of range) instead of returning an error", fnName(fn), bound)
			}
		})
	}
}

func r20_6(c *RC) {
	p := c.P
	for _, fname := range []string{"StoreServerConfig", "StoreClientConfig"} {
		fn := p.Fn(appctlPkg, fname)
		if fn == nil {
			c.Anchor("appctl." + fname)
			continue
		}
		n := 0
		other := 0
		instrs(fn, func(_ *ssa.BasicBlock, _ int, in ssa.Instruction) {
			if cl, ok := in.(*ssa.Call); ok {
				switch calleeID(cl) {
				case "os.WriteFile":
					n++
				case "os.OpenFile", "os.Create", "(*os.File).Write", "(*os.File).WriteString":
					other++
				}
			}
		})
		if n == 1 && other == 0 {
			c.OK("single-write@"+fname, fn.Pos(), "one os.WriteFile of the complete message")
		} else {
			c.Bad("single-write@"+fname, fn.Pos(), "%s performs %d os.WriteFile and %d other file writes: a partial or appended configuration file can result", fname, n, other)
		}
	}
}

// emptyLiteral: &T{} with no field initialised.
func emptyLiteral(v ssa.Value) bool {
	a, ok := v.(*ssa.Alloc)
	if !ok {
		return false
	}
	for _, r := range *a.Referrers() {
		if _, ok := r.(*ssa.FieldAddr); ok {
			return false
		}
	}
	return true
}

func underFileNotExist(in ssa.Instruction) bool {
	for _, e := range controllingEdges(in.Block()) {
		if bo, ok := e.If.Cond.(*ssa.BinOp); ok && bo.Op == token.EQL && e.Idx == 0 {
			for _, v := range []ssa.Value{bo.X, bo.Y} {
				for _, l := range Leaves(v, nil) {
					if u, ok := l.(*ssa.UnOp); ok {
						if g, ok := u.X.(*ssa.Global); ok && g.Name() == "ErrFileNotExist" {
							return true
						}
					}
				}
			}
		}
	}
	return false
}

// r20_7: validator and consumer of the custom nonce prefixes decode the same
// string. The consumer (pkg/cipher, which panics on a decode error) and the
// validator (apis/trafficpattern) both hand the configured element itself to
// hex.DecodeString; a validator that normalises first (TrimSpace, ToLower,
// ...) accepts configurations the consumer crashes on (seed C20f).
func r20_7(c *RC) {
	p := c.P
	type site struct {
		fn    *ssa.Function
		call  *ssa.Call
		chain []string
	}
	var sites []site
	for _, fn := range p.Funcs("apis/trafficpattern", "pkg/cipher") {
		instrs(fn, func(_ *ssa.BasicBlock, _ int, in ssa.Instruction) {
			cl, ok := in.(*ssa.Call)
			if !ok || calleeID(cl) != "encoding/hex.DecodeString" {
				return
			}
			// walk from the argument back to GetCustomHexStrings, recording calls passed through
			var chain []string
			fromGetter := false
			v := cl.Call.Args[0]
			for i := 0; i < 8 && v != nil; i++ {
				switch x := v.(type) {
				case *ssa.Call:
					if calleeName(x) == "GetCustomHexStrings" {
						fromGetter = true
						v = nil
						continue
					}
					chain = append(chain, strings.TrimPrefix(calleeID(x), modPath+"/"))
					if len(x.Call.Args) > 0 {
						v = x.Call.Args[0]
					} else {
						v = nil
					}
				case *ssa.UnOp:
					v = x.X
				case *ssa.IndexAddr:
					v = x.X
				case *ssa.Index:
					v = x.X
				case *ssa.Phi:
					// range loop element: follow any edge that is not the phi itself
					v = nil
					for _, e := range x.Edges {
						if e != ssa.Value(x) {
							v = e
						}
					}
				case *ssa.Extract:
					v = x.Tuple
				case *ssa.Next:
					v = x.Iter
				case *ssa.Range:
					v = x.X
				default:
					v = nil
				}
			}
			if fromGetter {
				sites = append(sites, site{fn, cl, chain})
			}
		})
	}
	if len(sites) < 2 {
		c.Undecided("nonce-prefix-decoders", token.NoPos, "expected a validator and a consumer decoding GetCustomHexStrings(), found %d site(s)", len(sites))
		return
	}
	ref := strings.Join(sites[0].chain, ">")
	agree := true
	for _, s := range sites[1:] {
		if strings.Join(s.chain, ">") != ref {
			agree = false
		}
	}
	for _, s := range sites {
		key := "nonce-prefix-decoder@" + fnName(s.fn)
		if agree {
			c.OKH(key, s.call.Pos(), "decodes the configured element as it is (normalisation chain: %v)", s.chain)
		} else {
			c.Bad(key, s.call.Pos(), "the configured custom nonce prefix is decoded after %v here but after a different chain elsewhere: the validator then accepts strings on which the consumer in pkg/cipher fails (and panics), so a configuration that passed validation crashes the process at its first encryption", s.chain)
		}
	}
}

// hashLoopBeforeWrite: fn hashes the users itself - a loop over all elements
// of config.GetUsers() (config being fn's first parameter) that calls
// HashUserPassword(element, false) on every iteration and cannot be left
// early, placed before the write. Returns "" when that holds.
func hashLoopBeforeWrite(fn *ssa.Function, write ssa.Instruction) string {
	var call *ssa.Call
	instrs(fn, func(_ *ssa.BasicBlock, _ int, in ssa.Instruction) {
		if cl, ok := in.(*ssa.Call); ok && calleeName(cl) == "HashUserPassword" {
			call = cl
		}
	})
	if call == nil {
		return "no call of HashUserPassword either"
	}
	if k, ok := call.Common().Args[1].(*ssa.Const); !ok || k.Value == nil || k.Value.String() != "false" {
		return "HashUserPassword is asked to keep the plaintext"
	}
	// the element: users[i] with users = config.GetUsers()
	ld, ok := call.Common().Args[0].(*ssa.UnOp)
	if !ok {
		return "the hashed value is not an element of the user list"
	}
	ia, ok := ld.X.(*ssa.IndexAddr)
	if !ok {
		return "the hashed value is not an element of the user list"
	}
	fromCfg := false
	for _, l := range Leaves(ia.X, nil) {
		if gc, ok := l.(*ssa.Call); ok && calleeName(gc) == "GetUsers" && len(gc.Common().Args) == 1 && gc.Common().Args[0] == ssa.Value(fn.Params[0]) {
			fromCfg = true
		}
	}
	if !fromCfg {
		return "the list iterated is not config.GetUsers()"
	}
	var phi *ssa.Phi
	switch x := ia.Index.(type) {
	case *ssa.Phi:
		phi = x
	case *ssa.BinOp:
		if pp, ok := x.X.(*ssa.Phi); ok && x.Op == token.ADD {
			phi = pp
		}
	}
	if phi == nil {
		return "the element index is not a loop variable"
	}
	header := phi.Block()
	starts := false
	for _, e := range phi.Edges {
		if k, ok := constInt(e); ok && (k == 0 || k == -1) {
			starts = true
		}
	}
	if !starts {
		return "the loop does not start at the first user"
	}
	// loop body: dominated by the header and able to come back to it
	inLoop := map[*ssa.BasicBlock]bool{}
	for _, b := range fn.Blocks {
		if header.Dominates(b) && blockReach(b, nil)[header] {
			inLoop[b] = true
		}
	}
	for b := range inLoop {
		if b == header {
			continue
		}
		for _, sc := range b.Succs {
			if !inLoop[sc] {
				return "the loop can be left before the last user"
			}
		}
	}
	for _, pr := range header.Preds {
		if inLoop[pr] && !call.Block().Dominates(pr) {
			return "an iteration can skip the hashing"
		}
	}
	if inLoop[write.Block()] || !header.Dominates(write.Block()) {
		return "the loop does not come before the write on every path"
	}
	return ""
}

func hpReferrers(hp *ssa.Call) []ssa.Instruction {
	if hp == nil {
		return nil
	}
	return *hp.Referrers()
}


// r20_8: MIERU_CONFIG_FILE / MIERU_CONFIG_JSON_FILE (and the server's
// counterparts) name a file *and* its format. If a later call in the same
// process answers from the cached path and derives the format from the file
// name instead, a store writes the other format than the load read, and the
// next load fails. Decided: in the two path functions every return whose
// format comes from FindConfigFileType is dominated by every environment
// lookup of that function.
func r20_8(c *RC) {
	p := c.P
	for _, name := range []string{"clientConfigFilePath", "serverConfigFilePath"} {
		fn := p.Fn(appctlPkg, name)
		if fn == nil {
			c.Anchor("appctl." + name)
			continue
		}
		var lookups []ssa.Instruction
		instrs(fn, func(_ *ssa.BasicBlock, _ int, in ssa.Instruction) {
			if cl, ok := in.(*ssa.Call); ok && (calleeID(cl) == "os.LookupEnv" || calleeID(cl) == "os.Getenv") {
				lookups = append(lookups, in)
			}
		})
		key := "format-by-suffix-only-without-env@" + name
		if len(lookups) == 0 {
			c.OK(key, fn.Pos(), "%s consults no environment variable", name)
			continue
		}
		bad := ""
		n := 0
		instrs(fn, func(_ *ssa.BasicBlock, _ int, in ssa.Instruction) {
			r, ok := in.(*ssa.Return)
			if !ok || len(r.Results) < 2 {
				return
			}
			bySuffix := false
			for _, l := range Leaves(retVal(r, 1), nil) {
				if cl, ok := l.(*ssa.Call); ok && calleeName(cl) == "FindConfigFileType" {
					bySuffix = true
				}
			}
			if !bySuffix {
				return
			}
			n++
			for _, lk := range lookups {
				if !instrDominates(lk, in) {
					bad = p.Pos(r.Pos())
				}
			}
		})
		switch {
		case bad != "":
			c.Bad(key, fn.Pos(), "%s can answer with a format derived from the file name (return at %s) before it has looked at the environment variables that force a format: with MIERU_CONFIG_JSON_FILE pointing at a name without the .json suffix the first call says JSON, later calls say protobuf, and the file written by apply/import cannot be read back", name, bad)
		default:
			c.OKH(key, fn.Pos(), "%d suffix-based return(s), each after all %d environment lookups", n, len(lookups))
		}
	}
}
