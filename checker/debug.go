package main

import (
	"fmt"
	"go/types"
	"os"

	"golang.org/x/tools/go/ssa"
)

func init() {
	if len(os.Args) > 1 && os.Args[1] == "dumpcalls" {
		repo := "/repo"
		if r := os.Getenv("DBG_REPO"); r != "" {
			repo = r
		}
		p, err := LoadProg(repo, "", "", nil)
		if err != nil {
			fmt.Println(err)
			os.Exit(1)
		}
		fn := p.Fn(os.Args[2], os.Args[3])
		if fn == nil {
			fmt.Println("no fn")
			os.Exit(1)
		}
		if len(os.Args) > 4 && os.Args[4] == "ssa" {
			fn.WriteTo(os.Stdout)
			os.Exit(0)
		}
		instrs(fn, func(_ *ssa.BasicBlock, _ int, in ssa.Instruction) {
			if c, ok := in.(ssa.CallInstruction); ok {
				sc := c.Common().StaticCallee()
				recv := false
				if sc != nil {
					recv = sc.Signature.Recv() != nil
				}
				fmt.Printf("%s: %s recv=%v args=%d %s\n", p.Pos(in.Pos()), calleeID(c), recv, len(c.Common().Args), describeInstr(in))
			}
		})
		os.Exit(0)
	}
}

func init() {
	if len(os.Args) > 1 && os.Args[1] == "dbgfmc" {
		p, _ := LoadProg("/repo", "", "", nil)
		f := p.Field(os.Args[2], os.Args[3], os.Args[4])
		fmt.Println("field", f)
		for _, s := range p.FieldMethodCalls(f) {
			fmt.Println(p.Pos(s.Pos()), describeInstr(s.Instr))
		}
		os.Exit(0)
	}
}

func init() {
	if len(os.Args) > 1 && os.Args[1] == "panics" {
		p, _ := LoadProg("/repo", "", "", nil)
		for _, fn := range p.Funcs() {
			instrs(fn, func(_ *ssa.BasicBlock, _ int, in ssa.Instruction) {
				if pn, ok := in.(*ssa.Panic); ok {
					msg := describe(pn.X)
					if len(msg) > 90 {
						msg = msg[:90]
					}
					fmt.Printf("%-28s %-70s %s\n", p.Pos(in.Pos()), fnName(fn), msg)
				}
			})
		}
		os.Exit(0)
	}
}

func init() {
	if len(os.Args) > 1 && os.Args[1] == "dbgfold" {
		p, _ := LoadProg("/repo", "", "", nil)
		fn := p.Fn("pkg/protocol", "maxFragmentSize")
		f := &Folder{P: p, Assume: func(v ssa.Value) (cval, bool) {
			switch x := v.(type) {
			case *ssa.Field:
				if fo := fieldOrigin(x); fo != nil && fo.Name() == "sourceBytesPerChunk" {
					return cInt(4), true
				}
			case *ssa.Extract:
				if call, ok := x.Tuple.(*ssa.Call); ok && calleeName(call) == "buildLowEntropyParams" && x.Index == 1 {
					return cval{isNil: true}, true
				}
			}
			return cval{}, false
		}, OnCall: func(call *ssa.Call, args []cval) { fmt.Println("call", calleeID(call), args) }}
		outs := f.Eval(fn, []cval{cInt(1280), cInt(2), cInt(1)})
		for _, o := range outs {
			fmt.Printf("%+v\n", o)
		}
		fn.WriteTo(os.Stdout)
		os.Exit(0)
	}
}

func init() {
	if len(os.Args) > 1 && os.Args[1] == "lockorder" {
		repo := "/repo"
		if r := os.Getenv("DBG_REPO"); r != "" {
			repo = r
		}
		p, err := LoadProg(repo, "", "", nil)
		if err != nil {
			fmt.Println(err)
			os.Exit(1)
		}
		lo := buildLockOrder(p)
		fmt.Println("acquisitions:", len(lo.Acqs))
		g := lo.graph()
		for a, m := range g {
			for b, e := range m {
				fmt.Printf("%s -> %s   [%s holds, at %s, taken in %s]\n", a, b, fnName(e.Holder), p.Pos(e.At.Pos()), fnName(e.Via))
			}
		}
		fmt.Println("SCCs:", lo.sccs())
		os.Exit(0)
	}
}

func init() {
	if len(os.Args) > 1 && os.Args[1] == "bounds" {
		p, err := LoadProg("/repo", "", "", nil)
		if err != nil {
			fmt.Println(err)
			os.Exit(1)
		}
		for _, fn := range p.Funcs(os.Args[2:]...) {
			instrs(fn, func(_ *ssa.BasicBlock, _ int, in ssa.Instruction) {
				switch x := in.(type) {
				case *ssa.Slice:
					nc := false
					for _, b := range []ssa.Value{x.Low, x.High, x.Max} {
						if b != nil {
							if _, ok := constInt(b); !ok {
								nc = true
							}
						}
					}
					if nc {
						fmt.Printf("%s %s: slice %s\n", p.Pos(x.Pos()), fnName(fn), describe(x))
					}
				case *ssa.IndexAddr:
					if _, ok := constInt(x.Index); !ok {
						if _, isArr := x.X.Type().Underlying().(*types.Pointer); isArr {
							return
						}
						fmt.Printf("%s %s: index %s[%s]\n", p.Pos(x.Pos()), fnName(fn), describe(x.X), describe(x.Index))
					}
				}
			})
		}
		os.Exit(0)
	}
}
