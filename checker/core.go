package main

// Rule plumbing: obligations, violations, known findings, evidence.

import (
	"encoding/json"
	"fmt"
	"go/token"
	"os"
	"path/filepath"
	"regexp"
	"runtime/debug"
	"sort"
	"strings"
	"time"
)

type Status string

const (
	Discharged Status = "discharged"
	Violation  Status = "violation"
	Undecided  Status = "undecided"
	KnownF     Status = "known-finding"
)

type Obligation struct {
	Rule   string `json:"rule"`
	Key    string `json:"key"` // rule instance, position-free
	Pos    string `json:"pos"` // file:line of the construct on this tree
	Status Status `json:"status"`
	Why    string `json:"why"` // discharge reason or violation message
	Hard   bool   `json:"nontrivial,omitempty"`
}

type Rule struct {
	ID    string
	Text  string
	Floor int // minimum number of instances (vacuity guard)
	Run   func(c *RC)
}

type Property struct {
	ID          string
	Decides     string   // clauses decided (structural necessary conditions)
	NotDecided  string   // clauses honestly not decided
	Assumptions []string // trusted base
	Rules       []Rule
	NeedCG      bool
}

type RuleResult struct {
	ID         string `json:"id"`
	Text       string `json:"text"`
	Instances  int    `json:"instances"`
	Floor      int    `json:"floor"`
	Discharged int    `json:"discharged"`
	Violations int    `json:"violations"`
	Known      int    `json:"known_findings"`
	Undecided  int    `json:"undecided"`
}

// RC is the context handed to a rule.
type RC struct {
	P    *Prog
	Prop string
	rule *Rule
	obs  []Obligation
	info map[string]any
}

func (c *RC) add(st Status, key string, pos token.Pos, hard bool, format string, a ...any) {
	c.obs = append(c.obs, Obligation{Rule: c.rule.ID, Key: key, Pos: c.P.Pos(pos), Status: st, Why: fmt.Sprintf(format, a...), Hard: hard})
}

// OK records a discharged obligation that needed only a syntactic/type match.
func (c *RC) OK(key string, pos token.Pos, format string, a ...any) {
	c.add(Discharged, key, pos, false, format, a...)
}

// OKH records a discharged obligation that needed a non-trivial argument
// (path exploration, provenance slice, table comparison).
func (c *RC) OKH(key string, pos token.Pos, format string, a ...any) {
	c.add(Discharged, key, pos, true, format, a...)
}

func (c *RC) Bad(key string, pos token.Pos, format string, a ...any) {
	c.add(Violation, key, pos, true, format, a...)
}

func (c *RC) Undecided(key string, pos token.Pos, format string, a ...any) {
	c.add(Undecided, key, pos, true, format, a...)
}

// Anchor reports an anchor that could not be resolved.
func (c *RC) Anchor(name string) {
	c.add(Violation, "ANCHOR:"+name, token.NoPos, false, "anchor %s cannot be resolved on this tree (renamed or removed); the rule cannot be evaluated and does not pass vacuously", name)
}

func (c *RC) Info(k string, v any) {
	if c.info == nil {
		c.info = map[string]any{}
	}
	c.info[c.rule.ID+"."+k] = v
}

// ---------------------------------------------------------------------------

type KnownFinding struct {
	Property string `json:"property"`
	Rule     string `json:"rule"`
	Key      string `json:"key"`
	What     string `json:"what"`
	ID       string `json:"id,omitempty"`
}

type FixedEntry struct {
	Property string `json:"property"`
	Commit   string `json:"commit"`
	What     string `json:"what"`
	ID       string `json:"id,omitempty"`
}

type KnownFile struct {
	Findings []KnownFinding `json:"findings"`
	Fixed    []FixedEntry   `json:"fixed"`
}

func loadKnown(verifDir string) KnownFile {
	var k KnownFile
	b, err := os.ReadFile(filepath.Join(verifDir, "known_findings.json"))
	if err != nil {
		return k
	}
	if err := json.Unmarshal(b, &k); err != nil {
		fmt.Fprintf(os.Stderr, "known_findings.json: %v\n", err)
	}
	return k
}

// ---------------------------------------------------------------------------

type RunOpts struct {
	VerifDir string
	RepoDir  string
	Tier     string
	Seed     int64
	// NoEvidence suppresses evidence/report files (used by the mutant sweep
	// and by "explain").
	NoEvidence bool
	Quiet      bool
	Result     string
	Verbose    bool
	GOOS       string
	GOARCH     string
}

type RunResult struct {
	Obs       []Obligation
	Rules     []RuleResult
	Info      map[string]any
	Failed    []Obligation // violations + undecided not covered by known findings
	Known     []Obligation
	WallSecs  float64
	LoadSecs  float64
	Panicked  string
	NumFuncs  int
	NumPkgs   int
	CallEdges int
}

var keySan = regexp.MustCompile(`[^A-Za-z0-9_.-]+`)

func runProperty(p *Prog, prop *Property, known KnownFile) *RunResult {
	gProg = p
	t0 := time.Now()
	res := &RunResult{Info: map[string]any{}, LoadSecs: p.LoadSecs, NumFuncs: len(p.allFns), NumPkgs: len(p.Roots)}
	if prop.NeedCG {
		cg := p.CallGraph()
		n := 0
		for _, nd := range cg.Nodes {
			n += len(nd.Out)
		}
		res.CallEdges = n
	}
	for i := range prop.Rules {
		r := &prop.Rules[i]
		c := &RC{P: p, Prop: prop.ID, rule: r}
		func() {
			defer func() {
				if e := recover(); e != nil {
					c.add(Violation, "INTERNAL", token.NoPos, false, "checker panic in rule %s: %v\n%s", r.ID, e, string(debug.Stack()))
				}
			}()
			r.Run(c)
		}()
		// de-duplicate keys inside a rule by ordinal suffix (stable order).
		seen := map[string]int{}
		for j := range c.obs {
			k := c.obs[j].Key
			seen[k]++
			if seen[k] > 1 {
				c.obs[j].Key = fmt.Sprintf("%s#%d", k, seen[k])
			}
		}
		rr := RuleResult{ID: r.ID, Text: r.Text, Floor: r.Floor, Instances: len(c.obs)}
		if len(c.obs) < r.Floor {
			c.add(Violation, "VACUOUS", token.NoPos, false, "rule %s matched %d instances, fewer than the floor %d confirmed by hand: an anchored role disappeared and the rule would pass vacuously", r.ID, len(c.obs), r.Floor)
		}
		for j := range c.obs {
			o := &c.obs[j]
			if o.Status == Violation || o.Status == Undecided {
				for _, kf := range known.Findings {
					if kf.Property == prop.ID && kf.Rule == o.Rule && kf.Key == o.Key {
						o.Status = KnownF
						o.Why = kf.What + " [" + o.Why + "]"
					}
				}
			}
			switch o.Status {
			case Discharged:
				rr.Discharged++
			case Violation:
				rr.Violations++
				res.Failed = append(res.Failed, *o)
			case Undecided:
				rr.Undecided++
				res.Failed = append(res.Failed, *o)
			case KnownF:
				rr.Known++
				res.Known = append(res.Known, *o)
			}
		}
		res.Obs = append(res.Obs, c.obs...)
		res.Rules = append(res.Rules, rr)
		for k, v := range c.info {
			res.Info[k] = v
		}
	}
	res.WallSecs = time.Since(t0).Seconds()
	return res
}

// emit prints the verdict lines, writes report files and the evidence file.
// Returns the process exit code.
func emit(prop *Property, res *RunResult, o RunOpts, extra map[string]any) int {
	for _, k := range res.Known {
		fmt.Printf("KNOWN-FINDING: property=%s rule=%s key=%s at %s: %s\n", prop.ID, k.Rule, k.Key, k.Pos, k.Why)
	}
	code := 0
	if !o.NoEvidence {
		os.MkdirAll(filepath.Join(o.VerifDir, "reports"), 0o755)
		// remove stale reports of this property
		old, _ := filepath.Glob(filepath.Join(o.VerifDir, "reports", prop.ID+"-*.json"))
		for _, f := range old {
			os.Remove(f)
		}
	}
	for _, f := range res.Failed {
		code = 1
		path := filepath.Join(o.VerifDir, "reports", fmt.Sprintf("%s-%s-%s.json", prop.ID, f.Rule, keySan.ReplaceAllString(f.Key, "_")))
		if len(path) > 240 {
			path = path[:240] + ".json"
		}
		if !o.NoEvidence {
			b, _ := json.MarshalIndent(map[string]any{"property": prop.ID, "rule": f.Rule, "rule_text": ruleText(prop, f.Rule), "key": f.Key, "pos": f.Pos, "status": f.Status, "message": f.Why, "repo": o.RepoDir}, "", " ")
			os.WriteFile(path, b, 0o644)
		}
		fmt.Printf("%s %s %s at %s: %s\n", strings.ToUpper(string(f.Status)), f.Rule, f.Key, f.Pos, f.Why)
		fmt.Printf("VIOLATION property=%s replay=%s\n", prop.ID, path)
	}
	if o.Verbose {
		for _, ob := range res.Obs {
			fmt.Printf("    [%s] %s %s at %s: %s\n", ob.Status, ob.Rule, ob.Key, ob.Pos, ob.Why)
		}
	}
	if !o.Quiet {
		for _, r := range res.Rules {
			fmt.Printf("  %-7s instances=%-4d discharged=%-4d known=%d violations=%d undecided=%d (floor %d)\n", r.ID, r.Instances, r.Discharged, r.Known, r.Violations, r.Undecided, r.Floor)
		}
		fmt.Printf("%s tier=%s: %d obligations, %d failed, %d known findings, load %.1fs analyse %.1fs\n", prop.ID, o.Tier, len(res.Obs), len(res.Failed), len(res.Known), res.LoadSecs, res.WallSecs)
	}
	if o.NoEvidence {
		return code
	}
	writeEvidence(prop, res, o, extra)
	return code
}

func ruleText(p *Property, id string) string {
	for _, r := range p.Rules {
		if r.ID == id {
			return r.Text
		}
	}
	return ""
}

func writeEvidence(prop *Property, res *RunResult, o RunOpts, extra map[string]any) {
	distinct := map[string]bool{}
	hard := 0
	disch := 0
	for _, ob := range res.Obs {
		if ob.Status == Discharged || ob.Status == KnownF {
			disch++
		}
		if ob.Hard && !distinct[ob.Rule+"|"+ob.Key] {
			distinct[ob.Rule+"|"+ob.Key] = true
			hard++
		}
	}
	// samples: up to 4 per rule, non-trivial first
	var samples []Obligation
	perRule := map[string]int{}
	obs := append([]Obligation(nil), res.Obs...)
	sort.SliceStable(obs, func(i, j int) bool { return obs[i].Hard && !obs[j].Hard })
	for _, ob := range obs {
		if perRule[ob.Rule] < 4 {
			perRule[ob.Rule]++
			s := ob
			if len(s.Why) > 400 {
				s.Why = s.Why[:400] + "…"
			}
			samples = append(samples, s)
		}
	}
	sort.SliceStable(samples, func(i, j int) bool { return samples[i].Rule < samples[j].Rule })
	cov := map[string]any{
		"explanation":         "Static analysis of /repo's working tree (go/packages + go/ssa" + map[bool]string{true: " + VTA call graph", false: ""}[prop.NeedCG] + "); nothing from mieru is executed. DECIDED (structural necessary conditions of the property): " + prop.Decides + " NOT DECIDED: " + prop.NotDecided,
		"evaluations":         len(res.Obs),
		"distinct_nontrivial": hard,
		"rule":                "one evaluation = one rule instance (call site, field store, return statement, table row, path obligation) discovered from the type-checked program and either discharged by an enumerated idiom, reported as a violation, or reported undecided (= failure). Non-trivial = the discharge needed a path exploration, provenance slice, dominance argument or table comparison rather than a purely syntactic match; counted once per rule+construct key.",
		"obligations":         len(res.Obs),
		"discharged":          disch,
		"samples":             samples,
		"rules":               res.Rules,
		"packages":            res.NumPkgs,
		"functions":           res.NumFuncs,
		"call_graph_edges":    res.CallEdges,
		"known_findings":      len(res.Known),
		"repo":                o.RepoDir,
		"load_s":              res.LoadSecs,
		"info":                res.Info,
		"exhaustive":          false,
	}
	for k, v := range extra {
		cov[k] = v
	}
	ev := map[string]any{
		"property_id": prop.ID,
		"tier":        o.Tier,
		"seed":        o.Seed,
		"level":       "other",
		"coverage":    cov,
		"assumptions": append([]string{"Go parser/type checker and go/ssa construction are correct", "reflection and unsafe are not used on the analysed paths (generated protobuf code is treated as opaque accessors)"}, prop.Assumptions...),
		"wall_s":      res.WallSecs + res.LoadSecs,
		"violations":  len(res.Failed),
	}
	b, _ := json.MarshalIndent(ev, "", " ")
	os.MkdirAll(filepath.Join(o.VerifDir, "evidence"), 0o755)
	os.WriteFile(filepath.Join(o.VerifDir, "evidence", prop.ID+".json"), b, 0o644)
}
