package main

// Negative controls: behaviour-preserving refactorings of /repo (written by
// independent authors, /verif/refactors/<id>/patch.diff) are applied to
// scratch copies and *every* property is checked on each; any violation is a
// false alarm of the reporting rule.

import (
	"encoding/json"
	"flag"
	"fmt"
	"os"
	"path/filepath"
	"sort"
	"strings"
	"sync"
)

// cmdCheckAll: one load, all properties; prints a one-line verdict per
// property and writes the failed obligations to -result.
func cmdCheckAll(args []string) int {
	fs := flag.NewFlagSet("checkall", flag.ExitOnError)
	repo := fs.String("repo", "/repo", "repository working tree")
	result := fs.String("result", "", "write failed obligations as JSON to this file")
	fs.Parse(args)
	known := loadKnown(verifDir())
	p, err := LoadProg(*repo, "", "", nil)
	out := map[string]any{}
	if err != nil {
		out["load_error"] = err.Error()
		if *result != "" {
			b, _ := json.Marshal(out)
			os.WriteFile(*result, b, 0o644)
		}
		fmt.Println("load failed:", err)
		return 1
	}
	var ids []string
	for id := range registry {
		ids = append(ids, id)
	}
	sort.Strings(ids)
	var failed []Obligation
	code := 0
	for _, id := range ids {
		pr := registry[id]()
		res := runProperty(p, pr, known)
		for _, f := range res.Failed {
			f.Key = id + ":" + f.Key
			failed = append(failed, f)
		}
		if len(res.Failed) > 0 {
			code = 1
		}
		fmt.Printf("%s: %d obligations, %d failed\n", id, len(res.Obs), len(res.Failed))
	}
	out["failed"] = failed
	if *result != "" {
		b, _ := json.Marshal(out)
		os.WriteFile(*result, b, 0o644)
	}
	return code
}

func cmdNegSweep(args []string) int {
	fs := flag.NewFlagSet("negsweep", flag.ExitOnError)
	repo := fs.String("repo", "/repo", "repository")
	par := fs.Int("j", 4, "parallel scratch analyses")
	only := fs.String("only", "", "only refactorings whose id has this prefix")
	fs.Parse(args)
	dirs, _ := filepath.Glob(filepath.Join(verifDir(), "refactors", "*", "patch.diff"))
	sort.Strings(dirs)
	type res struct {
		id     string
		note   string
		alarms []Obligation
	}
	var list []string
	for _, d := range dirs {
		id := filepath.Base(filepath.Dir(d))
		if *only == "" || strings.HasPrefix(id, *only) {
			list = append(list, d)
		}
	}
	rs := make([]res, len(list))
	sem := make(chan struct{}, *par)
	var wg sync.WaitGroup
	exe, _ := os.Executable()
	for i, pf := range list {
		wg.Add(1)
		go func(i int, pf string) {
			defer wg.Done()
			sem <- struct{}{}
			defer func() { <-sem }()
			r := res{id: filepath.Base(filepath.Dir(pf))}
			defer func() { rs[i] = r }()
			d, err := scratchCopy(*repo)
			if err != nil {
				r.note = err.Error()
				return
			}
			defer os.RemoveAll(d)
			if out, err := runCmd(d, nil, "git", "apply", "--whitespace=nowarn", pf); err != nil {
				r.note = "patch does not apply (skipped): " + strings.TrimSpace(out)
				return
			}
			resFile := filepath.Join(d, ".mverif-result.json")
			out, _ := runCmd(d, []string{"VERIF_DIR=" + verifDir()}, exe, "checkall", "-repo", d, "-result", resFile)
			var rr struct {
				Failed []Obligation `json:"failed"`
				Load   string       `json:"load_error"`
			}
			b, err := os.ReadFile(resFile)
			if err != nil {
				r.note = "no result: " + lastLines(out, 3)
				return
			}
			json.Unmarshal(b, &rr)
			if rr.Load != "" {
				r.note = "does not type-check: " + rr.Load
				return
			}
			r.alarms = rr.Failed
		}(i, pf)
	}
	wg.Wait()
	bad := 0
	for _, r := range rs {
		switch {
		case r.note != "":
			fmt.Printf("SKIPPED  %-14s %s\n", r.id, r.note)
		case len(r.alarms) == 0:
			fmt.Printf("QUIET    %-14s\n", r.id)
		default:
			bad++
			fmt.Printf("ALARM    %-14s %d obligations\n", r.id, len(r.alarms))
			for _, a := range r.alarms {
				why := a.Why
				if len(why) > 220 {
					why = why[:220] + "..."
				}
				fmt.Printf("           %s %s at %s: %s\n", a.Rule, a.Key, a.Pos, why)
			}
		}
	}
	fmt.Printf("%d refactorings, %d with false alarms\n", len(rs), bad)
	if bad > 0 {
		return 1
	}
	return 0
}
