package main

// Loading of /repo's current working tree: go/packages (all syntax, type
// checked from source), go/ssa for every package, lazily a VTA call graph.

import (
	"fmt"
	"go/ast"
	"go/token"
	"go/types"
	"os"
	"path/filepath"
	"sort"
	"strings"
	"sync"
	"time"

	"golang.org/x/tools/go/callgraph"
	"golang.org/x/tools/go/callgraph/cha"
	"golang.org/x/tools/go/callgraph/vta"
	"golang.org/x/tools/go/packages"
	"golang.org/x/tools/go/ssa"
	"golang.org/x/tools/go/ssa/ssautil"
)

const modPath = "github.com/enfein/mieru/v3"

type Prog struct {
	Dir    string
	GOOS   string
	GOARCH string
	Fset   *token.FileSet
	Roots  []*packages.Package
	ByPath map[string]*packages.Package
	SSA    *ssa.Program

	LoadSecs float64

	cgOnce sync.Once
	cg     *callgraph.Graph
	chaG   *callgraph.Graph

	allFns   []*ssa.Function // product functions incl. anonymous ones
	fnByDecl map[*ast.FuncDecl]*ssa.Function
}

// inProduct reports whether a package path belongs to the analysed product
// code (apis/, pkg/, cmd/ but not test helpers).
func inProduct(path string) bool {
	if !strings.HasPrefix(path, modPath+"/") {
		return false
	}
	rel := strings.TrimPrefix(path, modPath+"/")
	if strings.HasPrefix(rel, "test/") || strings.HasPrefix(rel, "tools/") || rel == "pkg/testtool" {
		return false
	}
	return strings.HasPrefix(rel, "apis/") || strings.HasPrefix(rel, "pkg/") || strings.HasPrefix(rel, "cmd/")
}

func LoadProg(dir, goos, goarch string, overlay map[string][]byte) (*Prog, error) {
	t0 := time.Now()
	env := append(os.Environ(),
		"GOFLAGS=-mod=mod", "GOPROXY=off", "GOSUMDB=off", "GOTOOLCHAIN=local", "GOWORK=off", "CGO_ENABLED=0")
	if goos != "" {
		env = append(env, "GOOS="+goos)
	}
	if goarch != "" {
		env = append(env, "GOARCH="+goarch)
	}
	fset := token.NewFileSet()
	cfg := &packages.Config{
		Mode:    packages.LoadAllSyntax,
		Dir:     dir,
		Env:     env,
		Fset:    fset,
		Tests:   false,
		Overlay: overlay,
	}
	roots, err := packages.Load(cfg, "./...")
	if err != nil {
		return nil, fmt.Errorf("packages.Load: %w", err)
	}
	var errs []string
	packages.Visit(roots, nil, func(p *packages.Package) {
		for _, e := range p.Errors {
			errs = append(errs, e.Error())
		}
	})
	if len(errs) > 0 {
		sort.Strings(errs)
		if len(errs) > 10 {
			errs = errs[:10]
		}
		return nil, fmt.Errorf("load/type errors (a static tool sees only what compiles): %s", strings.Join(errs, "; "))
	}
	if len(roots) < 30 {
		return nil, fmt.Errorf("only %d root packages loaded from %s (expected >= 30)", len(roots), dir)
	}
	p := &Prog{Dir: dir, GOOS: goos, GOARCH: goarch, Fset: fset, Roots: roots, ByPath: map[string]*packages.Package{}}
	packages.Visit(roots, nil, func(pk *packages.Package) { p.ByPath[pk.PkgPath] = pk })
	prog, _ := ssautil.AllPackages(roots, ssa.InstantiateGenerics)
	prog.Build()
	p.SSA = prog
	p.collectFuncs()
	p.LoadSecs = time.Since(t0).Seconds()
	return p, nil
}

func (p *Prog) collectFuncs() {
	seen := map[*ssa.Function]bool{}
	var add func(f *ssa.Function)
	add = func(f *ssa.Function) {
		if f == nil || seen[f] {
			return
		}
		seen[f] = true
		if f.Blocks != nil {
			p.allFns = append(p.allFns, f)
		}
		for _, a := range f.AnonFuncs {
			add(a)
		}
	}
	for _, pk := range p.SSA.AllPackages() {
		if !inProduct(pk.Pkg.Path()) {
			continue
		}
		for _, m := range pk.Members {
			switch m := m.(type) {
			case *ssa.Function:
				add(m)
			case *ssa.Type:
				for _, t := range []types.Type{m.Type(), types.NewPointer(m.Type())} {
					ms := p.SSA.MethodSets.MethodSet(t)
					for i := 0; i < ms.Len(); i++ {
						fn := p.SSA.MethodValue(ms.At(i))
						if fn != nil && fn.Synthetic == "" {
							add(fn)
						}
					}
				}
			}
		}
	}
	sort.Slice(p.allFns, func(i, j int) bool { return p.allFns[i].Pos() < p.allFns[j].Pos() })
}

// Funcs returns all product functions with bodies (including closures),
// optionally restricted to packages whose module-relative path has one of the
// given prefixes.
func (p *Prog) Funcs(relPrefixes ...string) []*ssa.Function {
	if len(relPrefixes) == 0 {
		return p.allFns
	}
	var out []*ssa.Function
	for _, f := range p.allFns {
		rel := relPkg(f)
		for _, pre := range relPrefixes {
			if rel == pre || strings.HasPrefix(rel, pre+"/") {
				out = append(out, f)
				break
			}
		}
	}
	return out
}

func relPkg(f *ssa.Function) string {
	for f.Parent() != nil {
		f = f.Parent()
	}
	if f.Pkg == nil {
		if f.Origin() != nil && f.Origin().Pkg != nil {
			return strings.TrimPrefix(f.Origin().Pkg.Pkg.Path(), modPath+"/")
		}
		return ""
	}
	return strings.TrimPrefix(f.Pkg.Pkg.Path(), modPath+"/")
}

func (p *Prog) Pkg(rel string) *ssa.Package {
	pk := p.ByPath[modPath+"/"+rel]
	if pk == nil {
		pk = p.ByPath[rel]
	}
	if pk == nil || pk.Types == nil {
		return nil
	}
	return p.SSA.Package(pk.Types)
}

func (p *Prog) TypesPkg(rel string) *types.Package {
	pk := p.ByPath[modPath+"/"+rel]
	if pk == nil {
		pk = p.ByPath[rel]
	}
	if pk == nil {
		return nil
	}
	return pk.Types
}

// Fn resolves "name" (a package-level function) or "Type.method" in the
// package with module-relative path rel. Returns nil if absent.
func (p *Prog) Fn(rel, name string) *ssa.Function {
	sp := p.Pkg(rel)
	if sp == nil {
		return nil
	}
	if i := strings.Index(name, "."); i >= 0 {
		tn, mn := name[:i], name[i+1:]
		obj := sp.Pkg.Scope().Lookup(tn)
		if obj == nil {
			return nil
		}
		named, ok := obj.Type().(*types.Named)
		if !ok {
			return nil
		}
		var wrapper *ssa.Function
		for _, t := range []types.Type{types.NewPointer(named), named} {
			sel := p.SSA.MethodSets.MethodSet(t).Lookup(sp.Pkg, mn)
			if sel != nil {
				fn := p.SSA.MethodValue(sel)
				if fn != nil && fn.Synthetic == "" {
					return fn
				}
				if wrapper == nil {
					wrapper = fn
				}
			}
		}
		return wrapper
	}
	return sp.Func(name)
}

func (p *Prog) Named(rel, name string) *types.Named {
	tp := p.TypesPkg(rel)
	if tp == nil {
		return nil
	}
	obj := tp.Scope().Lookup(name)
	if obj == nil {
		return nil
	}
	n, _ := obj.Type().(*types.Named)
	return n
}

// Field resolves a struct field object (searching embedded structs of the
// same package one level deep).
func (p *Prog) Field(rel, typ, field string) *types.Var {
	n := p.Named(rel, typ)
	if n == nil {
		return nil
	}
	st, ok := n.Underlying().(*types.Struct)
	if !ok {
		return nil
	}
	for i := 0; i < st.NumFields(); i++ {
		if st.Field(i).Name() == field {
			return st.Field(i)
		}
	}
	return nil
}

func (p *Prog) Const(rel, name string) types.Object {
	tp := p.TypesPkg(rel)
	if tp == nil {
		return nil
	}
	return tp.Scope().Lookup(name)
}

func (p *Prog) Pos(pos token.Pos) string {
	if !pos.IsValid() {
		return "-"
	}
	ps := p.Fset.Position(pos)
	rel, err := filepath.Rel(p.Dir, ps.Filename)
	if err != nil || strings.HasPrefix(rel, "..") {
		rel = ps.Filename
	}
	return fmt.Sprintf("%s:%d", rel, ps.Line)
}

// File returns the parsed file (and its package) with the given
// module-relative path, e.g. "pkg/protocol/metadata.go".
func (p *Prog) File(rel string) (*ast.File, *packages.Package) {
	want := filepath.Join(p.Dir, rel)
	for _, pk := range p.ByPath {
		for i, f := range pk.CompiledGoFiles {
			if f == want && i < len(pk.Syntax) {
				return pk.Syntax[i], pk
			}
		}
	}
	return nil, nil
}

// FuncDecl finds the AST declaration of an ssa function.
func (p *Prog) FuncDecl(f *ssa.Function) (*ast.FuncDecl, *packages.Package) {
	if f == nil {
		return nil, nil
	}
	fd, _ := f.Syntax().(*ast.FuncDecl)
	if fd == nil {
		return nil, nil
	}
	if f.Pkg == nil {
		return fd, nil
	}
	return fd, p.ByPath[f.Pkg.Pkg.Path()]
}

// CallGraph returns the VTA call graph (seeded with CHA).
func (p *Prog) CallGraph() *callgraph.Graph {
	p.cgOnce.Do(func() {
		p.chaG = cha.CallGraph(p.SSA)
		p.cg = vta.CallGraph(ssautil.AllFunctions(p.SSA), p.chaG)
	})
	return p.cg
}

func (p *Prog) CHAGraph() *callgraph.Graph {
	p.CallGraph()
	return p.chaG
}

// fnName gives a stable, position-free name for a function:
// "pkg/protocol.(*Session).Read", closures get "$N" suffixes from go/ssa.
func fnName(f *ssa.Function) string {
	if f == nil {
		return "<nil>"
	}
	s := f.String()
	s = strings.ReplaceAll(s, modPath+"/", "")
	return s
}
