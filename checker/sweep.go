package main

// Thorough tier: (a) the same rules over further build configurations,
// (b) the mutant sweep: each patch under /verif/mutants and /verif/seeded is
// applied to a scratch copy of /repo (outside /repo and /verif), the copy is
// type-checked and analysed, and the expected rule must report it. Nothing
// from mieru is executed. The sweep never changes the verdict on /repo: a
// patch that no longer applies is skipped, an undetected one is listed in the
// evidence.

import (
	"encoding/json"
	"flag"
	"fmt"
	"os"
	"os/exec"
	"path/filepath"
	"sort"
	"strings"
	"sync"
)

type mutant struct {
	Name     string `json:"name"`
	Property string `json:"property"`
	Rule     string `json:"expect_rule,omitempty"` // "" = any rule of the property
	Patch    string `json:"patch"`
	Seeded   bool   `json:"seeded"`
	// ExpectMiss marks seeded changes that are recorded as outside the reach
	// of the static rules (value-level/timing); they are swept and reported
	// but a miss is the documented outcome.
	ExpectMiss bool `json:"expect_miss,omitempty"`
}

type mutantResult struct {
	mutant
	Applied  bool     `json:"applied"`
	Compiles bool     `json:"compiles"`
	Detected bool     `json:"detected"`
	ByRules  []string `json:"by_rules,omitempty"`
	Note     string   `json:"note,omitempty"`
}

func listMutants(verif, prop string) []mutant {
	var out []mutant
	files, _ := filepath.Glob(filepath.Join(verif, "mutants", "*.patch"))
	sort.Strings(files)
	for _, f := range files {
		base := strings.TrimSuffix(filepath.Base(f), ".patch")
		parts := strings.SplitN(base, "__", 3)
		if len(parts) < 2 {
			continue
		}
		m := mutant{Name: base, Property: parts[0], Rule: parts[1], Patch: f}
		if m.Rule == "any" {
			m.Rule = ""
		}
		if prop == "" || prop == m.Property {
			out = append(out, m)
		}
	}
	dirs, _ := filepath.Glob(filepath.Join(verif, "seeded", "*", "meta.json"))
	sort.Strings(dirs)
	for _, mf := range dirs {
		var meta struct {
			Property   string `json:"property"`
			ExpectRule string `json:"expect_rule"`
			ExpectMiss bool   `json:"expect_miss"`
		}
		b, err := os.ReadFile(mf)
		if err != nil || json.Unmarshal(b, &meta) != nil {
			continue
		}
		d := filepath.Dir(mf)
		m := mutant{Name: "seeded/" + filepath.Base(d), Property: meta.Property, Rule: meta.ExpectRule, Patch: filepath.Join(d, "patch.diff"), Seeded: true, ExpectMiss: meta.ExpectMiss}
		if prop == "" || prop == m.Property {
			out = append(out, m)
		}
	}
	return out
}

func runCmd(dir string, env []string, name string, args ...string) (string, error) {
	c := exec.Command(name, args...)
	c.Dir = dir
	c.Env = append(os.Environ(), env...)
	b, err := c.CombinedOutput()
	return string(b), err
}

// scratchCopy copies the repo working tree (without .git) to a fresh temp dir.
func scratchCopy(repo string) (string, error) {
	d, err := os.MkdirTemp("", "mverif-scratch-")
	if err != nil {
		return "", err
	}
	if out, err := runCmd("/", nil, "rsync", "-a", "--exclude", ".git", repo+"/", d+"/"); err != nil {
		os.RemoveAll(d)
		return "", fmt.Errorf("rsync: %v %s", err, out)
	}
	return d, nil
}

func sweepOne(m mutant, repo string) mutantResult {
	r := mutantResult{mutant: m}
	d, err := scratchCopy(repo)
	if err != nil {
		r.Note = err.Error()
		return r
	}
	defer os.RemoveAll(d)
	if out, err := runCmd(d, nil, "git", "apply", "--whitespace=nowarn", m.Patch); err != nil {
		r.Note = "patch does not apply to this tree (skipped): " + strings.TrimSpace(out)
		return r
	}
	r.Applied = true
	exe, _ := os.Executable()
	resFile := filepath.Join(d, ".mverif-result.json")
	out, _ := runCmd(d, []string{"VERIF_DIR=" + verifDir()}, exe, "check", "-prop", m.Property, "-repo", d, "-no-evidence", "-result", resFile)
	var rr struct {
		Failed []Obligation `json:"failed"`
		Load   string       `json:"load_error"`
	}
	b, err := os.ReadFile(resFile)
	if err != nil {
		r.Note = "checker produced no result: " + lastLines(out, 5)
		return r
	}
	json.Unmarshal(b, &rr)
	if rr.Load != "" {
		r.Note = "mutant does not type-check: " + rr.Load
		return r
	}
	r.Compiles = true
	set := map[string]bool{}
	for _, f := range rr.Failed {
		set[f.Rule] = true
		if m.Rule == "" || f.Rule == m.Rule || strings.HasPrefix(f.Rule, m.Rule) {
			r.Detected = true
		}
	}
	for k := range set {
		r.ByRules = append(r.ByRules, k)
	}
	sort.Strings(r.ByRules)
	return r
}

func lastLines(s string, n int) string {
	ls := strings.Split(strings.TrimSpace(s), "\n")
	if len(ls) > n {
		ls = ls[len(ls)-n:]
	}
	return strings.Join(ls, " | ")
}

func sweep(ms []mutant, repo string, par int) []mutantResult {
	res := make([]mutantResult, len(ms))
	sem := make(chan struct{}, par)
	var wg sync.WaitGroup
	for i := range ms {
		wg.Add(1)
		go func(i int) {
			defer wg.Done()
			sem <- struct{}{}
			defer func() { <-sem }()
			res[i] = sweepOne(ms[i], repo)
		}(i)
	}
	wg.Wait()
	return res
}

func cmdSweep(args []string) int {
	fs := flag.NewFlagSet("sweep", flag.ExitOnError)
	prop := fs.String("prop", "", "only this property")
	repo := fs.String("repo", "/repo", "repository")
	par := fs.Int("j", 6, "parallel scratch analyses")
	fs.Parse(args)
	ms := listMutants(verifDir(), *prop)
	rs := sweep(ms, *repo, *par)
	missed := 0
	for _, r := range rs {
		st := "DETECTED"
		switch {
		case !r.Applied:
			st = "SKIPPED "
		case !r.Compiles:
			st = "NOCOMPIL"
		case !r.Detected && r.ExpectMiss:
			st = "missed (documented)"
		case !r.Detected:
			st = "MISSED  "
			missed++
		}
		fmt.Printf("%s %-60s expect=%-8s by=%v %s\n", st, r.Name, r.Rule, r.ByRules, r.Note)
	}
	fmt.Printf("%d mutants, %d undetected\n", len(rs), missed)
	if missed > 0 {
		return 1
	}
	return 0
}

type thoroughOut struct {
	extra map[string]any
	code  int
}

var extraConfigs = [][2]string{{"linux", "386"}, {"linux", "arm64"}, {"windows", "amd64"}, {"darwin", "arm64"}}

func thoroughExtras(pr *Property, o RunOpts, known KnownFile) thoroughOut {
	out := thoroughOut{extra: map[string]any{}}
	exe, _ := os.Executable()
	// (a) other build configurations, one process each, in parallel.
	type cfgRes struct {
		Cfg    string       `json:"config"`
		Failed []Obligation `json:"failed"`
		Load   string       `json:"load_error,omitempty"`
		Obs    int          `json:"obligations"`
	}
	crs := make([]cfgRes, len(extraConfigs))
	var wg sync.WaitGroup
	for i, c := range extraConfigs {
		wg.Add(1)
		go func(i int, c [2]string) {
			defer wg.Done()
			tmp, _ := os.CreateTemp("", "mverif-cfg-*.json")
			tmp.Close()
			defer os.Remove(tmp.Name())
			runCmd("/", []string{"VERIF_DIR=" + o.VerifDir}, exe, "check", "-prop", pr.ID, "-repo", o.RepoDir, "-no-evidence", "-goos", c[0], "-goarch", c[1], "-result", tmp.Name())
			b, _ := os.ReadFile(tmp.Name())
			var rr struct {
				Failed []Obligation `json:"failed"`
				Load   string       `json:"load_error"`
				Obs    int          `json:"obligations"`
			}
			json.Unmarshal(b, &rr)
			crs[i] = cfgRes{Cfg: c[0] + "/" + c[1], Failed: rr.Failed, Load: rr.Load, Obs: rr.Obs}
		}(i, c)
	}
	wg.Wait()
	cfgs := []string{"linux/amd64"}
	for _, cr := range crs {
		cfgs = append(cfgs, cr.Cfg)
		if cr.Load != "" {
			fmt.Printf("VIOLATION-DETAIL config %s: load failed: %s\n", cr.Cfg, cr.Load)
			fmt.Printf("VIOLATION property=%s replay=%s\n", pr.ID, "config:"+cr.Cfg)
			out.code = 1
		}
		for _, f := range cr.Failed {
			fmt.Printf("%s %s %s at %s [config %s]: %s\n", strings.ToUpper(string(f.Status)), f.Rule, f.Key, f.Pos, cr.Cfg, f.Why)
			fmt.Printf("VIOLATION property=%s replay=%s\n", pr.ID, "config:"+cr.Cfg+":"+f.Rule+":"+f.Key)
			out.code = 1
		}
	}
	out.extra["configs"] = cfgs
	out.extra["config_results"] = crs
	// (b) mutant sweep
	ms := listMutants(o.VerifDir, pr.ID)
	rs := sweep(ms, o.RepoDir, 6)
	applied, detected := 0, 0
	var undetected []string
	for _, r := range rs {
		if r.Applied && r.Compiles {
			applied++
			if r.Detected {
				detected++
			} else {
				undetected = append(undetected, r.Name)
			}
		}
	}
	out.extra["mutants_total"] = len(ms)
	out.extra["mutants_applied"] = applied
	out.extra["mutants_detected"] = detected
	out.extra["mutants_undetected"] = undetected
	out.extra["mutant_results"] = rs
	fmt.Printf("%s thorough: %d configs; mutant sweep %d/%d detected (of %d patches)\n", pr.ID, len(cfgs), detected, applied, len(ms))
	return out
}
