package main

import (
	"go/token"
	"go/types"
	"sort"
	"strings"

	"golang.org/x/tools/go/ssa"
)

func init() { register("C15", propC15) }

func propC15() *Property {
	return &Property{
		ID:         "C15",
		Decides:    "R15.1 the stored session deadlines are written only by the three deadline setters (so a deadline bounds every later Read/Write until changed); R15.2 every close() of a lifecycle channel is guarded by a winning CAS / done-check under the owner's mutex / sync.Once (repeatable Close, no double-close panic); R15.3 every blocking channel operation in the session/underlay/mux code selects on a shutdown channel of its owner; R15.4 underlay Close pokes blocked network I/O (past deadline) before closing sessions, under closeMutex after the done check; on a stream connection (net.Conn) the poke must release blocked writes as well, because the output loop can be parked in conn.Write while holding the lock Session.Close needs; R15.5 after RunEventLoop returns - with nil, EOF, closed or any error - the goroutine that ran it calls underlay.Close() on every path.; R15.6 a stored deadline always arms a timer in Read and writeChunk (also when it has already passed); R15.7 Session.Close takes no lock that Read/Write hold across a blocking wait",
		NotDecided: "promptness in seconds, goroutine counts at run time, data-race freedom in general, schedules.",
		Rules: []Rule{
			{ID: "R15.1", Floor: 2, Text: "every store to Session.readDeadline / Session.writeDeadline is in SetDeadline, SetReadDeadline or SetWriteDeadline", Run: r15_1},
			{ID: "R15.2", Floor: 8, Text: "every close(ch) of a struct-field channel in pkg/protocol, apis/client, apis/server is dominated by a winning CompareAndSwap, a sync.Once, or a closed-check of the same channel under a held mutex", Run: r15_2},
			{ID: "R15.3", Floor: 10, Text: "every blocking select/send/receive in pkg/protocol (session, underlay, mux) has a shutdown alternative (closedChan, done, ctx.Done, timer) or a default case", Run: r15_3},
			{ID: "R15.5", Floor: 1, Text: "after RunEventLoop returns, for whatever reason, the goroutine that ran it closes the underlay on every path", Run: r15_5},
			{ID: "R15.6", Floor: 2, Text: "a stored deadline always arms a timer in Read and writeChunk (also when it has already passed)", Run: r15_6},
			{ID: "R15.8", Floor: 1, Text: "the datagram underlay's idle sweep judges a session by what it last received, never by what it sent (a vanished peer is eventually given up and its session, goroutines and blocked callers released)", Run: r15_8},
			{ID: "R15.7", Floor: 2, Text: "Session.Close takes no lock that Read/Write hold across a blocking wait", Run: r15_7},
			{ID: "R15.4", Floor: 2, Text: "StreamUnderlay.Close and PacketUnderlay.Close: closeMutex held, done checked, conn.Set(Read)Deadline called before baseUnderlay.Close", Run: r15_4},
		},
	}
}

func r15_1(c *RC) {
	allowed := map[string]bool{"SetDeadline": true, "SetReadDeadline": true, "SetWriteDeadline": true}
	for _, fname := range []string{"readDeadline", "writeDeadline"} {
		f := c.P.Field("pkg/protocol", "Session", fname)
		if f == nil {
			c.Anchor("pkg/protocol.Session." + fname)
			continue
		}
		sites := c.P.FieldMethodCalls(f, "Store", "Swap", "CompareAndSwap", "Add")
		sites = append(sites, c.P.FieldStores(f)...)
		for _, s := range sites {
			owner := outermost(s.Fn)
			key := "store:Session." + fname + "@" + fnName(s.Fn)
			recvOK := owner.Signature.Recv() != nil && strings.HasSuffix(types.TypeString(owner.Signature.Recv().Type(), nil), "protocol.Session")
			if recvOK && allowed[owner.Name()] && s.Fn == owner {
				c.OK(key, s.Pos(), "deadline setter")
			} else {
				c.Bad(key, s.Pos(), "Session.%s is overwritten outside the deadline setters (in %s): a deadline set by the application no longer bounds later Read/Write calls", fname, fnName(s.Fn))
			}
		}
	}
}

// closeSites: every builtin close() in the scope.
func r15_2(c *RC) {
	for _, fn := range c.P.Funcs("pkg/protocol", "apis/client", "apis/server") {
		instrs(fn, func(b *ssa.BasicBlock, i int, in ssa.Instruction) {
			call, ok := in.(ssa.CallInstruction)
			if !ok {
				return
			}
			bi, ok := call.Common().Value.(*ssa.Builtin)
			if !ok || bi.Name() != "close" {
				return
			}
			ch := call.Common().Args[0]
			fld := fieldOrigin(ch)
			chName := describe(ch)
			if fld != nil {
				chName = fld.Name()
			}
			key := "close:" + chName + "@" + fnName(fn)
			if fld == nil {
				// local channel: closed by its creator; require that the
				// channel is a local make or parameter-free local.
				if _, isMake := ch.(*ssa.MakeChan); isMake {
					c.OK(key, in.Pos(), "locally created channel")
					return
				}
				c.Undecided(key, in.Pos(), "close of a channel that is not a struct field nor a local make: %s", describe(ch))
				return
			}
			if why := closeGuard(c.P, fn, in, fld); why != "" {
				c.OKH(key, in.Pos(), "%s", why)
			} else {
				c.Bad(key, in.Pos(), "close(%s) is not guarded by a winning CompareAndSwap, sync.Once, or a closed-check of the same channel under a mutex: a second Close can panic with 'close of closed channel'", chName)
			}
		})
	}
}

// closeGuard returns a non-empty reason when the close instruction is
// protected against double execution.
func closeGuard(p *Prog, fn *ssa.Function, in ssa.Instruction, ch *types.Var) string {
	// (a) inside the true branch of x.CompareAndSwap(false,true)/(old,new)
	for _, e := range controllingEdges(in.Block()) {
		if cas, ok := e.If.Cond.(*ssa.Call); ok && e.Idx == 0 {
			if sc := cas.Common().StaticCallee(); sc != nil && sc.Name() == "CompareAndSwap" {
				return "inside the winning branch of " + describe(cas)
			}
		}
		// "if !x.CompareAndSwap(false,true) { return }" => we are on the false edge of the negation
		if un, ok := e.If.Cond.(*ssa.UnOp); ok && e.Idx == 1 {
			if cas, ok := un.X.(*ssa.Call); ok {
				if sc := cas.Common().StaticCallee(); sc != nil && sc.Name() == "CompareAndSwap" {
					return "after early return on losing " + describe(cas)
				}
			}
		}
	}
	// (a') dominated by a CAS whose failing edge returns: look for a CAS call
	// dominating the close with the close block only reachable via success edge
	// (covered by controllingEdges above). Also accept: the enclosing function
	// itself is only entered after a winning CAS at its top (closeWithError).
	if first := firstCASGuard(fn); first != "" && fn.Parent() == nil {
		return first
	}
	// (b) closure passed to sync.Once.Do
	if fn.Parent() != nil {
		for _, r := range *fnReferrers(fn) {
			if mc, ok := r.(*ssa.MakeClosure); ok {
				for _, u := range *mc.Referrers() {
					if call, ok := u.(ssa.CallInstruction); ok && calleeID(call) == "(*sync.Once).Do" {
						return "body of sync.Once.Do"
					}
				}
			}
		}
	}
	// (c) a mutex is held (Lock dominates, in this function) and a
	// non-blocking receive from the same channel with early return dominates.
	lockHeld := false
	chkd := false
	instrs(fn, func(b *ssa.BasicBlock, i int, x ssa.Instruction) {
		if cl, ok := x.(ssa.CallInstruction); ok {
			id := calleeID(cl)
			if (id == "(*sync.Mutex).Lock" || id == "(*sync.RWMutex).Lock") && instrDominates(x, in) {
				lockHeld = true
			}
		}
		if instrDominates(x, in) {
			for _, f := range polledChans(x) {
				if sameField(f, ch) {
					chkd = true
				}
			}
		}
	})
	if lockHeld && chkd {
		return "mutex held and the same channel was polled (select/default, return if closed) before close"
	}
	// (d) once-gate through another channel: under a held mutex a guard
	// channel G was polled (return if closed) and G itself is closed on the
	// way to this close, so only the first caller gets here.
	if lockHeld {
		gate := ""
		instrs(fn, func(b *ssa.BasicBlock, i int, x ssa.Instruction) {
			if !instrDominates(x, in) {
				return
			}
			for _, g := range polledChans(x) {
				if g == nil {
					continue
				}
				instrs(fn, func(_ *ssa.BasicBlock, _ int, y ssa.Instruction) {
					if cl, ok := y.(ssa.CallInstruction); ok {
						if bi, ok := cl.Common().Value.(*ssa.Builtin); ok && bi.Name() == "close" && sameField(fieldOrigin(cl.Common().Args[0]), g) && instrDominates(x, y) && instrDominates(y, in) {
							gate = g.Name()
						}
					}
				})
			}
		})
		if gate != "" {
			return "once-gate: channel " + gate + " polled under the mutex (return if closed) and closed before this close on the same path"
		}
	}
	// (e) body of a goroutine started once by the constructor that allocated
	// the owner object, and no other close of this field exists.
	if fn.Parent() != nil {
		par := fn.Parent()
		started := 0
		instrs(par, func(_ *ssa.BasicBlock, _ int, x ssa.Instruction) {
			if g, ok := x.(*ssa.Go); ok {
				if mc, ok := g.Call.Value.(*ssa.MakeClosure); ok && mc.Fn == fn {
					started++
				}
			}
		})
		allocatesOwner := false
		instrs(par, func(_ *ssa.BasicBlock, _ int, x ssa.Instruction) {
			if a, ok := x.(*ssa.Alloc); ok && a.Heap {
				if st, ok := a.Type().(*types.Pointer).Elem().Underlying().(*types.Struct); ok {
					for i := 0; i < st.NumFields(); i++ {
						if sameField(st.Field(i), ch) {
							allocatesOwner = true
						}
					}
				}
			}
		})
		if started == 1 && allocatesOwner && countCloses(p, ch) == 1 && !inLoop(par, fn) {
			return "closed by the single goroutine the constructor " + fnName(par) + " starts for the object it allocates (only close site of this field)"
		}
	}
	// (f) admission: the close is reachable only on the nil-error edge of a
	// call whose callee refuses a second admission (sync.Map.LoadOrStore
	// loaded => error).
	for _, call := range nilErrCalls(in) {
		if sc := call.Common().StaticCallee(); sc != nil && refusesSecondAdmission(sc) {
			return "reached only after " + fnName(sc) + " returned nil, which refuses an already admitted object (LoadOrStore loaded => error)"
		}
	}
	if chkd {
		// the lock may be held by the caller (documented contract): check all callers
		callers := p.CallsToFn(fn)
		all := len(callers) > 0
		for _, cs := range callers {
			held := false
			instrs(cs.Fn, func(_ *ssa.BasicBlock, _ int, x ssa.Instruction) {
				if cl, ok := x.(ssa.CallInstruction); ok {
					id := calleeID(cl)
					if (id == "(*sync.Mutex).Lock" || id == "(*sync.RWMutex).Lock") && instrDominates(x, cs.Instr) {
						held = true
					}
				}
			})
			if !held {
				all = false
			}
		}
		if all {
			return "same channel polled before close and every static caller holds a mutex across the call"
		}
	}
	// (g) the close sits in an unexported helper (the tail of a Close method
	// split off): guarded when every call of the helper is guarded the same way
	if fn.Parent() == nil && fn.Object() != nil && !fn.Object().Exported() && !closeGuardBusy[fn] {
		closeGuardBusy[fn] = true
		defer delete(closeGuardBusy, fn)
		callers := p.CallsToFn(fn)
		why := ""
		for _, cs := range callers {
			w := closeGuard(p, cs.Fn, cs.Instr, ch)
			if w == "" {
				return ""
			}
			why = w
		}
		if len(callers) > 0 {
			return "every call of " + fn.Name() + " is guarded: " + why
		}
	}
	return ""
}

var closeGuardBusy = map[*ssa.Function]bool{}

func fnReferrers(fn *ssa.Function) *[]ssa.Instruction {
	var out []ssa.Instruction
	if fn.Parent() != nil {
		instrs(fn.Parent(), func(_ *ssa.BasicBlock, _ int, in ssa.Instruction) {
			if mc, ok := in.(*ssa.MakeClosure); ok && mc.Fn == fn {
				out = append(out, mc)
			}
		})
	}
	return &out
}

// firstCASGuard: the function begins with "if !x.CompareAndSwap(..) {return}"
// i.e. a CAS call in the entry block whose failing edge leads to a return
// without side effects.
func firstCASGuard(fn *ssa.Function) string {
	if len(fn.Blocks) == 0 {
		return ""
	}
	b := fn.Blocks[0]
	iff, ok := b.Instrs[len(b.Instrs)-1].(*ssa.If)
	if !ok {
		return ""
	}
	var cas *ssa.Call
	failIdx := 1
	switch x := iff.Cond.(type) {
	case *ssa.Call:
		cas = x
	case *ssa.UnOp:
		if cl, ok := x.X.(*ssa.Call); ok {
			cas = cl
			failIdx = 0
		}
	}
	if cas == nil {
		return ""
	}
	if sc := cas.Common().StaticCallee(); sc == nil || sc.Name() != "CompareAndSwap" {
		return ""
	}
	fb := b.Succs[failIdx]
	for _, in := range fb.Instrs {
		if _, ok := in.(*ssa.Return); ok {
			return "function entered past a winning " + describe(cas) + " (losing edge returns immediately)"
		}
	}
	return ""
}

func r15_3(c *RC) {
	shutdownNames := map[string]bool{"closedChan": true, "done": true, "inputErr": true, "outputErr": true, "closeDone": true, "maintenanceDone": true}
	for _, fn := range c.P.Funcs("pkg/protocol", "apis/client", "apis/server") {
		if rp := relPkg(fn); rp != "pkg/protocol" && rp != "apis/client" && rp != "apis/server" {
			continue
		}
		instrs(fn, func(b *ssa.BasicBlock, i int, in ssa.Instruction) {
			switch x := in.(type) {
			case *ssa.Select:
				key := "select@" + fnName(fn)
				if !x.Blocking {
					c.OK(key, x.Pos(), "non-blocking select (default case)")
					return
				}
				names := shutdownNames
				if of := outermost(fn); of.Signature.Recv() != nil && strings.HasSuffix(of.Signature.Recv().Type().String(), "protocol.Session") {
					// Session.Close closes closedChan, nothing else: the error
					// channels do not fire on a plain Close.
					names = map[string]bool{"closedChan": true, "done": true}
				}
				for _, st := range x.States {
					if isShutdownChan(st.Chan, names) {
						c.OKH(key, x.Pos(), "blocking select has shutdown alternative %s", describe(st.Chan))
						return
					}
				}
				c.Bad(key, x.Pos(), "blocking select without a shutdown alternative (closedChan/done/ctx.Done/timer): Close cannot release this goroutine")
			case *ssa.Send:
				key := "send@" + fnName(fn)
				c.Bad(key, x.Pos(), "bare blocking channel send on %s outside a select", describe(x.Chan))
			case *ssa.UnOp:
				if x.Op.String() != "<-" {
					return
				}
				key := "recv@" + fnName(fn)
				if isShutdownChan(x.X, shutdownNames) {
					c.OK(key, x.Pos(), "receive from termination/timer channel %s", describe(x.X))
					return
				}
				c.Bad(key, x.Pos(), "bare blocking receive from %s outside a select", describe(x.X))
			}
		})
	}
}

func isShutdownChan(v ssa.Value, names map[string]bool) bool {
	if f := fieldOrigin(v); f != nil && names[f.Name()] {
		return true
	}
	for _, l := range Leaves(v, nil) {
		if call, ok := l.(*ssa.Call); ok {
			id := calleeID(call)
			switch id {
			case "iface:context.Context.Done", "(*" + modPath + "/pkg/protocol.baseUnderlay).Done":
				return true
			}
			if strings.HasSuffix(id, ".Done") {
				return true
			}
		}
		if f := fieldOrigin(l); f != nil && names[f.Name()] {
			return true
		}
	}
	return false
}

func r15_4(c *RC) {
	for _, tn := range []string{"StreamUnderlay", "PacketUnderlay"} {
		fn := c.P.Fn("pkg/protocol", tn+".Close")
		if fn == nil {
			c.Anchor("pkg/protocol." + tn + ".Close")
			continue
		}
		var lock, poke, base, donePoll ssa.Instruction
		pokeR, pokeW := false, false
		// A stream connection (net.Conn) can block in Write under
		// back-pressure while the output loop holds the session's output
		// lock, which Session.Close needs: the poke must release writes too.
		needW := false
		if f := c.P.Field("pkg/protocol", tn, "conn"); f != nil {
			if nt, ok := f.Type().(*types.Named); ok && nt.Obj().Name() == "Conn" {
				needW = true
			}
		}
		instrs(fn, func(_ *ssa.BasicBlock, _ int, in ssa.Instruction) {
			if cl, ok := in.(ssa.CallInstruction); ok {
				if _, isDefer := in.(*ssa.Defer); isDefer {
					return
				}
				id := calleeID(cl)
				switch {
				case id == "(*sync.Mutex).Lock":
					if f := fieldOrigin(callArgs(cl)[0]); f != nil && f.Name() == "closeMutex" && lock == nil {
						lock = in
					}
				case strings.HasSuffix(id, ".SetDeadline") || strings.HasSuffix(id, ".SetReadDeadline") || strings.HasSuffix(id, ".SetWriteDeadline") || strings.HasSuffix(id, "Conn.Close"):
					if f := fieldOrigin(callArgs(cl)[0]); f != nil && f.Name() == "conn" {
						if !strings.HasSuffix(id, ".SetWriteDeadline") {
							pokeR = true
							if poke == nil {
								poke = in
							}
						}
						if !strings.HasSuffix(id, ".SetReadDeadline") {
							pokeW = true
						}
					}
				case strings.HasSuffix(id, "protocol.baseUnderlay).Close"):
					base = in
				}
			}
			for _, f := range polledChans(in) {
				if f != nil && f.Name() == "done" && donePoll == nil {
					donePoll = in
				}
			}
		})
		key := "close-order@" + tn
		switch {
		case base == nil:
			c.Bad(key, fn.Pos(), "%s.Close does not call baseUnderlay.Close", tn)
		case lock == nil || !instrDominates(lock, base):
			c.Bad(key, fn.Pos(), "%s.Close: closeMutex.Lock does not dominate baseUnderlay.Close", tn)
		case donePoll == nil || !instrDominates(donePoll, base):
			c.Bad(key, fn.Pos(), "%s.Close: the done channel is not polled before baseUnderlay.Close (repeat Close would double-close)", tn)
		case poke == nil || !instrDominates(poke, base):
			c.Bad(key, fn.Pos(), "%s.Close: conn.Set(Read)Deadline(now) does not precede baseUnderlay.Close: the event loop blocked in a network read is not released before the sessions are waited for", tn)
		case !pokeR:
			c.Bad(key, fn.Pos(), "%s.Close releases no blocked read before waiting for the sessions", tn)
		case needW && !pokeW:
			c.Bad(key, fn.Pos(), "%s.Close releases only blocked reads: on a stream connection the output loop can be parked in conn.Write (peer stopped reading) while holding the session output lock that Session.Close needs, so Close never returns", tn)
		default:
			c.OKH(key, fn.Pos(), "closeMutex.Lock ≺ done poll ≺ conn deadline poke (read%s) ≺ baseUnderlay.Close (dominance)", map[bool]string{true: "+write", false: ""}[pokeW])
		}
	}
}

func countCloses(p *Prog, ch *types.Var) int {
	n := 0
	for _, fn := range p.allFns {
		instrs(fn, func(_ *ssa.BasicBlock, _ int, x ssa.Instruction) {
			if cl, ok := x.(ssa.CallInstruction); ok {
				if bi, ok := cl.Common().Value.(*ssa.Builtin); ok && bi.Name() == "close" && sameField(fieldOrigin(cl.Common().Args[0]), ch) {
					n++
				}
			}
		})
	}
	return n
}

// inLoop: is the go statement that starts closure fn inside a loop of par?
func inLoop(par, fn *ssa.Function) bool {
	res := false
	instrs(par, func(b *ssa.BasicBlock, _ int, x ssa.Instruction) {
		if g, ok := x.(*ssa.Go); ok {
			if mc, ok := g.Call.Value.(*ssa.MakeClosure); ok && mc.Fn == fn {
				// block in a cycle?
				reach := blockReach(b, nil)
				for _, s := range b.Succs {
					_ = s
				}
				for _, pr := range b.Preds {
					if reach[pr] && blockReach(b, nil)[b] && reachesSelf(b) {
						res = true
					}
				}
			}
		}
	})
	return res
}

func reachesSelf(b *ssa.BasicBlock) bool {
	seen := map[*ssa.BasicBlock]bool{}
	work := append([]*ssa.BasicBlock(nil), b.Succs...)
	for len(work) > 0 {
		x := work[len(work)-1]
		work = work[:len(work)-1]
		if x == b {
			return true
		}
		if seen[x] {
			continue
		}
		seen[x] = true
		work = append(work, x.Succs...)
	}
	return false
}

// nilErrCalls returns the calls whose error result is known to be nil at
// instruction in (in is only reachable through the "err == nil" edge).
func nilErrCalls(in ssa.Instruction) []*ssa.Call {
	var out []*ssa.Call
	for _, e := range controllingEdges(in.Block()) {
		bo, ok := e.If.Cond.(*ssa.BinOp)
		if !ok {
			continue
		}
		var v ssa.Value
		if isNilConst(bo.Y) {
			v = bo.X
		} else if isNilConst(bo.X) {
			v = bo.Y
		} else {
			continue
		}
		nilEdge := -1
		switch bo.Op.String() {
		case "!=":
			nilEdge = 1
		case "==":
			nilEdge = 0
		}
		if e.Idx != nilEdge {
			continue
		}
		for _, l := range Leaves(v, nil) {
			switch x := l.(type) {
			case *ssa.Call:
				out = append(out, x)
			case *ssa.Extract:
				if cl, ok := x.Tuple.(*ssa.Call); ok {
					out = append(out, cl)
				}
			}
		}
	}
	return out
}

func refusesSecondAdmission(f *ssa.Function) bool {
	ok := false
	instrs(f, func(_ *ssa.BasicBlock, _ int, x ssa.Instruction) {
		if cl, isCall := x.(*ssa.Call); isCall && calleeID(cl) == "(*sync.Map).LoadOrStore" {
			// loaded result must control a return of a non-nil error
			for _, r := range *cl.Referrers() {
				if ex, isEx := r.(*ssa.Extract); isEx && ex.Index == 1 {
					for _, u := range *ex.Referrers() {
						if iff, isIf := u.(*ssa.If); isIf {
							tb := iff.Block().Succs[0]
							for _, y := range tb.Instrs {
								if ret, isRet := y.(*ssa.Return); isRet && len(ret.Results) > 0 && !isNilConst(ret.Results[len(ret.Results)-1]) {
									ok = true
								}
							}
						}
					}
				}
			}
		}
	})
	return ok
}

// r15_5: every goroutine that runs an underlay's event loop closes that
// underlay when the loop returns, whatever it returned: a peer that went away
// (EOF, closed, nil) must still release the sessions blocked on it.
func r15_5(c *RC) {
	p := c.P
	n := 0
	for _, fn := range p.Funcs("pkg/protocol") {
		instrs(fn, func(_ *ssa.BasicBlock, _ int, in ssa.Instruction) {
			cl, ok := in.(*ssa.Call)
			if !ok || !cl.Call.IsInvoke() || cl.Call.Method.Name() != "RunEventLoop" {
				return
			}
			if strings.HasSuffix(strings.SplitN(p.Pos(in.Pos()), ":", 2)[0], "_test.go") {
				return
			}
			n++
			recv := cl.Call.Value
			isClose := func(x ssa.Instruction) bool {
				xc, ok := x.(ssa.CallInstruction)
				if !ok || !xc.Common().IsInvoke() || xc.Common().Method.Name() != "Close" {
					return false
				}
				return sameRoot(xc.Common().Value, recv)
			}
			key := "event-loop-exit-closes@" + fnName(outermost(fn))
			// deferred Close counts
			deferred := false
			instrs(fn, func(_ *ssa.BasicBlock, _ int, x ssa.Instruction) {
				if d, ok := x.(*ssa.Defer); ok && isClose(d) && instrDominates(x, in) {
					deferred = true
				}
			})
			if deferred {
				c.OKH(key, in.Pos(), "underlay.Close() is deferred before the event loop starts")
				return
			}
			hit := reachableAvoiding(fn, in, isReturn, func(x ssa.Instruction) bool {
				if _, d := x.(*ssa.Defer); d {
					return false
				}
				return isClose(x)
			})
			if hit == nil {
				c.OKH(key, in.Pos(), "every path from RunEventLoop's return to the end of the goroutine passes underlay.Close()")
			} else {
				c.Bad(key, in.Pos(), "after RunEventLoop returns the goroutine can end at %s without closing the underlay: when the peer goes away (EOF / closed / nil) the sessions on it are never closed and their blocked Read/Write hang", p.Pos(hit.Pos()))
			}
		})
	}
	if n == 0 {
		c.Undecided("event-loop-exit-closes", token.NoPos, "no RunEventLoop call found")
	}
}

// sameRoot: two values load the same variable (free variable cell, alloc) or are identical.
func sameRoot(a, b ssa.Value) bool {
	if a == b {
		return true
	}
	ua, ok1 := a.(*ssa.UnOp)
	ub, ok2 := b.(*ssa.UnOp)
	if ok1 && ok2 && ua.Op == token.MUL && ub.Op == token.MUL {
		return ua.X == ub.X
	}
	return false
}

// r15_6: a stored deadline always arms a timer. In Session.Read and
// Session.writeChunk the timer channel for the blocking select is created
// whenever the loaded deadline is non-zero: its creation is control
// dependent on nothing but comparisons of the loaded deadlines (and the
// len(b)==0 fast path). A deadline that already lies in the past must still
// produce a channel that fires (seed C15c skipped the timer for d <= 0, so an
// expired deadline stopped bounding the call).
func r15_6(c *RC) {
	p := c.P
	for _, fname := range []string{"Session.Read", "Session.writeChunk"} {
		fn := p.Fn("pkg/protocol", fname)
		if fn == nil {
			c.Anchor("pkg/protocol." + fname)
			continue
		}
		n := 0
		// the timer may be created in a helper of fn (readDeadlineChan())
		for _, host := range withHelpers(p, fn, 2) {
			host := host
			instrs(host, func(b *ssa.BasicBlock, _ int, in ssa.Instruction) {
				cl, ok := in.(*ssa.Call)
				if !ok {
					return
				}
				id := calleeID(cl)
				if id != "time.After" && id != "time.NewTimer" && id != "time.AfterFunc" {
					return
				}
				// only timers whose duration derives from a stored deadline
				fromDeadline := false
				var walk func(v ssa.Value, d int)
				seen := map[ssa.Value]bool{}
				walk = func(v ssa.Value, d int) {
					if v == nil || seen[v] || d > 10 {
						return
					}
					seen[v] = true
					switch x := v.(type) {
					case *ssa.Call:
						if calleeName(x) == "Load" {
							if f := fieldOrigin(x.Call.Args[0]); f != nil && strings.HasSuffix(f.Name(), "Deadline") {
								fromDeadline = true
							}
						}
						for _, a := range x.Call.Args {
							walk(a, d+1)
						}
					case *ssa.Phi:
						for _, e := range x.Edges {
							walk(e, d+1)
						}
					case *ssa.BinOp:
						walk(x.X, d+1)
						walk(x.Y, d+1)
					case *ssa.Convert:
						walk(x.X, d+1)
					}
				}
				walk(cl.Call.Args[0], 0)
				if !fromDeadline {
					return
				}
				n++
				classify := func(v ssa.Value) string {
					switch x := v.(type) {
					case *ssa.Call:
						if b, ok := x.Call.Value.(*ssa.Builtin); ok && b.Name() == "len" {
							return "len"
						}
						switch calleeName(x) {
						case "Load":
							if f := fieldOrigin(x.Call.Args[0]); f != nil && strings.HasSuffix(f.Name(), "Deadline") {
								return "deadline"
							}
						case "IsLevelEnabled":
							return "logging"
						}
						return "?" + calleeName(x)
					case *ssa.Parameter:
						return "arg"
					}
					return ""
				}
				seenV := map[string]bool{}
				gate := []*ssa.BasicBlock{b}
				if chain, ok := callChain(p, fn, host, 2); ok {
					for _, cs := range chain {
						gate = append(gate, cs.Block())
					}
				} else {
					seenV["?call-sites-of-"+host.Name()] = true
				}
				for _, gb := range gate {
					for _, ce := range controlConds(gb.Parent(), gb) {
						for _, k := range condVocab(ce.If.Cond, classify) {
							seenV[k] = true
						}
					}
				}
				var foreign []string
				for k := range seenV {
					if strings.HasPrefix(k, "?") {
						foreign = append(foreign, k[1:])
					}
				}
				key := "deadline-arms-timer@" + fname
				if len(foreign) == 0 && seenV["deadline"] {
					c.OKH(key, in.Pos(), "the timer is created whenever the loaded deadline is non-zero")
				} else {
					c.Bad(key, in.Pos(), "%s creates the deadline timer only under a condition on %v: for some stored deadlines (e.g. one that already passed) no timer exists and the call is no longer bounded by the deadline", fname, foreign)
				}
			})
		}
		if n == 0 {
			c.Bad("deadline-arms-timer@"+fname, fn.Pos(), "%s creates no timer from the stored deadline", fname)
		}
	}
}

// r15_7: Close must not wait for a lock that a blocked Read or Write holds.
// The locks a Session method keeps while it waits in a blocking select (or
// in a callee that does) are computed from the code; nothing reachable from
// Session.Close by static calls may take one of them (seed C15d took wLock in
// Close: with a writer stuck in back-pressure Close never returns).
func r15_7(c *RC) {
	p := c.P
	isSessionMethod := func(fn *ssa.Function) bool {
		of := outermost(fn)
		return of.Signature.Recv() != nil && strings.HasSuffix(of.Signature.Recv().Type().String(), "protocol.Session")
	}
	// a wait that only Close (or a deadline) ends: a blocking select, or a
	// polling select on closedChan inside a loop (the back-pressure loops of
	// writeChunk poll with a default case and sleep)
	isWait := func(x *ssa.Select) bool {
		if x.Blocking {
			return true
		}
		if !reachesSelf(x.Block()) {
			return false
		}
		polls := false
		for _, st := range x.States {
			if f := fieldOrigin(st.Chan); f != nil && f.Name() == "closedChan" {
				polls = true
			}
		}
		if !polls {
			return false
		}
		// the loop sleeps between polls: it is waiting for something, not
		// merely checking once per unit of work
		from := blockReach(x.Block(), nil)
		for _, lb := range x.Block().Parent().Blocks {
			if !from[lb] || !blockReach(lb, nil)[x.Block()] {
				continue
			}
			for _, in := range lb.Instrs {
				if cl, ok := in.(*ssa.Call); ok && calleeID(cl) == "time.Sleep" {
					return true
				}
			}
		}
		return false
	}
	// does fn (transitively, static calls inside pkg/protocol, depth <= 3) wait in a blocking select?
	memo := map[*ssa.Function]int{}
	var waits func(fn *ssa.Function, d int) bool
	waits = func(fn *ssa.Function, d int) bool {
		if fn == nil || fn.Blocks == nil || d > 3 {
			return false
		}
		if v, ok := memo[fn]; ok {
			return v == 1
		}
		memo[fn] = 0
		res := false
		instrs(fn, func(_ *ssa.BasicBlock, _ int, in ssa.Instruction) {
			switch x := in.(type) {
			case *ssa.Select:
				if isWait(x) {
					res = true
				}
			case *ssa.Call:
				if sc := x.Call.StaticCallee(); sc != nil && relPkg(sc) == "pkg/protocol" && isSessionMethod(sc) {
					if waits(sc, d+1) {
						res = true
					}
				}
			}
		})
		if res {
			memo[fn] = 1
		}
		return res
	}
	heldWhileWaiting := map[lockID]string{}
	for _, fn := range p.Funcs("pkg/protocol") {
		if !isSessionMethod(fn) {
			continue
		}
		instrs(fn, func(_ *ssa.BasicBlock, _ int, in ssa.Instruction) {
			if _, isDefer := in.(*ssa.Defer); isDefer {
				return
			}
			id, kind, ok := lockCall(in)
			if !ok || (kind != "Lock" && kind != "RLock") || !strings.HasPrefix(string(id), "protocol.Session.") {
				return
			}
			for x := range heldRegion(fn, in, id) {
				switch y := x.(type) {
				case *ssa.Select:
					if isWait(y) {
						heldWhileWaiting[id] = fnName(fn)
					}
				case *ssa.Call:
					if sc := y.Call.StaticCallee(); sc != nil && isSessionMethod(sc) && waits(sc, 0) {
						heldWhileWaiting[id] = fnName(fn) + " -> " + fnName(sc)
					}
				}
			}
		})
	}
	if len(heldWhileWaiting) == 0 {
		c.Undecided("locks-held-while-waiting", token.NoPos, "no Session lock is held across a blocking wait: the rule has nothing to protect (did Read/Write change?)")
		return
	}
	var names []string
	for id, where := range heldWhileWaiting {
		names = append(names, string(id)+" ("+where+")")
	}
	sort.Strings(names)
	c.OK("locks-held-while-waiting", token.NoPos, "held across blocking waits: %s", strings.Join(names, "; "))
	// functions reachable from Session.Close
	closeFn := p.Fn("pkg/protocol", "Session.Close")
	if closeFn == nil {
		c.Anchor("pkg/protocol.Session.Close")
		return
	}
	seen := map[*ssa.Function]bool{}
	var bad []string
	var visit func(fn *ssa.Function, d int)
	visit = func(fn *ssa.Function, d int) {
		if fn == nil || fn.Blocks == nil || seen[fn] || d > 5 {
			return
		}
		seen[fn] = true
		instrs(fn, func(_ *ssa.BasicBlock, _ int, in ssa.Instruction) {
			if _, isDefer := in.(*ssa.Defer); !isDefer {
				if id, kind, ok := lockCall(in); ok && (kind == "Lock" || kind == "RLock") {
					if where, held := heldWhileWaiting[id]; held {
						bad = append(bad, fnName(fn)+" takes "+string(id)+" at "+p.Pos(in.Pos())+", which "+where+" holds while it waits")
					}
				}
			}
			if cl, ok := in.(ssa.CallInstruction); ok {
				if _, isGo := in.(*ssa.Go); isGo {
					return
				}
				if sc := cl.Common().StaticCallee(); sc != nil && relPkg(sc) == "pkg/protocol" && isSessionMethod(sc) {
					visit(sc, d+1)
				}
			}
		})
	}
	visit(closeFn, 0)
	if len(bad) == 0 {
		c.OKH("close-takes-no-waiting-lock", closeFn.Pos(), "nothing reachable from Session.Close (%d functions) takes a lock that Read/Write hold while blocked", len(seen))
	} else {
		c.Bad("close-takes-no-waiting-lock", closeFn.Pos(), "%s: Close then waits for the very call it is supposed to release, and neither returns", strings.Join(bad, "; "))
	}
}

// polledChans: the channel fields an instruction polls without blocking -
// directly (select with default) or through a small helper whose body is
// such a poll and nothing else that blocks (func (b *T) isDone() bool).
func polledChans(in ssa.Instruction) []*types.Var {
	var out []*types.Var
	switch x := in.(type) {
	case *ssa.Select:
		if !x.Blocking {
			for _, st := range x.States {
				if f := fieldOrigin(st.Chan); f != nil {
					out = append(out, f)
				}
			}
		}
	case *ssa.Call:
		sc := x.Call.StaticCallee()
		if sc == nil || sc.Blocks == nil || len(sc.Blocks) > 8 || sc.Signature.Results().Len() != 1 {
			return nil
		}
		if bt, ok := sc.Signature.Results().At(0).Type().Underlying().(*types.Basic); !ok || bt.Kind() != types.Bool {
			return nil
		}
		nsel, other := 0, false
		var fields []*types.Var
		instrs(sc, func(_ *ssa.BasicBlock, _ int, y ssa.Instruction) {
			switch z := y.(type) {
			case *ssa.Select:
				nsel++
				if z.Blocking {
					other = true
				}
				for _, st := range z.States {
					if f := fieldOrigin(st.Chan); f != nil {
						fields = append(fields, f)
					}
				}
			case *ssa.Call, *ssa.Go, *ssa.Send, *ssa.Store:
				other = true
			}
		})
		if nsel == 1 && !other {
			out = fields
		}
	}
	return out
}


// r15_8: a UDP session whose peer has vanished is released by the idle sweep
// of PacketUnderlay.cleanSessions. Its own heartbeats keep lastTXTime fresh
// for ever, so the sweep must look at lastRXTime alone: the code that decides
// "idle" (cleanSessions, its Range callback and any helper they call) loads
// lastRXTime and never lastTXTime.
func r15_8(c *RC) {
	p := c.P
	fn := p.Fn(protoPkg, "PacketUnderlay.cleanSessions")
	rx := p.Field(protoPkg, "Session", "lastRXTime")
	tx := p.Field(protoPkg, "Session", "lastTXTime")
	if fn == nil || rx == nil {
		c.Anchor("PacketUnderlay.cleanSessions / Session.lastRXTime")
		return
	}
	usesRX := false
	var usesTX ssa.Instruction
	removes := false
	for _, f := range withHelpers(p, fn, 3) {
		// RemoveSession itself is the releasing action, not part of the decision
		if f.Name() == "RemoveSession" {
			continue
		}
		instrs(f, func(_ *ssa.BasicBlock, _ int, in ssa.Instruction) {
			if n, _ := atomicCallOn(in, rx); n == "Load" {
				usesRX = true
			}
			if tx != nil {
				if n, _ := atomicCallOn(in, tx); n == "Load" {
					usesTX = in
				}
			}
			if cl, ok := in.(ssa.CallInstruction); ok && calleeName(cl) == "RemoveSession" {
				removes = true
			}
		})
	}
	switch {
	case !removes:
		c.Bad("idle-sweep-by-receipt", fn.Pos(), "cleanSessions no longer removes sessions")
	case usesTX != nil:
		c.Bad("idle-sweep-by-receipt", usesTX.Pos(), "the idle sweep takes the session's own last transmission into account: the 5 s heartbeat keeps lastTXTime fresh, so a session whose peer has vanished never looks idle, is never released, and a Read blocked on it never returns")
	case !usesRX:
		c.Bad("idle-sweep-by-receipt", fn.Pos(), "the idle sweep does not consult lastRXTime")
	default:
		c.OKH("idle-sweep-by-receipt", fn.Pos(), "idle = now - lastRXTime > idleSessionTimeout; lastTXTime takes no part")
	}
}
