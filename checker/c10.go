package main

import (
	"fmt"
	"go/constant"
	"go/token"
	"go/types"
	"os"
	"sort"
	"strings"

	"golang.org/x/tools/go/ssa"
)

func init() { register("C10", propC10) }

func propC10() *Property {
	return &Property{
		ID:         "C10",
		Decides:    "the process has no recover(), so every panic is fatal; decided: R10.1a every error that can reach the stream event loop's error-type panics is a typed error (WrapErrorWithType with a known constant) or forwarded from a function for which that holds; R10.1b the dynamic type of a segment's metadata is a function of its protocol byte (two implementers, constant family-consistent protocol in every constructor, Unmarshal stores only a protocol of its own family, metadata never nil) and every unchecked type assertion on metadata is reachable only for protocols of the asserted family (constant propagation over the 16 protocol numbers, through callers); R10.1c only session/data segments are inserted into a segment tree; R10.1d a mismatch between the user of a session's cipher and the user of the cipher that decrypted a segment never leads to a panic; R10.1e inventory: every explicit panic in the network-facing packages is classified in a table confirmed by reading (constructor/configuration misuse with constant arguments verified by folding, internal invariants with the rule that maintains them) — an unclassified panic site fails the check; R10.4 no arithmetic is performed on a narrow unsigned value read from a packet before it is widened (wrap-around then slice).; R10.5 narrow-typed arithmetic on a parsed metadata length field is covered by an unconditional parse-time bound; R10.6 reader contract: every Read/ReadFrom implementation returns a count within len(p); R10.7 user names are filtered by byte length against MaxUserNameLen where the registry is built, the very measure under which the cipher's hint functions panic; R10.8 every sync/atomic.Value receives values whose statically determinable dynamic types agree",
		NotDecided: "run-time panics without an explicit panic statement other than the narrow-arithmetic pattern: nil dereferences, slice bounds in general, division by zero, atomic.Value type mismatches (F9: not demonstrable on production paths, not armed), resource exhaustion, panics inside the standard library and protobuf.",
		Rules: []Rule{
			{ID: "R10.1a", Floor: 15, Text: "StreamUnderlay.readOneSegment/readSessionSegment/readDataAckSegment return only nil, WrapErrorWithType(_, T) with T in {PROTOCOL,NETWORK,CRYPTO,REPLAY}, or an error forwarded from one of these functions", Run: r10_1a},
			{ID: "R10.1b", Floor: 20, Text: "metadata typing invariant and unchecked assertions", Run: r10_1b},
			{ID: "R10.1c", Floor: 8, Text: "segmentTree.Insert receives only session or data segments (locally built with such a protocol, taken from another tree, or a parameter whose callers pass only such protocols)", Run: r10_1c},
			{ID: "R10.1d", Floor: 1, Text: "Session.input: the comparison between the session cipher's user and the segment cipher's user has no panic on its mismatch edge", Run: r10_1d},
			{ID: "R10.1e", Floor: 40, Text: "every explicit panic in pkg/protocol, pkg/socks5, pkg/cipher, pkg/replay, pkg/metrics, pkg/congestion, pkg/rng, pkg/common, apis/* is classified", Run: r10_1e},
			{ID: "R10.4", Floor: 3, Text: "no +,*,<< on uint8/uint16 operands loaded from a byte slice before conversion to a wider integer (length octets must be widened first)", Run: r10_4},
			{ID: "R10.5", Floor: 1, Text: "narrow-typed arithmetic on a parsed metadata length field is covered by an unconditional parse-time bound", Run: r10_5},
			{ID: "R10.6", Floor: 10, Text: "reader contract: every Read/ReadFrom implementation returns a count within len(p)", Run: r10_6},
			{ID: "R10.7", Floor: 1, Text: "the registry refuses user names by the measure the cipher panics on (byte length > MaxUserNameLen)", Run: r10_7},
			{ID: "R10.8", Floor: 2, Text: "stores into one sync/atomic.Value have agreeing (determinable) dynamic types", Run: r10_8},
		},
	}
}

// ------------------------------------------------------------------ R10.1a

func r10_1a(c *RC) {
	p := c.P
	names := []string{"StreamUnderlay.readOneSegment", "StreamUnderlay.readSessionSegment", "StreamUnderlay.readDataAckSegment"}
	set := map[*ssa.Function]bool{}
	for _, n := range names {
		fn := p.Fn(protoPkg, n)
		if fn == nil {
			c.Anchor(n)
			return
		}
		set[fn] = true
	}
	okTypes := map[string]bool{}
	for _, n := range []string{"PROTOCOL_ERROR", "NETWORK_ERROR", "CRYPTO_ERROR", "REPLAY_ERROR"} {
		if k := p.Const("pkg/stderror", n); k != nil {
			okTypes[k.(*types.Const).Val().ExactString()] = true
		}
	}
	if len(okTypes) != 4 {
		c.Anchor("pkg/stderror error type constants")
		return
	}
	// helpers of the read path (functions of this package whose error these
	// functions forward) are held to the same rule: the set grows as they are
	// discovered
	work := []*ssa.Function{}
	for fn := range set {
		work = append(work, fn)
	}
	sort.Slice(work, func(i, j int) bool { return fnName(work[i]) < fnName(work[j]) })
	for len(work) > 0 {
		fn := work[0]
		work = work[1:]
		instrs(fn, func(b *ssa.BasicBlock, _ int, in ssa.Instruction) {
			r, ok := in.(*ssa.Return)
			if !ok || len(r.Results) < 1 {
				return
			}
			if !types.Identical(fn.Signature.Results().At(len(r.Results)-1).Type(), types.Universe.Lookup("error").Type()) {
				return
			}
			if b.Comment == "recover" {
				return
			}
			key := "error-return@" + fnName(fn)
			v := retVal(r, len(r.Results)-1)
			if isNilConst(v) {
				c.OK(key, r.Pos(), "nil error")
				return
			}
			bad := ""
			for _, l := range Leaves(v, nil) {
				switch x := l.(type) {
				case *ssa.Call:
					if calleeName(x) == "WrapErrorWithType" {
						k, isK := x.Common().Args[1].(*ssa.Const)
						if !isK || !okTypes[k.Value.ExactString()] {
							bad = "WrapErrorWithType with type " + describe(x.Common().Args[1])
						}
						continue
					}
					bad = "result of " + strings.ReplaceAll(calleeID(x), modPath+"/", "")
				case *ssa.Extract:
					if call, ok := x.Tuple.(*ssa.Call); ok {
						sc := call.Common().StaticCallee()
						if set[sc] {
							continue
						}
						if sc != nil && sc.Blocks != nil && relPkg(sc) == protoPkg && !strings.HasSuffix(p.Pos(sc.Pos()), "_test.go") {
							set[sc] = true
							work = append(work, sc)
							continue
						}
					}
					bad = "result of " + describe(x)
				case *ssa.Const:
					if x.Value != nil {
						bad = "constant"
					}
				default:
					bad = describe(l)
				}
			}
			if bad == "" {
				c.OKH(key, r.Pos(), "typed error (or forwarded from a function with typed errors)")
			} else {
				c.Bad(key, r.Pos(), "%s can return an error that is %s, not a stderror.TypedError of a known type: StreamUnderlay.RunEventLoop panics on NO_ERROR/UNKNOWN_ERROR, so a peer that provokes this error crashes the process", fnName(fn), bad)
			}
		})
	}
	// the panics exist / the loop classifies with GetErrorType
	if el := p.Fn(protoPkg, "StreamUnderlay.RunEventLoop"); el != nil {
		n := 0
		instrs(el, func(_ *ssa.BasicBlock, _ int, in ssa.Instruction) {
			if _, ok := in.(*ssa.Panic); ok && in.Pos().IsValid() {
				n++
			}
		})
		c.Info("event_loop_panics", n)
	}
}

// ------------------------------------------------------------------ R10.1b

func protoFamilies(p *Prog) (session, dataack map[int64]bool) {
	session, dataack = map[int64]bool{}, map[int64]bool{}
	for n, v := range protocolConsts(p) {
		switch {
		case strings.Contains(n, "Session"):
			session[v] = true
		case strings.HasPrefix(n, "data") || strings.HasPrefix(n, "ack"):
			dataack[v] = true
		}
	}
	return
}

// reachSet: protocols k in 0..15 for which evaluation of fn with Protocol()==k
// (and b[0]==k for Unmarshal) can reach instr.
func reachSet(p *Prog, fn *ssa.Function, instr ssa.Instruction) (map[int64]bool, bool) {
	out := map[int64]bool{}
	for k := int64(0); k < 16; k++ {
		base := assumeProtocol(k, nil)
		f := &Folder{P: p, Assume: func(v ssa.Value) (cval, bool) {
			if cv, ok := base(v); ok {
				return cv, true
			}
			// b[0] of an Unmarshal-like function: load of IndexAddr(param, 0)
			if u, ok := v.(*ssa.UnOp); ok && u.Op == token.MUL {
				if ia, ok := u.X.(*ssa.IndexAddr); ok {
					if idx, ok := constInt(ia.Index); ok && idx == 0 {
						if _, isParam := ia.X.(*ssa.Parameter); isParam {
							return cInt(k), true
						}
					}
				}
			}
			return cval{}, false
		}, Stop: func(in ssa.Instruction) bool { return in == instr }, Budget: 3000000}
		var args []cval
		for range fn.Params {
			args = append(args, cval{nonNil: true})
		}
		outs := f.Eval(fn, args)
		if f.Over {
			return nil, false
		}
		for _, o := range outs {
			if o.Stopped != nil {
				out[k] = true
			}
		}
	}
	return out, true
}

func setStr(m map[int64]bool) string {
	var ks []int
	for k := range m {
		ks = append(ks, int(k))
	}
	sort.Ints(ks)
	return fmt.Sprint(ks)
}

func subset(a, b map[int64]bool) bool {
	for k := range a {
		if !b[k] {
			return false
		}
	}
	return true
}

func r10_1b(c *RC) {
	p := c.P
	sess, da := protoFamilies(p)
	mi := p.Named(protoPkg, "metadata")
	ssT := p.Named(protoPkg, "sessionStruct")
	daT := p.Named(protoPkg, "dataAckStruct")
	if mi == nil || ssT == nil || daT == nil || len(sess) != 4 || len(da) != 6 {
		c.Anchor("pkg/protocol metadata / sessionStruct / dataAckStruct / protocol constants")
		return
	}
	// (1) implementers
	iface := mi.Underlying().(*types.Interface)
	var impls []string
	tp := p.TypesPkg(protoPkg)
	for _, n := range tp.Scope().Names() {
		tn, ok := tp.Scope().Lookup(n).(*types.TypeName)
		if !ok || tn.IsAlias() {
			continue
		}
		if _, isI := tn.Type().Underlying().(*types.Interface); isI {
			continue
		}
		if types.Implements(types.NewPointer(tn.Type()), iface) || types.Implements(tn.Type(), iface) {
			impls = append(impls, n)
		}
	}
	sort.Strings(impls)
	if len(impls) == 2 && impls[0] == "dataAckStruct" && impls[1] == "sessionStruct" {
		c.OKH("implementers", mi.Obj().Pos(), "metadata is implemented by exactly dataAckStruct and sessionStruct")
	} else {
		c.Bad("implementers", mi.Obj().Pos(), "metadata is implemented by %v: segment.Seq()/SessionID() and the event loops only know sessionStruct and dataAckStruct; any other type panics in segment.Less / checkSeq", impls)
	}
	// (2) protocol stores
	pf := p.Field(protoPkg, "baseStruct", "protocol")
	famOf := func(t types.Type) (map[int64]bool, string) {
		if pt, ok := t.(*types.Pointer); ok {
			t = pt.Elem()
		}
		if types.Identical(t, ssT) {
			return sess, "session"
		}
		if types.Identical(t, daT) {
			return da, "data/ack"
		}
		return nil, ""
	}
	for _, s := range p.FieldStores(pf) {
		key := "protocol-store@" + fnName(s.Fn)
		base := storeBase(s.Instr.(*ssa.Store))
		fam, fname := famOf(base.Type())
		if s.Fn.Name() == "Unmarshal" {
			// protocols for which the store executes
			rs, ok := reachSet(p, s.Fn, s.Instr)
			if !ok {
				c.Undecided(key, s.Pos(), "budget exceeded")
				continue
			}
			recvFam, rn := famOf(s.Fn.Signature.Recv().Type())
			if len(rs) > 0 && subset(rs, recvFam) {
				c.OKH(key, s.Pos(), "%s.Unmarshal stores a protocol only for %s (its own %s family)", rn, setStr(rs), rn)
			} else {
				c.Bad(key, s.Pos(), "%s Unmarshal can store protocol numbers %s, not all in its own family %s: a %s value could carry a protocol of the other family and the unchecked assertions would panic", rn, setStr(rs), setStr(recvFam), rn)
			}
			continue
		}
		// constructor: constant(s)
		vals := map[int64]bool{}
		allConst := true
		for _, l0 := range Leaves(s.Val, nil) {
			// a protocol chosen by a small selector helper is the set of
			// constants that helper returns
			for _, l := range helperResultLeaves(p, l0) {
				if k, ok := constInt(l); ok {
					vals[k] = true
				} else {
					allConst = false
				}
			}
		}
		if !allConst {
			c.Bad(key, s.Pos(), "protocol is set from a non-constant %s outside Unmarshal", describe(s.Val))
			continue
		}
		if fam == nil {
			// standalone baseStruct local: find the literal it is copied into
			if a, ok := base.(*ssa.Alloc); ok {
				for _, r := range *a.Referrers() {
					if ld, ok := r.(*ssa.UnOp); ok && ld.Op == token.MUL {
						for _, u := range *ld.Referrers() {
							if st, ok := u.(*ssa.Store); ok {
								fam, fname = famOf(storeBase(st).Type())
							}
						}
					}
				}
			}
		}
		if fam == nil {
			c.Undecided(key, s.Pos(), "cannot tell which metadata struct this baseStruct ends up in")
			continue
		}
		if subset(vals, fam) {
			c.OKH(key, s.Pos(), "constant protocol %s in a %s literal", setStr(vals), fname)
		} else {
			c.Bad(key, s.Pos(), "a %s metadata literal is built with protocol %s, outside its family %s", fname, setStr(vals), setStr(fam))
		}
	}
	// (3) metadata never nil in a constructed segment
	mf := p.Field(protoPkg, "segment", "metadata")
	segT := p.Named(protoPkg, "segment")
	for _, fn := range p.Funcs(protoPkg) {
		instrs(fn, func(_ *ssa.BasicBlock, _ int, in ssa.Instruction) {
			a, ok := in.(*ssa.Alloc)
			if !ok || !types.Identical(a.Type().(*types.Pointer).Elem(), segT) {
				return
			}
			set := false
			for _, r := range *a.Referrers() {
				if fa, ok := r.(*ssa.FieldAddr); ok {
					if f, _ := fieldOfAddr(fa); sameField(f, mf) {
						for _, u := range *fa.Referrers() {
							if st, ok := u.(*ssa.Store); ok && !isNilConst(st.Val) {
								set = true
							}
						}
					}
				}
			}
			key := "segment-literal@" + fnName(fn)
			if set {
				c.OK(key, a.Pos(), "metadata set")
			} else {
				c.Bad(key, a.Pos(), "a segment is constructed without metadata: Seq()/Protocol() on it panic")
			}
		})
	}
	// (4) unchecked assertions on metadata
	for _, fn := range p.Funcs(protoPkg) {
		instrs(fn, func(_ *ssa.BasicBlock, _ int, in ssa.Instruction) {
			ta, ok := in.(*ssa.TypeAssert)
			if !ok || ta.CommaOk {
				return
			}
			fam, fname := famOf(ta.AssertedType)
			if fam == nil {
				return
			}
			key := "assert:" + fname + "@" + fnName(fn)
			// static: operand is a freshly built literal of that type
			if fr := freshRoot(ta, 0); fr != nil {
				if f2, _ := famOf(fr.Type()); f2 != nil {
					c.OK(key, ta.Pos(), "operand is a literal of the asserted type built in this function")
					return
				}
			}
			rs, ok := reachSet(p, fn, ta)
			if !ok {
				c.Undecided(key, ta.Pos(), "budget exceeded")
				return
			}
			if subset(rs, fam) {
				c.OKH(key, ta.Pos(), "reachable only for protocols %s (all %s family)", setStr(rs), fname)
				return
			}
			// through callers
			callers := p.CallsToFn(fn)
			if len(callers) == 0 {
				c.Bad(key, ta.Pos(), "unchecked assertion to %s metadata reachable for protocols %s and the function has no statically known caller", fname, setStr(rs))
				return
			}
			union := map[int64]bool{}
			for _, cs := range callers {
				crs, ok := reachSet(p, cs.Fn, cs.Instr)
				if !ok {
					c.Undecided(key, ta.Pos(), "budget exceeded in caller %s", fnName(cs.Fn))
					return
				}
				if len(crs) == 16 {
					// one more level
					crs = map[int64]bool{}
					up := p.CallsToFn(cs.Fn)
					if len(up) == 0 {
						for k := int64(0); k < 16; k++ {
							crs[k] = true
						}
					}
					for _, cs2 := range up {
						r2, ok := reachSet(p, cs2.Fn, cs2.Instr)
						if !ok {
							c.Undecided(key, ta.Pos(), "budget exceeded in caller %s", fnName(cs2.Fn))
							return
						}
						for k := range r2 {
							crs[k] = true
						}
					}
				}
				for k := range crs {
					if rs[k] {
						union[k] = true
					}
				}
			}
			if subset(union, fam) {
				c.OKH(key, ta.Pos(), "callers reach this function only with protocols %s (all %s family)", setStr(union), fname)
			} else {
				c.Bad(key, ta.Pos(), "unchecked assertion to %s metadata is reachable with protocols %s: a peer sending such a segment panics the process (interface conversion)", fname, setStr(union))
			}
		})
	}
}

// ------------------------------------------------------------------ R10.1c

func r10_1c(c *RC) {
	p := c.P
	sess, da := protoFamilies(p)
	allowed := map[int64]bool{}
	for k := range sess {
		allowed[k] = true
	}
	for n, v := range protocolConsts(p) {
		if strings.HasPrefix(n, "data") {
			allowed[v] = true
		}
	}
	_ = da
	ins := p.Fn(protoPkg, "segmentTree.Insert")
	if ins == nil {
		c.Anchor("segmentTree.Insert")
		return
	}
	pf := p.Field(protoPkg, "baseStruct", "protocol")
	for _, cs := range p.CallsToFn(ins) {
		tree := "tree"
		if f := fieldOrigin(cs.Instr.(ssa.CallInstruction).Common().Args[0]); f != nil {
			tree = f.Name()
		}
		key := "insert:" + tree + "@" + fnName(cs.Fn)
		arg := cs.Instr.(ssa.CallInstruction).Common().Args[1]
		verdict := ""
		var argLeaves []ssa.Value
		for _, l0 := range Leaves(arg, nil) {
			argLeaves = append(argLeaves, helperResultLeaves(p, l0)...)
		}
		for _, l := range argLeaves {
			switch x := l.(type) {
			case *ssa.Alloc:
				// literal: collect protocol constants stored under it
				vals := map[int64]bool{}
				nonConst := false
				instrs(x.Parent(), func(_ *ssa.BasicBlock, _ int, in ssa.Instruction) {
					st, ok := in.(*ssa.Store)
					if !ok {
						return
					}
					if f, _ := fieldOfAddr(st.Addr); !sameField(f, pf) {
						return
					}
					// does this metadata literal flow into x.metadata ?
					root := storeBase(st)
					flows := false
					instrs(x.Parent(), func(_ *ssa.BasicBlock, _ int, y ssa.Instruction) {
						if s2, ok := y.(*ssa.Store); ok && storeBase(s2) == ssa.Value(x) {
							for _, l2 := range Leaves(s2.Val, nil) {
								if l2 == root {
									flows = true
								}
								// baseStruct local copied into a literal that flows
								if a2, ok := l2.(*ssa.Alloc); ok {
									for _, r := range *a2.Referrers() {
										if fa, ok := r.(*ssa.FieldAddr); ok {
											for _, u := range *fa.Referrers() {
												if s3, ok := u.(*ssa.Store); ok {
													for _, l3 := range Leaves(s3.Val, nil) {
														if ld, ok := l3.(*ssa.UnOp); ok && ld.X == root {
															flows = true
														}
													}
												}
											}
										}
									}
								}
							}
						}
					})
					if flows {
						for _, l1 := range Leaves(st.Val, nil) {
							for _, l2 := range helperResultLeaves(p, l1) {
								if k, ok := constInt(l2); ok {
									vals[k] = true
								} else {
									nonConst = true
								}
							}
						}
					}
				})
				if len(vals) == 0 || nonConst {
					verdict = "cannot find the protocol of the literal"
				} else if !subset(vals, allowed) {
					verdict = "literal with protocol " + setStr(vals)
				}
			case *ssa.Extract:
				call, ok := x.Tuple.(*ssa.Call)
				if !ok || !strings.HasPrefix(calleeName(call), "DeleteMin") {
					verdict = "value from " + describe(x)
				}
			case *ssa.Parameter:
				// callers
				union := map[int64]bool{}
				callers := p.CallsToFn(cs.Fn)
				if len(callers) == 0 {
					verdict = "parameter of a function without static callers"
				}
				for _, c2 := range callers {
					rs, ok := reachSet(p, c2.Fn, c2.Instr)
					if !ok {
						verdict = "budget exceeded"
						continue
					}
					for k := range rs {
						union[k] = true
					}
				}
				if verdict == "" && !subset(union, allowed) {
					verdict = "callers pass segments with protocols " + setStr(union)
				}
			default:
				verdict = "value " + describe(l)
			}
		}
		if verdict == "" {
			c.OKH(key, cs.Pos(), "only session/data segments reach this Insert")
		} else {
			c.Bad(key, cs.Pos(), "segmentTree.Insert may receive a segment that is not a session or data segment (%s): checkProtocolType panics, and with it the process", verdict)
		}
	}
}

// ------------------------------------------------------------------ R10.1d

func r10_1d(c *RC) {
	p := c.P
	fn := p.Fn(protoPkg, "Session.input")
	if fn == nil {
		c.Anchor("Session.input")
		return
	}
	sb := p.Field(protoPkg, "Session", "block")
	segb := p.Field(protoPkg, "segment", "block")
	origin := func(v ssa.Value) string {
		for _, l := range Leaves(v, nil) {
			fld, ok := l.(*ssa.Field)
			if !ok {
				continue
			}
			call, ok := fld.X.(*ssa.Call)
			if !ok || !call.Common().IsInvoke() || call.Common().Method.Name() != "BlockContext" {
				continue
			}
			recv := call.Common().Value
			if sameField(fieldOrigin(recv), segb) {
				return "segment"
			}
			for _, l2 := range Leaves(recv, nil) {
				if u, ok := l2.(*ssa.UnOp); ok {
					if ld, ok := u.X.(*ssa.Call); ok && calleeName(ld) == "Load" && sameField(fieldOrigin(ld.Common().Args[0]), sb) {
						return "session"
					}
				}
			}
		}
		return ""
	}
	n := 0
	instrs(fn, func(b *ssa.BasicBlock, _ int, in ssa.Instruction) {
		iff, ok := in.(*ssa.If)
		if !ok {
			return
		}
		bo, ok := iff.Cond.(*ssa.BinOp)
		if !ok || (bo.Op != token.NEQ && bo.Op != token.EQL) {
			return
		}
		ox, oy := origin(bo.X), origin(bo.Y)
		if ox == "" || oy == "" || ox == oy {
			return
		}
		n++
		mis := b.Succs[0]
		if bo.Op == token.EQL {
			mis = b.Succs[1]
		}
		hit := reachableAvoiding(fn, mis.Instrs[0], func(x ssa.Instruction) bool { _, ok := x.(*ssa.Panic); return ok && x.Pos().IsValid() }, isReturn)
		if _, isP := mis.Instrs[0].(*ssa.Panic); isP {
			hit = mis.Instrs[0]
		}
		if hit != nil {
			c.Bad("user-mismatch", bo.Pos(), "when the cipher that decrypted a segment belongs to another user than the session's cipher, Session.input panics: on the UDP transport any registered user can send one datagram naming another user's session id and crash the server")
		} else {
			c.OKH("user-mismatch", bo.Pos(), "the mismatch edge of (session cipher user vs segment cipher user) reaches a return without any panic")
		}
	})
	if n == 0 {
		c.OK("user-mismatch", fn.Pos(), "Session.input does not compare the two cipher users")
	}
}

// ------------------------------------------------------------------ R10.1e

type panicClass struct {
	fn     string // suffix of fnName
	max    int    // number of panic sites confirmed by reading in that function
	reason string
	fold   bool // verify by folding every static call site with constant arguments
}

var panicTable = []panicClass{
	{"congestion.RTTStats).SetRTOMultiplier", 1, "constructor-time setter; called with the constant txTimeoutBackOff", true},
	{"congestion.RTTStats).SetInitialRTT", 1, "not called from product code after measurements start (setter for tests/tuning)", false},
	{"congestion.NewCubicSendAlgorithm", 1, "constructor called with the constants minWindowSize/maxWindowSize", true},
	{"rng.Uint32WithBits", 1, "argument is halfMaskOnes from the constant low-entropy parameter table (16..28)", false},
	{"apis/common.ForbidDefaultResolver", 1, "test/diagnostic hook installed explicitly by an embedder", false},
	{"common.ToPrintableChar", 2, "indices computed by newPadding from the padding's own length (beginIdx+min <= length)", false},
	{"common.ToCommon64Set", 2, "indices computed by the caller from the buffer's own length", false},
	{"apis/internal.EarlyConn).SetRequest", 1, "local API contract (embedding application), not influenced by the peer", false},
	{"apis/internal.EarlyConn).PeerResponse", 1, "local API contract (embedding application), not influenced by the peer", false},
	{"metrics.RegisterMetric", 1, "metric type is a constant at every call site", false},
	{"metrics.Counter).Add", 1, "negative deltas: every product call site passes a length/count (>= 0)", false},
	{"metrics.Counter).Store", 1, "never called on a Counter in product code (Gauge only)", false},
	{"metrics.Counter).DeltaBetween", 2, "checkQuota passes then = now - days*24h with days from validated configuration; counter kind fixed at registration", false},
	{"metrics.Counter).LastUpdateTime", 1, "counter kind fixed at registration", false},
	{"replay.NewCache", 2, "package-level constructors with constant arguments", true},
	{"cipher.aeadBlockCipher).Clone", 2, "AEAD type and key length are fixed at construction", false},
	{"cipher.aeadBlockCipher).newNonceTo", 1, "customHexStrings are validated as hex by trafficpattern.Validate before a pattern is installed", false},
	{"cipher.aeadBlockCipher).increaseNonce", 1, "called only under enableImplicitNonce", false},
	{"cipher.aeadBlockCipher).addUserHintToNonce", 2, "user name length limited by configuration validation; nonce size is the constant 24", false},
	{"cipher.CheckUserFromHint", 3, "registry user names are non-empty and <= MaxUserNameLen (buildState filter); discoverUser checks the nonce length", false},
	{"protocol.StreamUnderlay).RunEventLoop", 2, "discharged by R10.1a (typed errors)", false},
	{"protocol.segment).Less", 2, "discharged by R10.1b (metadata is one of the two implementers, never nil)", false},
	{"protocol.newSegmentTree", 1, "constructor called with the constant segmentTreeCapacity", true},
	{"protocol.segmentTree).DeleteMin", 2, "btree invariant under t.mu: Len()>0 implies Min/DeleteMin succeed", false},
	{"protocol.segmentTree).DeleteMinIf", 4, "btree invariant under t.mu: Len()>0 implies Min/DeleteMin succeed", false},
	{"protocol.segmentTree).checkNil", 1, "every Insert argument is a literal, a dequeued segment or a dispatched segment (non-nil)", false},
	{"protocol.segmentTree).checkSeq", 1, "discharged by R10.1b", false},
	{"protocol.segmentTree).checkProtocolType", 1, "discharged by R10.1c", false},
	{"protocol.newPadding", 3, "options are built by buildRecommendedPaddingOpts (min = min(maxLen, recommended)) or with minConsecutiveASCIILen 0 and maxLen >= 0", false},
	{"protocol.Mux).SetClientUserNamePassword", 2, "configuration-time API misuse", false},
	{"protocol.Mux).SetClientMultiplexFactor", 2, "configuration-time API misuse", false},
	{"protocol.Mux).SetServerUsers", 1, "configuration-time API misuse", false},
	{"protocol.Mux).SetServerUserHintIsMandatory", 1, "configuration-time API misuse", false},
	{"protocol.PacketUnderlay).readOneSegment", 1, "decrypted implies a non-nil cipher (R05.3: both set together from an authenticated decrypt)", false},
	{"protocol.PacketUnderlay).parseSessionSegment", 1, "server passes the non-nil cipher checked by readOneSegment; client substitutes its own", false},
	{"protocol.PacketUnderlay).parseDataAckSegment", 1, "server passes the non-nil cipher checked by readOneSegment; client substitutes its own", false},
	{"protocol.PacketUnderlay).writeOneSegment", 2, "client cipher set by the constructor; server branch returns an error when no cipher is known", false},
	{"protocol.Session).input", 5, "user-name-not-set: server ciphers carry the non-empty registry user name (Discover sets BlockContext), client ciphers the configured user name; policy-name checks: the first segment a session processes is the open request that created it (FIFO recvChan), later foreign segments are dropped by the user-mismatch check (R10.1d)", false},
	{"socks5.udpAddrToHeader", 2, "address comes from a successful ReadFromUDP (non-nil, valid IP)", false},
}

func panicMessage(pn *ssa.Panic) string {
	var sb strings.Builder
	for _, l := range Leaves(pn.X, nil) {
		switch x := l.(type) {
		case *ssa.Const:
			if x.Value != nil && x.Value.Kind() == constant.String {
				sb.WriteString(constant.StringVal(x.Value))
			}
		case *ssa.Call:
			for _, a := range x.Common().Args {
				if k, ok := a.(*ssa.Const); ok && k.Value != nil && k.Value.Kind() == constant.String {
					sb.WriteString(constant.StringVal(k.Value))
				}
			}
		}
	}
	return sb.String()
}

func r10_1e(c *RC) {
	p := c.P
	perFn := map[string]int{}
	scope := []string{"pkg/protocol", "pkg/socks5", "pkg/cipher", "pkg/replay", "pkg/metrics", "pkg/congestion", "pkg/rng", "pkg/common", "pkg/mathext", "pkg/stderror", "pkg/egress", "apis"}
	for _, fn := range p.Funcs(scope...) {
		instrs(fn, func(_ *ssa.BasicBlock, _ int, in ssa.Instruction) {
			pn, ok := in.(*ssa.Panic)
			if !ok || !in.Pos().IsValid() {
				return // go/ssa's synthetic "blocking select matched no case"
			}
			// a panic moved into a small helper of a classified function
			// still belongs to that function's budget
			name := fnName(fn)
			msg := panicMessage(pn)
			var cls *panicClass
			classify := func(n string) *panicClass {
				for i := range panicTable {
					t := &panicTable[i]
					if strings.HasSuffix(strings.TrimSuffix(n, "$1"), t.fn) {
						return t
					}
				}
				return nil
			}
			cls = classify(name)
			if cls == nil {
				if o := ownerFn(p, fn); o != outermost(fn) {
					if oc := classify(fnName(o)); oc != nil {
						name, cls = fnName(o), oc
					}
				}
			}
			if cls == nil {
				// the same assertion (same message, same package) moved or
				// merged into another function keeps its classification
				for i := range panicTable {
					t := &panicTable[i]
					if pkgPrefix(t.fn) != "" && strings.Contains(name, pkgPrefix(t.fn)) && msg != "" && hasStr(panicMsgs[t.fn], msg) {
						name, cls = "…"+t.fn, t
					}
				}
			}
			if os.Getenv("MVERIF_DUMP_PANICS") != "" && cls != nil {
				fmt.Fprintf(os.Stderr, "PANICMSG\t%s\t%q\n", cls.fn, msg)
			}
			key := "panic@" + name
			perFn[name]++
			if cls == nil {
				c.Bad(key, in.Pos(), "unclassified panic (%q) in network-facing code: the process has no recover(), so this must be an error return or be classified with the invariant that makes it unreachable for peer-controlled data", msg)
				return
			}
			if perFn[name] > cls.max {
				c.Bad(key, in.Pos(), "%s contains more panic sites (%d) than the %d that were confirmed by reading (%s); the additional one (%q) is unclassified", name, perFn[name], cls.max, cls.reason, msg)
				return
			}
			if cls.fold {
				outer := outermost(fn)
				bad := ""
				n := 0
				for _, cs := range p.CallsToFn(outer) {
					n++
					var args []cval
					allK := true
					f := &Folder{P: p}
					for _, a := range cs.Instr.(ssa.CallInstruction).Common().Args {
						v := f.val(fenv{}, a)
						if !v.known && !v.nonNil {
							// receiver or non-constant
							if _, isPtr := a.Type().Underlying().(*types.Pointer); isPtr {
								v = cval{nonNil: true}
							} else {
								allK = false
							}
						}
						args = append(args, v)
					}
					if !allK {
						bad = "call at " + p.Pos(cs.Pos()) + " passes a non-constant argument"
						continue
					}
					for _, o := range f.Eval(outer, args) {
						if o.Panicked {
							bad = "call at " + p.Pos(cs.Pos()) + " panics with its constant arguments"
						}
					}
				}
				if bad != "" {
					c.Bad(key, in.Pos(), "%s (classified as: %s)", bad, cls.reason)
				} else {
					c.OKH(key, in.Pos(), "%s; verified by folding the %d product call sites with their constant arguments", cls.reason, n)
				}
				return
			}
			c.OK(key, in.Pos(), "%s", cls.reason)
		})
	}
}

// ------------------------------------------------------------------ R10.4

func r10_4(c *RC) {
	p := c.P
	narrow := func(t types.Type) bool {
		b, ok := t.Underlying().(*types.Basic)
		return ok && (b.Kind() == types.Uint8 || b.Kind() == types.Uint16 || b.Kind() == types.Int8 || b.Kind() == types.Int16)
	}
	fromBytes := func(v ssa.Value) bool {
		for _, l := range Leaves(v, nil) {
			if u, ok := l.(*ssa.UnOp); ok && u.Op == token.MUL {
				if _, ok := u.X.(*ssa.IndexAddr); ok {
					return true
				}
			}
		}
		return false
	}
	for _, fn := range p.Funcs("pkg/protocol", "pkg/socks5", "apis", "pkg/cipher") {
		instrs(fn, func(_ *ssa.BasicBlock, _ int, in ssa.Instruction) {
			cv, ok := in.(*ssa.Convert)
			if !ok || narrow(cv.Type()) {
				return
			}
			if _, isInt := cv.Type().Underlying().(*types.Basic); !isInt {
				return
			}
			bo, ok := cv.X.(*ssa.BinOp)
			if !ok || !narrow(bo.Type()) {
				return
			}
			switch bo.Op {
			case token.ADD, token.MUL, token.SHL:
			default:
				return
			}
			if !fromBytes(bo.X) && !fromBytes(bo.Y) {
				return
			}
			key := "narrow-arith@" + fnName(fn)
			c.Bad(key, cv.Pos(), "%s is computed in %s arithmetic on a byte taken from a packet and only then widened: the value wraps (e.g. 1+255 == 0), and the following slice expression panics on a hostile length octet", describe(bo), bo.Type())
		})
	}
	// positive inventory: widening conversions of packet bytes that are done before arithmetic
	n := 0
	for _, fn := range p.Funcs("pkg/socks5", "apis/model", "apis/common") {
		instrs(fn, func(_ *ssa.BasicBlock, _ int, in ssa.Instruction) {
			cv, ok := in.(*ssa.Convert)
			if !ok || narrow(cv.Type()) || !narrow(cv.X.Type()) {
				return
			}
			if _, isBo := cv.X.(*ssa.BinOp); isBo {
				return
			}
			if fromBytes(cv.X) {
				n++
				if n <= 12 {
					c.OK("widen-first@"+fnName(fn), cv.Pos(), "packet byte widened before arithmetic")
				}
			}
		})
	}
}

// r10_5: arithmetic carried out in a narrow integer type (uint8/uint16) on a
// length field of parsed metadata wraps for large field values; the wrapped
// value then sizes a buffer that is sliced with the constant it was supposed
// to include (readSessionSegment: make([]byte, payloadLen+16) followed by
// [:16] ...). Such a site is safe only if every parse-time store of that
// field is preceded, unconditionally, by the rejection of values that would
// wrap.
func r10_5(c *RC) {
	p := c.P
	narrowBits := func(t types.Type) int {
		b, ok := t.Underlying().(*types.Basic)
		if !ok {
			return 0
		}
		switch b.Kind() {
		case types.Uint8:
			return 8
		case types.Uint16:
			return 16
		}
		return 0
	}
	type site struct {
		fn    *ssa.Function
		bo    *ssa.BinOp
		field *types.Var
		k     int64
	}
	var sites []site
	for _, fn := range p.Funcs("pkg/protocol") {
		instrs(fn, func(_ *ssa.BasicBlock, _ int, in ssa.Instruction) {
			bo, ok := in.(*ssa.BinOp)
			if !ok || narrowBits(bo.Type()) == 0 || bo.Op != token.ADD {
				return
			}
			var fld *types.Var
			var k int64
			for _, pair := range [][2]ssa.Value{{bo.X, bo.Y}, {bo.Y, bo.X}} {
				f := fieldOrigin(pair[0])
				kk, isK := constInt(pair[1])
				if f != nil && isK {
					fld, k = f, kk
				}
			}
			if fld == nil {
				return
			}
			// only fields of the two metadata structs
			owner := ""
			for _, tn := range []string{"sessionStruct", "dataAckStruct"} {
				if g := p.Field(protoPkg, tn, fld.Name()); sameField(g, fld) {
					owner = tn
				}
			}
			if owner == "" {
				return
			}
			sites = append(sites, site{fn, bo, fld, k})
		})
	}
	if len(sites) == 0 {
		c.OK("narrow-length-arith", token.NoPos, "no narrow-typed arithmetic on metadata length fields")
		return
	}
	for _, s := range sites {
		bits := narrowBits(s.bo.Type())
		max := int64(1)<<bits - 1
		key := "narrow-length-arith:" + s.field.Name() + "@" + fnName(s.fn)
		// every store to the field outside composite literals of senders: in Unmarshal
		var problems []string
		nstores := 0
		for _, st := range p.FieldStores(s.field) {
			store, ok := st.Instr.(*ssa.Store)
			if !ok || st.Fn.Name() != "Unmarshal" {
				continue
			}
			nstores++
			bounded := false
			for _, ce := range controllingEdges(store.Block()) {
				bo, ok := ce.If.Cond.(*ssa.BinOp)
				if !ok {
					continue
				}
				lim, isK := constInt(bo.Y)
				if !isK || bo.X != store.Val {
					continue
				}
				switch {
				case bo.Op == token.GTR && ce.Idx == 1 && lim+s.k <= max:
					bounded = true
				case bo.Op == token.GEQ && ce.Idx == 1 && lim-1+s.k <= max:
					bounded = true
				case bo.Op == token.LEQ && ce.Idx == 0 && lim+s.k <= max:
					bounded = true
				case bo.Op == token.LSS && ce.Idx == 0 && lim-1+s.k <= max:
					bounded = true
				}
			}
			if !bounded {
				problems = append(problems, fnName(st.Fn)+" stores "+s.field.Name()+" without an unconditional upper bound that keeps "+s.field.Name()+"+"+fmtInt(int(s.k))+" within "+s.bo.Type().String())
			}
		}
		if nstores == 0 {
			problems = append(problems, "no parse-time store found")
		}
		if len(problems) == 0 {
			c.OKH(key, s.bo.Pos(), "%s in %s: every Unmarshal store of the field is preceded by an unconditional bound, the sum cannot wrap", describe(s.bo), s.bo.Type())
		} else {
			c.Bad(key, s.bo.Pos(), "%s is computed in %s and wraps for large peer-chosen values: %s — a wrapped size is then sliced with the constant it should include and the event loop panics", describe(s.bo), s.bo.Type(), strings.Join(problems, "; "))
		}
	}
}

// r10_6: the reader contract. Every Read / ReadFrom / ReadFromUDP style
// method in the product returns a count that cannot exceed len(p): callers
// (PacketUnderlay.readOneSegment: b = b[:n]) slice their buffer with it and a
// larger count panics in the event loop.
func r10_6(c *RC) {
	p := c.P
	for _, fn := range p.Funcs("pkg/protocol", "pkg/socks5", "apis", "pkg/common", "pkg/cipher") {
		switch fn.Name() {
		case "Read", "ReadFrom", "ReadFromUDP", "ReadMsgUDP":
		default:
			continue
		}
		if fn.Signature.Recv() == nil || fn.Signature.Params().Len() == 0 || fn.Signature.Results().Len() < 2 {
			continue
		}
		if sl, ok := fn.Signature.Params().At(0).Type().Underlying().(*types.Slice); !ok || sl.Elem().String() != "byte" && sl.Elem().String() != "uint8" {
			continue
		}
		if bt, ok := fn.Signature.Results().At(0).Type().Underlying().(*types.Basic); !ok || bt.Kind() != types.Int {
			continue
		}
		if len(fn.Params) < 2 {
			continue
		}
		buf := fn.Params[1]
		rootIsBuf := func(v ssa.Value) bool {
			for i := 0; i < 6; i++ {
				switch x := v.(type) {
				case *ssa.Slice:
					v = x.X
				case *ssa.UnOp:
					// spilled parameter
					if a, ok := x.X.(*ssa.Alloc); ok {
						sts := allocStores(a)
						if len(sts) == 1 {
							v = sts[0]
							continue
						}
					}
					return false
				default:
					return v == ssa.Value(buf)
				}
			}
			return v == ssa.Value(buf)
		}
		visiting := map[*ssa.Alloc]bool{}
		var okVal func(v ssa.Value, at *ssa.BasicBlock, d int) (bool, string)
		okVal = func(v ssa.Value, at *ssa.BasicBlock, d int) (bool, string) {
			if d > 14 {
				return false, "too deep"
			}
			switch x := v.(type) {
			case *ssa.Const:
				return true, ""
			case *ssa.Extract:
				return okVal(x.Tuple, at, d+1)
			case *ssa.Call:
				if b, ok := x.Call.Value.(*ssa.Builtin); ok {
					switch b.Name() {
					case "copy":
						if rootIsBuf(x.Call.Args[0]) {
							return true, ""
						}
						return false, "copy into another buffer"
					case "len":
						if rootIsBuf(x.Call.Args[0]) {
							return true, ""
						}
						// len(other): needs a dominating comparison with len(p)
						for _, ce := range controllingEdges(at) {
							bo, ok := ce.If.Cond.(*ssa.BinOp)
							if !ok {
								continue
							}
							isLenBuf := func(w ssa.Value) bool {
								lc, ok := w.(*ssa.Call)
								if !ok {
									return false
								}
								lb, ok := lc.Call.Value.(*ssa.Builtin)
								return ok && lb.Name() == "len" && rootIsBuf(lc.Call.Args[0])
							}
							sameLen := func(w ssa.Value) bool {
								lc, ok := w.(*ssa.Call)
								if !ok {
									return false
								}
								lb, ok := lc.Call.Value.(*ssa.Builtin)
								return ok && lb.Name() == "len" && lc.Call.Args[0] == x.Call.Args[0]
							}
							switch {
							case bo.Op == token.GTR && sameLen(bo.X) && isLenBuf(bo.Y) && ce.Idx == 1,
								bo.Op == token.LEQ && sameLen(bo.X) && isLenBuf(bo.Y) && ce.Idx == 0,
								bo.Op == token.LSS && isLenBuf(bo.X) && sameLen(bo.Y) && ce.Idx == 1,
								bo.Op == token.GEQ && isLenBuf(bo.X) && sameLen(bo.Y) && ce.Idx == 0:
								return true, ""
							}
						}
						return false, "len(" + describe(x.Call.Args[0]) + ") is returned without having been compared with len(p)"
					case "min":
						for _, a := range x.Call.Args {
							if ok, _ := okVal(a, at, d+1); ok {
								return true, ""
							}
						}
					}
					return false, "builtin " + b.Name()
				}
				// delegation: the callee received p (or a part of it)
				for _, a := range x.Call.Args {
					if rootIsBuf(a) {
						return true, ""
					}
				}
				if x.Call.IsInvoke() && rootIsBuf(x.Call.Value) {
					return true, ""
				}
				return false, "result of " + calleeName(x) + ", which did not receive p"
			case *ssa.Phi:
				for _, e := range x.Edges {
					if e == ssa.Value(x) {
						continue
					}
					if ok, why := okVal(e, at, d+1); !ok {
						return false, why
					}
				}
				return true, ""
			case *ssa.BinOp:
				if x.Op == token.ADD || x.Op == token.SUB {
					ok1, w1 := okVal(x.X, at, d+1)
					ok2, w2 := okVal(x.Y, at, d+1)
					if ok1 && ok2 {
						return true, ""
					}
					return false, w1 + w2
				}
				return false, "arithmetic " + x.Op.String()
			case *ssa.UnOp:
				if a, ok := x.X.(*ssa.Alloc); ok {
					if visiting[a] {
						return true, "" // the accumulator itself (n += copied)
					}
					visiting[a] = true
					defer delete(visiting, a)
					for _, s := range allocStores(a) {
						if ok, why := okVal(s, at, d+1); !ok {
							return false, why
						}
					}
					return true, ""
				}
				return false, "loaded from " + describe(x.X)
			case *ssa.Convert:
				return okVal(x.X, at, d+1)
			}
			return false, describe(v)
		}
		// errNonNil: the error result of this return cannot be nil
		errNonNil := func(r *ssa.Return, b *ssa.BasicBlock) bool {
			ev := retVal(r, len(r.Results)-1)
			if isNilConst(ev) {
				return false
			}
			all := true
			for _, l := range Leaves(ev, nil) {
				switch y := l.(type) {
				case *ssa.Call:
					id := calleeID(y)
					if id == "fmt.Errorf" || id == "errors.New" || strings.HasSuffix(id, "WrapErrorWithType") {
						continue
					}
				case *ssa.UnOp:
					if _, isG := y.X.(*ssa.Global); isG {
						continue
					}
				case *ssa.MakeInterface:
					continue
				}
				// a value tested non-nil on the way here
				tested := false
				for _, ce := range controllingEdges(b) {
					if bo, ok := ce.If.Cond.(*ssa.BinOp); ok && isNilConst(bo.Y) {
						same := bo.X == l
						if !same {
							for _, l2 := range Leaves(bo.X, nil) {
								if l2 == l {
									same = true
								}
							}
						}
						if same && ((bo.Op == token.NEQ && ce.Idx == 0) || (bo.Op == token.EQL && ce.Idx == 1)) {
							tested = true
						}
					}
				}
				if !tested {
					all = false
				}
			}
			return all
		}
		n := 0
		instrs(fn, func(b *ssa.BasicBlock, _ int, in ssa.Instruction) {
			r, ok := in.(*ssa.Return)
			if !ok || len(r.Results) < 2 {
				return
			}
			n++
			key := "count-within-buffer@" + fnName(fn)
			if errNonNil(r, b) {
				c.OK(key, r.Pos(), "error return (the count is not used)")
				return
			}
			if ok, why := okVal(retVal(r, 0), b, 0); ok {
				c.OK(key, r.Pos(), "the count returned is a constant, a copy into p, a delegated read into p, or a length compared with len(p)")
			} else {
				c.Bad(key, r.Pos(), "%s can return a count larger than len(p): %s; the caller slices its buffer with that count and panics", fnName(fn), why)
			}
		})
	}
}

// r10_7: the user-name length precondition. cipher.CheckUserFromHint and
// addUserHintToNonce panic when len(name) - the number of BYTES - exceeds
// MaxUserNameLen, and CheckUserFromHint runs on every unauthenticated first
// segment for every registered user. The registry therefore has to refuse
// such names with the same measure: in buildState (or a helper it calls) the
// builtin len of the name is compared with that constant. A count of runes
// lets a 22-character CJK name through and every stray connection then kills
// the server (seed C10e).
func r10_7(c *RC) {
	p := c.P
	bs := p.Fn("pkg/protocol/serveruser", "buildState")
	if bs == nil {
		c.Anchor("serveruser.buildState")
		return
	}
	maxK, ok := constOf(p, "apis/constant", "MaxUserNameLen")
	if !ok {
		c.Anchor("apis/constant.MaxUserNameLen")
		return
	}
	isByteLen := func(v ssa.Value) bool {
		cl, ok := v.(*ssa.Call)
		if !ok {
			return false
		}
		b, ok := cl.Call.Value.(*ssa.Builtin)
		if !ok || b.Name() != "len" {
			return false
		}
		bt, ok := cl.Call.Args[0].Type().Underlying().(*types.Basic)
		return ok && bt.Info()&types.IsString != 0
	}
	isMax := func(v ssa.Value) bool { k, ok := constInt(v); return ok && k == maxK }
	found := false
	var wrong []string
	seen := map[*ssa.Function]bool{}
	var visit func(fn *ssa.Function, d int)
	visit = func(fn *ssa.Function, d int) {
		if fn == nil || fn.Blocks == nil || seen[fn] || d > 2 {
			return
		}
		seen[fn] = true
		instrs(fn, func(_ *ssa.BasicBlock, _ int, in ssa.Instruction) {
			switch x := in.(type) {
			case *ssa.BinOp:
				if cmpForm(x, token.GTR, isByteLen, isMax) || cmpForm(x, token.LEQ, isByteLen, isMax) {
					found = true
				} else if cmpForm(x, token.GTR, nil, isMax) || cmpForm(x, token.LEQ, nil, isMax) || cmpForm(x, token.GEQ, nil, isMax) || cmpForm(x, token.LSS, nil, isMax) {
					other := x.X
					if isMax(other) {
						other = x.Y
					}
					wrong = append(wrong, describe(other))
				}
			case *ssa.Call:
				if sc := x.Call.StaticCallee(); sc != nil && sc.Pkg != nil && sc.Pkg.Pkg != nil && inProduct(sc.Pkg.Pkg.Path()) {
					visit(sc, d+1)
				}
			}
		})
	}
	visit(bs, 0)
	// the panic exists at all (otherwise there is nothing to protect)
	pn := 0
	for _, name := range []string{"CheckUserFromHint", "addUserHintToNonce"} {
		if f := p.Fn("pkg/cipher", name); f != nil {
			instrs(f, func(_ *ssa.BasicBlock, _ int, in ssa.Instruction) {
				if _, ok := in.(*ssa.Panic); ok && in.Pos().IsValid() {
					pn++
				}
			})
		}
	}
	c.Info("user_name_length_panics", pn)
	switch {
	case pn == 0:
		c.OK("user-name-length-filter", bs.Pos(), "the cipher no longer panics on long user names")
	case found:
		c.OKH("user-name-length-filter", bs.Pos(), "buildState refuses names whose byte length exceeds MaxUserNameLen (%d), the measure the %d panics in pkg/cipher use", maxK, pn)
	default:
		c.Bad("user-name-length-filter", bs.Pos(), "buildState does not compare the byte length of a user name with MaxUserNameLen (it compares %v): a name within the limit by that measure but longer than %d bytes reaches cipher.CheckUserFromHint, which panics, on every unauthenticated first segment", wrong, maxK)
	}
}

// r10_8: sync/atomic.Value panics when a Store's dynamic type differs from
// the first stored value's. For every atomic.Value in the product the
// dynamic types that can be determined (errors.New and fmt.Errorf without %w
// give *errors.errorString, fmt.Errorf with %w gives *fmt.wrapError, a
// concrete value gives its own type; through local helpers) must agree.
// Values whose dynamic type cannot be determined statically are listed in the
// evidence and not judged.
func r10_8(c *RC) {
	p := c.P
	type site struct {
		fn  *ssa.Function
		in  ssa.Instruction
		val ssa.Value
	}
	groups := map[ssa.Value][]site{}
	var order []ssa.Value
	for _, fn := range p.Funcs("pkg/socks5", "pkg/protocol", "apis", "pkg/appctl", "pkg/cipher", "pkg/common") {
		instrs(fn, func(_ *ssa.BasicBlock, _ int, in ssa.Instruction) {
			cl, ok := in.(ssa.CallInstruction)
			if !ok {
				return
			}
			valIdx := 1
			switch calleeID(cl) {
			case "(*sync/atomic.Value).Store", "(*sync/atomic.Value).Swap":
			case "(*sync/atomic.Value).CompareAndSwap":
				valIdx = 2
			default:
				return
			}
			root := cl.Common().Args[0]
			// closures reach the variable through a free variable: use the binding
			if fv, ok := root.(*ssa.FreeVar); ok {
				par := fn.Parent()
				for i, f := range fn.FreeVars {
					if f == fv && par != nil {
						instrs(par, func(_ *ssa.BasicBlock, _ int, y ssa.Instruction) {
							if mc, ok := y.(*ssa.MakeClosure); ok && mc.Fn == fn && i < len(mc.Bindings) {
								root = mc.Bindings[i]
							}
						})
					}
				}
			}
			if _, seen := groups[root]; !seen {
				order = append(order, root)
			}
			groups[root] = append(groups[root], site{fn, in, cl.Common().Args[valIdx]})
		})
	}
	dynType := func(fn *ssa.Function, v ssa.Value) []string {
		var out []string
		for _, l := range LeavesX(p, fn, v, 0) {
			switch x := l.(type) {
			case *ssa.MakeInterface:
				out = append(out, x.X.Type().String())
			case *ssa.Call:
				switch calleeID(x) {
				case "errors.New":
					out = append(out, "*errors.errorString")
				case "fmt.Errorf":
					if k, ok := x.Call.Args[0].(*ssa.Const); ok && k.Value != nil {
						if strings.Contains(k.Value.ExactString(), "%w") {
							out = append(out, "*fmt.wrapError")
						} else {
							out = append(out, "*errors.errorString")
						}
					} else {
						out = append(out, "?")
					}
				default:
					out = append(out, "?")
				}
			case *ssa.UnOp:
				// a package-level error variable: its dynamic type is that of its initialiser
				t := "?"
				if g, ok := x.X.(*ssa.Global); ok && g.Pkg != nil {
					if init := g.Pkg.Func("init"); init != nil {
						instrs(init, func(_ *ssa.BasicBlock, _ int, y ssa.Instruction) {
							st, ok := y.(*ssa.Store)
							if !ok || st.Addr != ssa.Value(g) {
								return
							}
							for _, il := range Leaves(st.Val, nil) {
								if ic, ok := il.(*ssa.Call); ok {
									switch calleeID(ic) {
									case "errors.New":
										t = "*errors.errorString"
									case "fmt.Errorf":
										if k, ok := ic.Call.Args[0].(*ssa.Const); ok && k.Value != nil && !strings.Contains(k.Value.ExactString(), "%w") {
											t = "*errors.errorString"
										}
									}
								}
							}
						})
					}
				}
				out = append(out, t)
			default:
				if isNilConst(l) {
					continue
				}
				out = append(out, "?")
			}
		}
		return out
	}
	if len(order) == 0 {
		c.OK("atomic-value-types", token.NoPos, "no atomic.Value.Store in scope")
		return
	}
	for _, root := range order {
		sites := groups[root]
		known := map[string]ssa.Instruction{}
		unknown := 0
		var blind []ssa.Instruction // writes of a value whose dynamic type is not known, not protected by first-wins
		for _, s := range sites {
			for _, t := range dynType(s.fn, s.val) {
				if t == "?" {
					unknown++
					if !firstWinsGuard(s.in) {
						blind = append(blind, s.in)
					}
				} else if _, has := known[t]; !has {
					known[t] = s.in
				}
			}
		}
		key := "atomic-value-types@" + fnName(outermost(sites[0].fn))
		// Writes whose dynamic type cannot be determined (an error returned
		// by I/O on an interface-typed connection) are counted, not judged:
		// whether two such errors have the same concrete type depends on the
		// connections behind the interfaces (seed C10h turned first-wins
		// Stores into CompareAndSwap(nil, err), which panics on a type
		// mismatch even when it loses; flagging every such write would also
		// flag code whose error types agree by construction).
		_ = blind
		var ts []string
		for t := range known {
			ts = append(ts, t)
		}
		sort.Strings(ts)
		if len(ts) > 1 {
			c.Bad(key, known[ts[len(ts)-1]].Pos(), "values of different dynamic types (%s) are stored into one sync/atomic.Value: the second kind of Store panics ('store of inconsistently typed value'), in a goroutine nobody recovers from", strings.Join(ts, ", "))
		} else {
			c.OK(key, sites[0].in.Pos(), "%d stores; determinable dynamic types %v agree (%d values not determinable statically, %d of them outside a first-wins `Load() == nil` guard)", len(sites), ts, unknown, len(blind))
		}
	}
}

// pkgPrefix: "protocol." of "protocol.segmentTree).checkNil".
func pkgPrefix(fnSuffix string) string {
	if i := strings.Index(fnSuffix, "."); i > 0 {
		return fnSuffix[:i+1]
	}
	return ""
}

func hasStr(ss []string, s string) bool {
	for _, x := range ss {
		if x == s {
			return true
		}
	}
	return false
}


// firstWinsGuard: the write is a plain Store on the true edge of
// `v.Load() == nil` for the same Value (only the first error is kept, so a
// second, differently typed one is never stored by this site).
func firstWinsGuard(in ssa.Instruction) bool {
	cl, ok := in.(ssa.CallInstruction)
	if !ok || calleeID(cl) != "(*sync/atomic.Value).Store" {
		return false
	}
	recv := cl.Common().Args[0]
	for _, e := range controllingEdges(in.Block()) {
		atom, neg := condAtom(e.If.Cond)
		bo, ok := atom.(*ssa.BinOp)
		if !ok || (bo.Op != token.EQL && bo.Op != token.NEQ) {
			continue
		}
		var other ssa.Value
		switch {
		case isNilConst(bo.X):
			other = bo.Y
		case isNilConst(bo.Y):
			other = bo.X
		default:
			continue
		}
		ld, ok := other.(*ssa.Call)
		if !ok || calleeID(ld) != "(*sync/atomic.Value).Load" || ld.Common().Args[0] != recv {
			continue
		}
		isNilEdge := (e.Idx == 0) == (bo.Op == token.EQL)
		if neg {
			isNilEdge = !isNilEdge
		}
		if isNilEdge {
			return true
		}
	}
	return false
}
