package main

import (
	"fmt"
	"go/constant"
	"go/token"
	"go/types"
	"sort"
	"strings"

	"golang.org/x/tools/go/ssa"
)

func init() { register("C18", propC18) }

func propC18() *Property {
	return &Property{
		ID:         "C18",
		Decides:    "R18.1 the UDP-associate frame written and the frame read are the documented `0x00 | uint16 BE length | data | 0xff` (offsets: marker 0, length 1..2, data from 3, trailer at 3+len, buffer 4+len); R18.2 every read of the carrying stream in the frame reader is an io.ReadFull (any chunking of the stream); R18.3 framing violations and oversize are errors with n == 0, the writer refuses more than 65535 bytes before building a frame, and the relay loops leave their loop on a tunnel read error instead of continuing on a desynchronised stream; R18.4 addressing: the header remembered for replies is a private copy (does not alias the reused receive buffer), is stored and looked up under the address string of the very datagram / reply it belongs to, and a reply header otherwise is built from the address ReadFromUDP returned; the destination of a relayed datagram is taken from its own header; R18.5 the SOCKS5 address codec: reader and writer agree on the address-type bytes, the lengths 4/16/1+n and the big-endian port.",
		NotDecided: "behaviour for every size and content (e.g. empty datagrams through UDPAssociateWrapper.ReadFrom); reordering inside the tunnel (a stream preserves order by construction); loss in the UDP legs.",
		Rules: []Rule{
			{ID: "R18.1", Floor: 3, Text: "frame writer/reader vs the documented frame", Run: func(c *RC) { ruleAssociateFrame(c); r18_1(c) }},
			{ID: "R18.2", Floor: 3, Text: "PacketOverStreamTunnel.Read reads the stream only through io.ReadFull", Run: r18_2},
			{ID: "R18.3", Floor: 5, Text: "violations are errors; loops stop on tunnel read errors", Run: r18_3},
			{ID: "R18.4", Floor: 4, Text: "remembered headers are private copies keyed by the datagram's own address; reply headers come from the replying address", Run: r18_4},
			{ID: "R18.6", Floor: 2, Text: "every UDP receive buffer of the association and forwarding loops holds a maximum-size datagram (65507 bytes of payload): a smaller buffer truncates silently", Run: r18_6},
			{ID: "R18.5", Floor: 3, Text: "AddrSpec.ReadFromSocks5 and WriteToSocks5 agree on type bytes, lengths and port byte order", Run: r18_5},
		},
	}
}

func r18_1(c *RC) {
	p := c.P
	wr := p.Fn("apis/common", "PacketOverStreamTunnel.Write")
	if wr == nil {
		c.Anchor("PacketOverStreamTunnel.Write")
		return
	}
	// make([]byte, 4+len(p)); copy(data[3:], p); data[3+len(p)] = 0xff
	if parts, ok := appendFrameLayout(p, wr); ok {
		if strings.Join(parts, " ") == "byte:0 BE16:len payload byte:255" {
			c.OKH("frame-offsets@Write", wr.Pos(), "appended in wire order: marker, 2-byte length, data, trailer (offsets 0, 1, 3, 3+len)")
		} else {
			c.Bad("frame-offsets@Write", wr.Pos(), "frame writer appends [%s], not marker 0x00, big-endian uint16 length, data, trailer 0xff", strings.Join(parts, " "))
		}
		return
	}
	size4, copy3, trailer := false, false, false
	instrs(frameBuilder(p, wr), func(_ *ssa.BasicBlock, _ int, in ssa.Instruction) {
		switch x := in.(type) {
		case *ssa.MakeSlice:
			if bo, ok := x.Len.(*ssa.BinOp); ok && bo.Op == token.ADD {
				if k, ok := constInt(bo.X); ok && k == 4 {
					size4 = true
				}
				if k, ok := constInt(bo.Y); ok && k == 4 {
					size4 = true
				}
			}
		case *ssa.Call:
			if calleeNameAny(x) == "copy" {
				if off, _, ok := sliceLow(x.Common().Args[0]); ok && off == 3 {
					if _, isParam := sliceRoot(x.Common().Args[1]).(*ssa.Parameter); isParam {
						copy3 = true
					}
				}
			}
		case *ssa.Store:
			if k, ok := constInt(x.Val); ok && k == 255 {
				if ia, ok := x.Addr.(*ssa.IndexAddr); ok {
					if bo, ok := ia.Index.(*ssa.BinOp); ok && bo.Op == token.ADD {
						for _, v := range []ssa.Value{bo.X, bo.Y} {
							if k, ok := constInt(v); ok && k == 3 {
								trailer = true
							}
						}
					}
				}
			}
		}
	})
	if size4 && copy3 && trailer {
		c.OKH("frame-offsets@Write", wr.Pos(), "buffer 4+len(p), data at [3:], trailer at [3+len(p)]")
	} else {
		c.Bad("frame-offsets@Write", wr.Pos(), "frame writer offsets differ (buffer 4+len=%v, data at 3=%v, trailer at 3+len=%v)", size4, copy3, trailer)
	}
}

func r18_2(c *RC) {
	p := c.P
	rd := p.Fn("apis/common", "PacketOverStreamTunnel.Read")
	if rd == nil {
		c.Anchor("PacketOverStreamTunnel.Read")
		return
	}
	for _, f := range withHelpers(p, rd, 2) {
		instrs(f, func(_ *ssa.BasicBlock, _ int, in ssa.Instruction) {
			cl, ok := in.(ssa.CallInstruction)
			if !ok {
				return
			}
			id := calleeID(cl)
			switch {
			case id == "io.ReadFull":
				if f := fieldOrigin(cl.Common().Args[0]); f != nil && f.Name() == "Conn" {
					c.OK("stream-read@Read", in.Pos(), "io.ReadFull on the carrying stream")
				}
			case cl.Common().IsInvoke() && (cl.Common().Method.Name() == "Read" || cl.Common().Method.Name() == "ReadFrom"):
				if f := fieldOrigin(cl.Common().Value); f != nil && f.Name() == "Conn" {
					c.Bad("stream-read@Read", in.Pos(), "the frame reader calls Conn.%s directly: a stream that delivers fewer bytes than asked (any TCP chunk border inside the header) is mis-parsed and the tunnel desynchronises", cl.Common().Method.Name())
				}
			case id == "io.ReadAtLeast":
				c.Bad("stream-read@Read", in.Pos(), "io.ReadAtLeast may read past the frame")
			}
		})
	}
}

func r18_3(c *RC) {
	p := c.P
	rd := p.Fn("apis/common", "PacketOverStreamTunnel.Read")
	wr := p.Fn("apis/common", "PacketOverStreamTunnel.Write")
	if rd == nil || wr == nil {
		c.Anchor("PacketOverStreamTunnel.Read/Write")
		return
	}
	// Read: on every comparison failure edge (marker != const, length > len(p))
	// the reader returns (0, non-nil) at once. A check extracted into a helper
	// returns a non-nil error there, and every call of the helper in the reader
	// turns that into (0, error).
	errorExit := func(blk *ssa.BasicBlock) bool {
		for _, x := range blk.Instrs {
			if r, ok := x.(*ssa.Return); ok && len(r.Results) >= 1 {
				last := len(r.Results) - 1
				if retIsNil(r, last) {
					return false
				}
				if last > 0 {
					n, isK := constInt(retVal(r, 0))
					return isK && n == 0
				}
				return true
			}
		}
		return false
	}
	callersPropagate := func(h *ssa.Function) bool {
		sites := p.CallsToFn(h)
		if len(sites) == 0 {
			return false
		}
		for _, cs := range sites {
			cv, ok := cs.Instr.(*ssa.Call)
			if !ok {
				return false
			}
			checked := false
			for _, r := range *cv.Referrers() {
				bo, ok := r.(*ssa.BinOp)
				if !ok || bo.Op != token.NEQ {
					continue
				}
				for _, u := range *bo.Referrers() {
					if iff, ok := u.(*ssa.If); ok && errorExit(iff.Block().Succs[0]) {
						checked = true
					}
				}
			}
			if !checked {
				return false
			}
		}
		return true
	}
	for _, f := range withHelpers(p, rd, 2) {
		f := f
		instrs(f, func(b *ssa.BasicBlock, _ int, in ssa.Instruction) {
			iff, ok := in.(*ssa.If)
			if !ok {
				return
			}
			bo, ok := iff.Cond.(*ssa.BinOp)
			if !ok {
				return
			}
			var failSucc *ssa.BasicBlock
			what := ""
			switch bo.Op {
			case token.NEQ, token.EQL:
				for _, k := range markerConsts(p, f, bo) {
					if k == 0 || k == 255 {
						what = "marker"
					}
				}
				if what != "" {
					failSucc = b.Succs[0]
					if bo.Op == token.EQL {
						failSucc = b.Succs[1]
					}
				}
			case token.GTR:
				failSucc, what = b.Succs[0], "length"
			}
			if failSucc == nil {
				return
			}
			key := "violation-is-error:" + what
			good := errorExit(failSucc) && (f == rd || callersPropagate(f))
			if good {
				c.OKH(key, iff.Pos(), "returns (0, error)")
			} else {
				c.Bad(key, iff.Pos(), "a %s violation in the frame reader does not return (0, error) immediately: the stream would be consumed out of frame", what)
			}
		})
	}
	// Write: len(p) > 65535 is refused before the frame is built or sent
	var guard *ssa.If
	var send ssa.Instruction
	instrs(wr, func(_ *ssa.BasicBlock, _ int, in ssa.Instruction) {
		switch x := in.(type) {
		case *ssa.If:
			isLenP := func(v ssa.Value) bool {
				cl, ok := v.(*ssa.Call)
				if !ok || calleeNameAny(cl) != "len" {
					return false
				}
				_, isParam := cl.Common().Args[0].(*ssa.Parameter)
				return isParam
			}
			is64k := func(v ssa.Value) bool { k, ok := constInt(v); return ok && k == 65535 }
			if cmpForm(x.Cond, token.GTR, isLenP, is64k) {
				guard = x
			}
		case *ssa.MakeSlice:
			if send == nil {
				send = in
			}
		case *ssa.Call:
			if send == nil && (frameBuilder(p, wr) == x.Common().StaticCallee() || (x.Common().IsInvoke() && x.Common().Method.Name() == "Write")) {
				send = in
			}
		}
	})
	if guard != nil && send != nil && instrDominates(guard, send) && !blockReach(guard.Block().Succs[guardFailIdx(guard)], nil)[send.Block()] {
		c.OKH("oversize@Write", guard.Pos(), "len(p) > 65535 is refused before the frame is built")
	} else {
		c.Bad("oversize@Write", wr.Pos(), "the frame writer does not refuse datagrams longer than 65535 bytes (the 16-bit length would wrap and desynchronise the stream)")
	}
	// loops
	for _, fn := range p.Funcs(s5Pkg) {
		instrs(fn, func(_ *ssa.BasicBlock, _ int, in ssa.Instruction) {
			call, ok := in.(*ssa.Call)
			if !ok || !strings.HasSuffix(calleeID(call), "PacketOverStreamTunnel).Read") {
				return
			}
			key := "loop-exit@" + fnName(fn)
			es := errSuccessorOfTuple(call, 1)
			if es == nil {
				c.Bad(key, call.Pos(), "the error of tunnel.Read is not tested")
				return
			}
			// from the error edge, the same Read must not be reachable again
			again := reachableAvoiding(fn, es.Instrs[0], func(x ssa.Instruction) bool { return x == ssa.Instruction(call) }, nil)
			if again != nil {
				c.Bad(key, call.Pos(), "after a tunnel read error the loop continues reading the (now desynchronised) stream")
			} else {
				c.OKH(key, call.Pos(), "a tunnel read error leaves the loop")
			}
		})
	}
}

func r18_4(c *RC) {
	p := c.P
	hdr := p.Field(s5Pkg, "socks5UDPDatagram", "Header")
	if hdr == nil {
		c.Anchor("socks5.socks5UDPDatagram.Header")
		return
	}
	for _, s := range p.FieldStores(hdr) {
		key := "header-copy@" + fnName(s.Fn)
		alias := ""
		fresh := false
		for _, l := range Leaves(s.Val, func(v ssa.Value) bool { _, ok := v.(*ssa.Call); return ok }) {
			switch x := l.(type) {
			case *ssa.Parameter:
				alias = "parameter " + x.Name()
			case *ssa.Call:
				if calleeNameAny(x) == "append" {
					// append([]byte(nil), src...) : first arg nil => fresh
					if isNilConst(x.Common().Args[0]) {
						fresh = true
					} else if _, isParam := sliceRoot(x.Common().Args[0]).(*ssa.Parameter); isParam {
						alias = "append onto the parameter"
					}
				}
			case *ssa.MakeSlice:
				fresh = true
			}
		}
		if _, isParam := sliceRoot(s.Val).(*ssa.Parameter); isParam {
			alias = "a slice of the packet buffer"
		}
		if alias != "" || !fresh {
			c.Bad(key, s.Pos(), "the header remembered for replies is %s: the relay loop reuses one receive buffer, so every remembered header silently changes to the header of the most recent datagram and replies are labelled with the wrong host", map[bool]string{true: alias, false: "not a fresh copy"}[alias != ""])
		} else {
			c.OKH(key, s.Pos(), "Header = append([]byte(nil), pkt[:headerLen]...) — a private copy")
		}
	}
	// addrMap usage in the relay loop
	for _, fn := range p.Funcs(s5Pkg) {
		if !strings.HasPrefix(fn.Name(), "runUDPAssociateLoop$") && !strings.HasPrefix(fn.Name(), "RunUDPAssociateLoop$") {
			continue
		}
		instrs(fn, func(_ *ssa.BasicBlock, _ int, in ssa.Instruction) {
			call, ok := in.(*ssa.Call)
			if !ok {
				return
			}
			switch calleeID(call) {
			case "(*sync.Map).Store":
				key := "addrmap-store@" + fnName(fn)
				k, v := call.Common().Args[1], call.Common().Args[2]
				// key must be X.String() where X is the address resolved from / returned for this datagram
				kOK := false
				for _, l := range Leaves(k, nil) {
					if sc, ok := l.(*ssa.Call); ok && calleeName(sc) == "String" {
						for _, l2 := range Leaves(callArgs(sc)[0], nil) {
							if ex, ok := l2.(*ssa.Extract); ok {
								if rc, ok := ex.Tuple.(*ssa.Call); ok {
									n := calleeName(rc)
									if n == "resolveSocks5UDPAddr" || n == "ReadFromUDP" {
										kOK = true
									}
								}
							}
						}
					}
				}
				// value: header of the same datagram, or udpAddrToHeader(addr)
				vOK := false
				for _, l := range Leaves(v, nil) {
					if f := fieldOrigin(l); f != nil && f.Name() == "Header" {
						vOK = true
					}
					if sc, ok := l.(*ssa.Call); ok && calleeName(sc) == "udpAddrToHeader" {
						vOK = true
					}
				}
				if kOK && vOK {
					c.OKH(key, call.Pos(), "remembered under the address string of the datagram it belongs to")
				} else {
					c.Bad(key, call.Pos(), "addrMap.Store(%s, %s) does not pair an address with its own header", describe(k), describe(v))
				}
			case "(*sync.Map).Load":
				key := "addrmap-load@" + fnName(fn)
				good := false
				for _, l := range Leaves(call.Common().Args[1], nil) {
					if sc, ok := l.(*ssa.Call); ok && strings.HasSuffix(calleeID(sc), "net.UDPAddr).String") {
						// receiver: addr returned by ReadFromUDP
						for _, l2 := range Leaves(sc.Common().Args[0], nil) {
							if ex, ok := l2.(*ssa.Extract); ok {
								if rc, ok := ex.Tuple.(*ssa.Call); ok && strings.HasSuffix(calleeID(rc), "ReadFromUDP") {
									good = true
								}
							}
						}
					}
				}
				if good {
					c.OKH(key, call.Pos(), "reply header looked up by the replying host's address (ReadFromUDP)")
				} else {
					c.Bad(key, call.Pos(), "the reply header is not looked up by the address the reply came from")
				}
			}
		})
	}
	// destination from own header: resolveSocks5UDPAddr(datagram.Addr) where datagram is parse result of this read
	for _, fname := range []string{"runUDPAssociateLoop", "parseAllowedUDPAssociateDatagram"} {
		_ = fname
	}
	// ... and what the datagram is sent to is that resolution's result and
	// nothing remembered from an earlier datagram: every source of the
	// address given to WriteToUDP in the upload direction is the result of
	// resolveSocks5UDPAddr (or, in datagram mode, of the parser that calls it)
	for _, fn := range p.Funcs(s5Pkg) {
		if !strings.Contains(fn.Name(), "runUDPAssociate") && (fn.Parent() == nil || !strings.Contains(fn.Parent().Name(), "runUDPAssociate")) {
			continue
		}
		instrs(fn, func(_ *ssa.BasicBlock, _ int, in ssa.Instruction) {
			call, ok := in.(*ssa.Call)
			if !ok || calleeName(call) != "WriteToUDP" {
				return
			}
			var foreign []string
			resolved := false
			for _, l := range Leaves(call.Common().Args[2], nil) {
				switch x := l.(type) {
				case *ssa.Extract:
					if cl, ok := x.Tuple.(*ssa.Call); ok {
						switch calleeName(cl) {
						case "resolveSocks5UDPAddr", "parseAllowedUDPAssociateDatagram", "parseUDPAssociateDatagram":
							resolved = true
							continue
						}
					}
					if _, isLookup := x.Tuple.(*ssa.Lookup); isLookup {
						foreign = append(foreign, "a value remembered in a map ("+describe(x.Tuple)+")")
						continue
					}
					foreign = append(foreign, describe(l))
				case *ssa.Lookup:
					foreign = append(foreign, "a value remembered in a map ("+describe(x)+")")
				case *ssa.Parameter:
					foreign = append(foreign, "parameter "+x.Name())
				default:
					if isNilConst(l) {
						continue
					}
					foreign = append(foreign, describe(l))
				}
			}
			key := "send-to-own-destination@" + fnName(fn)
			if !resolved {
				return // the reply direction: written to the client's own address
			}
			if len(foreign) == 0 {
				c.OKH(key, call.Pos(), "the address written to is the resolution of this datagram's own header")
			} else {
				c.Bad(key, call.Pos(), "a relayed datagram can be sent to %s instead of the resolution of its own header: a later datagram to the same name on another port (or to another name) goes to the wrong endpoint and its replies are filed under the wrong address", strings.Join(foreign, ", "))
			}
		})
	}
	for _, fn := range p.Funcs(s5Pkg) {
		instrs(fn, func(_ *ssa.BasicBlock, _ int, in ssa.Instruction) {
			call, ok := in.(*ssa.Call)
			if !ok || calleeName(call) != "resolveSocks5UDPAddr" {
				return
			}
			key := "destination@" + fnName(fn)
			good := false
			for _, l := range Leaves(call.Common().Args[2], nil) {
				if f := fieldOrigin(l); f != nil && f.Name() == "Addr" {
					good = true
				}
			}
			if good {
				c.OKH(key, call.Pos(), "destination = Addr parsed from the datagram's own header")
			} else {
				c.Bad(key, call.Pos(), "the relay destination %s is not the address of the datagram's own header", describe(call.Common().Args[2]))
			}
		})
	}
}

func r18_5(c *RC) {
	p := c.P
	rd := p.Fn("apis/model", "AddrSpec.ReadFromSocks5")
	wr := p.Fn("apis/model", "AddrSpec.WriteToSocks5")
	if rd == nil || wr == nil {
		c.Anchor("model.AddrSpec.ReadFromSocks5/WriteToSocks5")
		return
	}
	// the reader may be split into stages and a read-n-bytes helper
	rdFamily := withHelpers(p, rd, 3)
	types1 := func(fn *ssa.Function, reader bool) []int64 {
		set := map[int64]bool{}
		fam := []*ssa.Function{fn}
		if reader {
			fam = rdFamily
		}
		for _, ff := range fam {
			instrs(ff, func(_ *ssa.BasicBlock, _ int, in ssa.Instruction) {
				switch x := in.(type) {
				case *ssa.BinOp:
					if reader && x.Op == token.EQL {
						if k, ok := constInt(x.Y); ok && (strings.HasSuffix(x.X.Type().String(), "uint8") || x.X.Type().String() == "byte") {
							set[k] = true
						}
					}
				case *ssa.Call:
					if !reader && strings.HasSuffix(calleeID(x), "bytes.Buffer).WriteByte") {
						if k, ok := x.Common().Args[1].(*ssa.Const); ok && k.Value != nil && k.Value.Kind() == constant.Int {
							v, _ := constant.Int64Val(k.Value)
							set[v] = true
						}
					}
				}
			})
		}
		var out []int64
		for k := range set {
			out = append(out, k)
		}
		sort.Slice(out, func(i, j int) bool { return out[i] < out[j] })
		return out
	}
	rt, wt := types1(rd, true), types1(wr, false)
	eq := len(rt) == len(wt)
	for i := range rt {
		if !eq || rt[i] != wt[i] {
			eq = false
		}
	}
	if eq && len(rt) == 3 && rt[0] == 1 && rt[1] == 3 && rt[2] == 4 {
		c.OKH("addr-types", rd.Pos(), "reader and writer use address types {1,3,4}")
	} else {
		c.Bad("addr-types", rd.Pos(), "address type bytes differ: reader %v writer %v (RFC 1928: 1,3,4)", rt, wt)
	}
	// lengths in reader: make([]byte, 4) / 16 / int(addrLen[0])
	lens := map[int64]bool{}
	for _, ff := range rdFamily {
		ff := ff
		instrs(ff, func(_ *ssa.BasicBlock, _ int, in ssa.Instruction) {
			switch a := in.(type) {
			case *ssa.Alloc:
				if arr, ok := a.Type().(*types.Pointer).Elem().(*types.Array); ok {
					lens[arr.Len()] = true
				}
			case *ssa.MakeSlice:
				// make([]byte, n) in a read-n-bytes helper: the sizes its callers ask for
				for _, l := range LeavesIP(p, ff, a.Len, 0) {
					if k, ok := constInt(l); ok {
						lens[k] = true
					}
				}
			}
		})
	}
	if lens[4] && lens[16] && lens[2] {
		c.OK("addr-lengths", rd.Pos(), "IPv4 4 bytes, IPv6 16 bytes, port 2 bytes")
	} else {
		c.Bad("addr-lengths", rd.Pos(), "address reader buffer sizes %v do not include 4, 16 and 2", lens)
	}
	// port: reader (p[0]<<8)|p[1]; writer >>8 then &0xff
	shl := false
	for _, ff := range rdFamily {
		instrs(ff, func(_ *ssa.BasicBlock, _ int, in ssa.Instruction) {
			if bo, ok := in.(*ssa.BinOp); ok && bo.Op == token.SHL {
				if k, ok := constInt(bo.Y); ok && k == 8 {
					// the shifted operand must be element 0
					for _, l := range Leaves(bo.X, nil) {
						if u, ok := l.(*ssa.UnOp); ok {
							if ia, ok := u.X.(*ssa.IndexAddr); ok {
								if idx, ok := constInt(ia.Index); ok && idx == 0 {
									shl = true
								}
							}
						}
					}
				}
			}
		})
	}
	var order []string
	instrs(wr, func(_ *ssa.BasicBlock, _ int, in ssa.Instruction) {
		if call, ok := in.(*ssa.Call); ok && strings.HasSuffix(calleeID(call), "bytes.Buffer).WriteByte") {
			for _, l := range Leaves(call.Common().Args[1], nil) {
				if bo, ok := l.(*ssa.BinOp); ok {
					if bo.Op == token.SHR {
						order = append(order, "hi")
					}
					if bo.Op == token.AND {
						order = append(order, "lo")
					}
				}
			}
		}
	})
	if shl && strings.Join(order, ",") == "hi,lo" {
		c.OKH("port-order", rd.Pos(), "port is big endian in reader (p[0]<<8|p[1]) and writer (hi, lo)")
	} else {
		c.Bad("port-order", rd.Pos(), "port byte order differs between reader (high byte first=%v) and writer (%v)", shl, order)
	}
}

// guardFailIdx: the successor index of a `len(p) > 65535` guard (in any
// spelling) on which the packet is too long.
func guardFailIdx(iff *ssa.If) int {
	_, neg := condAtom(iff.Cond)
	v, _ := condAtom(iff.Cond)
	bo := v.(*ssa.BinOp)
	tooLongWhenTrue := bo.Op == token.GTR || bo.Op == token.LSS // len > k, k < len
	if bo.Op == token.LEQ || bo.Op == token.GEQ {
		tooLongWhenTrue = false
	}
	if neg {
		tooLongWhenTrue = !tooLongWhenTrue
	}
	if tooLongWhenTrue {
		return 0
	}
	return 1
}

// appendFrameLayout: when the frame handed to the stream is built as a chain
// of appends (append(b, k), AppendUint16(b, uint16(len(p))), append(b, p...)),
// the parts in wire order: "byte:K", "BE16:len" / "LE16:len" / "..16:?",
// "payload". ok is false when the buffer is not built that way.
func appendFrameLayout(p *Prog, wr *ssa.Function) ([]string, bool) {
	var arg ssa.Value
	instrs(wr, func(_ *ssa.BasicBlock, _ int, in ssa.Instruction) {
		cl, ok := in.(*ssa.Call)
		if ok && cl.Common().IsInvoke() && cl.Common().Method.Name() == "Write" && arg == nil {
			arg = cl.Common().Args[0]
		}
	})
	if arg == nil {
		return nil, false
	}
	// a helper returning the frame
	for _, l := range Leaves(arg, nil) {
		if cl, ok := l.(*ssa.Call); ok {
			if sc := cl.Common().StaticCallee(); sc != nil && sc.Blocks != nil && pkgOfFn(sc) == pkgOfFn(wr) {
				for _, b := range sc.Blocks {
					if r, ok := b.Instrs[len(b.Instrs)-1].(*ssa.Return); ok && len(r.Results) == 1 {
						arg = r.Results[0]
					}
				}
			}
		}
	}
	var parts []string
	v := arg
	for i := 0; i < 12; i++ {
		cl, ok := v.(*ssa.Call)
		if !ok {
			break
		}
		if b, isB := cl.Common().Value.(*ssa.Builtin); isB && b.Name() == "append" {
			el := cl.Common().Args[1]
			switch {
			case isParamSlice(el):
				parts = append(parts, "payload")
			default:
				// variadic literal: slice of a fresh array with constant stores
				ks, ok := varargConsts(el)
				if !ok {
					return nil, false
				}
				for j := len(ks) - 1; j >= 0; j-- {
					parts = append(parts, fmt.Sprintf("byte:%d", ks[j]))
				}
			}
			v = cl.Common().Args[0]
			continue
		}
		id := calleeID(cl)
		if strings.HasSuffix(id, "ndian).AppendUint16") {
			ord := "BE"
			if strings.Contains(id, "littleEndian") {
				ord = "LE"
			}
			what := "?"
			if cv, ok := cl.Common().Args[2].(*ssa.Convert); ok {
				if lc, ok := cv.X.(*ssa.Call); ok && calleeNameAny(lc) == "len" && isParamSlice(lc.Common().Args[0]) {
					what = "len"
				}
			}
			parts = append(parts, ord+"16:"+what)
			v = cl.Common().Args[1]
			continue
		}
		return nil, false
	}
	if len(parts) == 0 {
		return nil, false
	}
	// the chain must start from an empty buffer
	switch x := v.(type) {
	case *ssa.MakeSlice:
		if k, ok := constInt(x.Len); !ok || k != 0 {
			return nil, false
		}
	case *ssa.Const:
		if !x.IsNil() {
			return nil, false
		}
	default:
		return nil, false
	}
	for i, j := 0, len(parts)-1; i < j; i, j = i+1, j-1 {
		parts[i], parts[j] = parts[j], parts[i]
	}
	return parts, true
}

func isParamSlice(v ssa.Value) bool {
	_, ok := v.(*ssa.Parameter)
	return ok
}

// varargConsts: the constants of `append(b, k1, k2)`'s variadic argument.
func varargConsts(v ssa.Value) ([]int64, bool) {
	sl, ok := v.(*ssa.Slice)
	if !ok {
		return nil, false
	}
	al, ok := sl.X.(*ssa.Alloc)
	if !ok {
		return nil, false
	}
	arr, ok := al.Type().(*types.Pointer).Elem().Underlying().(*types.Array)
	if !ok {
		return nil, false
	}
	out := make([]int64, arr.Len())
	set := 0
	for _, r := range *al.Referrers() {
		ia, ok := r.(*ssa.IndexAddr)
		if !ok {
			continue
		}
		idx, ok := constInt(ia.Index)
		if !ok {
			return nil, false
		}
		for _, u := range *ia.Referrers() {
			if st, ok := u.(*ssa.Store); ok {
				k, ok := constInt(st.Val)
				if !ok {
					return nil, false
				}
				out[idx] = k
				set++
			}
		}
	}
	return out, set == int(arr.Len())
}


// r18_6: ReadFromUDP silently truncates a datagram that does not fit its
// buffer (Go does not surface MSG_TRUNC). The relay loops must therefore
// offer room for the largest UDP payload, 65507 bytes, whatever part of a
// larger buffer they read into.
func r18_6(c *RC) {
	p := c.P
	n := 0
	for _, fn := range p.Funcs(s5Pkg) {
		instrs(fn, func(_ *ssa.BasicBlock, _ int, in ssa.Instruction) {
			cl, ok := in.(ssa.CallInstruction)
			if !ok || calleeID(cl) != "(*net.UDPConn).ReadFromUDP" {
				return
			}
			n++
			key := "udp-receive-room@" + fnName(fn)
			var size func(v ssa.Value, d int) int64
			size = func(v ssa.Value, d int) int64 {
				if d > 6 {
					return -1
				}
				switch x := v.(type) {
				case *ssa.MakeSlice:
					if k, ok := constInt(x.Len); ok {
						return k
					}
				case *ssa.Alloc:
					if arr, ok := x.Type().(*types.Pointer).Elem().Underlying().(*types.Array); ok {
						return arr.Len()
					}
				case *ssa.Slice:
					base := size(x.X, d+1)
					lo, hi := int64(0), base
					if x.Low != nil {
						k, ok := constInt(x.Low)
						if !ok {
							return -1
						}
						lo = k
					}
					if x.High != nil {
						k, ok := constInt(x.High)
						if !ok {
							return -1
						}
						hi = k
					}
					if hi < 0 {
						return -1
					}
					return hi - lo
				case *ssa.Phi:
					// a buffer variable of a loop: all incoming values the same size
					r := int64(-2)
					for _, e := range x.Edges {
						if e == ssa.Value(x) {
							continue
						}
						k := size(e, d+1)
						if r == -2 {
							r = k
						} else if r != k {
							return -1
						}
					}
					if r >= 0 {
						return r
					}
				}
				return -1
			}
			room := size(cl.Common().Args[1], 0)
			switch {
			case room < 0:
				c.Undecided(key, in.Pos(), "cannot determine the size of the buffer handed to ReadFromUDP (%s)", describe(cl.Common().Args[1]))
			case room < 65507:
				c.Bad(key, in.Pos(), "ReadFromUDP is given room for %d bytes; a datagram can carry 65507, and a longer one is cut to fit without any error, so a large reply reaches the client shortened", room)
			default:
				c.OKH(key, in.Pos(), "room for %d bytes (>= 65507)", room)
			}
		})
	}
	if n == 0 {
		c.Undecided("udp-receive-room", token.NoPos, "no ReadFromUDP in pkg/socks5")
	}
}
