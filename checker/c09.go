package main

import (
	"fmt"
	"go/constant"
	"go/token"
	"go/types"
	"strings"

	"golang.org/x/tools/go/ssa"
)

func init() { register("C09", propC09) }

// Frozen transcription of the published protocol (docs/protocol.md at the
// pinned commit); the document is re-read on every run and compared too.
var specLayouts = map[string]string{
	"sessionStruct": "0/1 10/4 14/1 15/2 17/1 2/4 6/4",
	"dataAckStruct": "0/1 1/1 10/4 14/4 18/2 2/4 20/1 21/1 22/2 24/1 25/4 29/2 31/1 6/4",
}
var specDocHeadings = map[string][]string{
	"sessionStruct": {"Session Metadata"},
	"dataAckStruct": {"Data Metadata (Low Entropy Extension)"},
}
var specProtocols = map[string]int64{
	"openSessionRequest": 2, "openSessionResponse": 3, "closeSessionRequest": 4, "closeSessionResponse": 5,
	"dataClientToServer": 6, "dataServerToClient": 7, "ackClientToServer": 8, "ackServerToClient": 9,
	"dataClientToServerLowEntropy": 10, "dataServerToClientLowEntropy": 11,
}

func propC09() *Property {
	return &Property{
		ID:         "C09",
		Decides:    "agreement of the code with the published protocol, with the document (re-read on every run) and a frozen transcription as oracles external to the code: R09.1 the three metadata layouts — the (offset,width,byte order,field) tables extracted from each Marshal and each Unmarshal agree with each other and with the document; R09.2 protocol numbering; R09.3 key derivation (PBKDF2-SHA256, 64 iterations, 32-byte key, salt = SHA-256 of the big-endian uint64 unix time rounded to 2 minutes, hashed password = SHA-256(password || 0x00 || username)); R09.4 user hint (first 4 bytes of SHA-256(username || nonce[:16]) into the last 4 nonce bytes, same constants in writer and reader); R09.5 TCP nonce progression (big-endian increment over the whole nonce, once per encryption after the first; Encrypt and Decrypt symmetric) and UDP nonce sharing (payload sealed with the datagram's metadata nonce); R09.7 the 1024-byte session payload limit in writer and reader; R09.8 low-entropy parameter table, chunk length, rotation validity set and rotation direction, UDP-associate frame.; R09.9 payload carried by any session or data segment is delivered: the reader hands out the payload of every dequeued segment (shared with R01.7); the protocol allows a payload on the open session response; R09.10 the time salt is the documented rounded-to-nearest two-minute slot with its two neighbours, and the key cache uses the same rounding, so a cached key set is never served for another slot (R08.1)",
		NotDecided: "that emitted values are right beyond where they are placed and how they are derived; the AEAD itself (library); the segment assembly order on the wire beyond the nonce/metadata/payload sharing (R09.6 of the design was not built); interop with other releases at run time.",
		Rules: []Rule{
			{ID: "R09.1", Floor: 6, Text: "metadata layouts: Marshal table == Unmarshal table == document table (offset/width), all multi-byte fields big endian, buffer length == MetadataLength == 32", Run: r09_1},
			{ID: "R09.2", Floor: 10, Text: "protocolType constants == the document's bullet lists == the frozen transcription", Run: r09_2},
			{ID: "R09.3", Floor: 6, Text: "key derivation constants and structure", Run: r09_3},
			{ID: "R09.4", Floor: 3, Text: "user hint: writer (addUserHintToNonce) and reader (CheckUserFromHint) hash name||nonce[:16] with SHA-256 and use output[:4] against nonce[len-4:]", Run: r09_4},
			{ID: "R09.5", Floor: 4, Text: "nonce progression", Run: r09_5},
			{ID: "R09.7", Floor: 2, Text: "MaxSessionOpenPayload == 1024, enforced by sessionStruct.Unmarshal and by Session.Write's piggyback test", Run: r09_7},
			{ID: "R09.9", Floor: 5, Text: "payload carried by any session or data segment is delivered: the reader hands out the payload of every dequeued segment (shared with R01.7); the protocol allows a payload on the open session response", Run: r01_7},
			{ID: "R09.10", Floor: 5, Text: "time-salt slots: one rounding (round to nearest) shared by the salt derivation and the key-cache epoch, the three documented slots (shared with R08.1)", Run: r08_1},
			{ID: "R09.8", Floor: 10, Text: "low-entropy tables and rotation semantics; UDP associate frame", Run: func(c *RC) { ruleLowEntropyTables(c); ruleRotation(c); ruleAssociateFrame(c) }},
		},
	}
}

func r09_1(c *RC) {
	p := c.P
	tables, _, derr := readDocTables(p.Dir)
	if ml := p.Const(protoPkg, "MetadataLength"); ml == nil {
		c.Anchor("MetadataLength")
	} else if v, _ := constant.Int64Val(ml.(*types.Const).Val()); v != 32 {
		c.Bad("metadata-length", ml.Pos(), "MetadataLength is %d, the protocol fixes it at 32", v)
	} else {
		c.OK("metadata-length", ml.Pos(), "MetadataLength == 32")
	}
	for _, tn := range []string{"sessionStruct", "dataAckStruct"} {
		mf := p.Fn(protoPkg, tn+".Marshal")
		uf := p.Fn(protoPkg, tn+".Unmarshal")
		if mf == nil || uf == nil {
			c.Anchor(tn + ".Marshal/Unmarshal")
			continue
		}
		mt, mp := marshalTable(mf)
		ut, up := unmarshalTable(uf)
		for _, pr := range append(mp, up...) {
			c.Undecided("layout-idiom:"+tn, mf.Pos(), "%s", pr)
		}
		// endianness
		le := false
		for _, w := range append(append([]wireField{}, mt...), ut...) {
			if w.Order == "LE" {
				le = true
				c.Bad("byte-order:"+tn, mf.Pos(), "field %s at offset %d is encoded little endian; the protocol is big endian throughout", w.Field, w.Off)
			}
		}
		if !le {
			c.OK("byte-order:"+tn, mf.Pos(), "all multi-byte fields use binary.BigEndian")
		}
		// the timestamp is stored by Marshal itself before being written: fine.
		mk, uk := wireKey(mt, true), wireKey(ut, true)
		if mk == uk {
			c.OKH("marshal-vs-unmarshal:"+tn, mf.Pos(), "writer and reader tables agree field by field: %s", mk)
		} else {
			c.Bad("marshal-vs-unmarshal:"+tn, mf.Pos(), "writer and reader disagree. Marshal: [%s]  Unmarshal: [%s]", mk, uk)
		}
		got := wireKey(mt, false)
		if got == specLayouts[tn] {
			c.OKH("layout-vs-spec:"+tn, mf.Pos(), "offsets/widths equal the frozen transcription of the published layout: %s", got)
		} else {
			c.Bad("layout-vs-spec:"+tn, mf.Pos(), "the %s wire layout [%s] differs from the published protocol [%s]: third-party peers and other releases cannot decode it (a symmetric change passes every self-consistency test)", tn, got, specLayouts[tn])
		}
		// document
		if derr != nil {
			c.Info("doc:"+tn, "oracle text not found: "+derr.Error())
			continue
		}
		found := false
		for _, t := range tables {
			for _, h := range specDocHeadings[tn] {
				if t.Heading != h {
					continue
				}
				lay, ok := layoutFromDoc(t)
				if !ok {
					continue
				}
				found = true
				dk := wireKey(lay, false)
				if dk == got {
					c.OKH("layout-vs-document:"+tn, mf.Pos(), "equals the table under %q in docs/protocol.md as read on this run", h)
					// same-width swaps: a field whose name fits another cell of the
					// same width better than its own
					for _, a := range mt {
						for _, b := range mt {
							if a.Off >= b.Off || a.Width != b.Width {
								continue
							}
							da, db := docNameAt(lay, a.Off), docNameAt(lay, b.Off)
							if da == "" || db == "" {
								continue
							}
							if !nameFits(a.Field, da) && !nameFits(b.Field, db) && nameFits(a.Field, db) && nameFits(b.Field, da) {
								c.Bad("field-swap:"+tn, mf.Pos(), "fields %s (offset %d) and %s (offset %d) are exchanged with respect to the published layout (%q at %d, %q at %d): a symmetric swap in Marshal and Unmarshal passes every self-consistency test but breaks interoperability", a.Field, a.Off, b.Field, b.Off, da, a.Off, db, b.Off)
							}
						}
					}
				} else if dk == specLayouts[tn] {
					// code differs from both: already reported above
					c.Bad("layout-vs-document:"+tn, mf.Pos(), "code layout [%s] differs from docs/protocol.md [%s]", got, dk)
				} else {
					c.Bad("layout-vs-document:"+tn, mf.Pos(), "docs/protocol.md table %q [%s] differs from the code [%s] (and from the frozen transcription): the published protocol changed or the code drifted", h, dk, got)
				}
			}
		}
		if !found {
			c.Info("doc:"+tn, "oracle text not found in docs/protocol.md; frozen transcription alone decides")
		}
	}
	// plain data metadata table: same as the extension without the four low-entropy cells
	for _, t := range tables {
		if t.Heading == "Data Metadata" {
			lay, ok := layoutFromDoc(t)
			if ok {
				want := "0/1 10/4 14/4 18/2 2/4 20/1 21/1 22/2 24/1 6/4"
				if wireKey(lay, false) == want {
					c.OK("document:data-metadata", 0, "the plain data metadata table of the document is the extension table minus the low-entropy cells")
				} else {
					c.Bad("document:data-metadata", 0, "document table 'Data Metadata' is [%s], expected [%s]", wireKey(lay, false), want)
				}
			}
		}
	}
}

func r09_2(c *RC) {
	p := c.P
	consts := protocolConsts(p)
	_, doc, derr := readDocTables(p.Dir)
	for name, want := range specProtocols {
		key := "protocol:" + name
		got, ok := consts[name]
		pos := token.NoPos
		if o := p.Const(protoPkg, name); o != nil {
			pos = o.Pos()
		}
		switch {
		case !ok:
			c.Bad(key, pos, "protocol constant %s no longer exists", name)
		case got != want:
			c.Bad(key, pos, "%s = %d in the code, %d in the published protocol", name, got, want)
		case derr == nil && doc[name] != 0 && doc[name] != got:
			c.Bad(key, pos, "%s = %d in the code, %d in docs/protocol.md", name, got, doc[name])
		default:
			src := "frozen transcription"
			if derr == nil && doc[name] == got {
				src += " and docs/protocol.md"
			}
			c.OK(key, pos, "%s = %d (%s)", name, got, src)
		}
	}
}

func r09_3(c *RC) {
	p := c.P
	chk := func(key string, obj types.Object, want int64, what string) {
		if obj == nil {
			c.Anchor(key)
			return
		}
		v, _ := constant.Int64Val(obj.(*types.Const).Val())
		if v == want {
			c.OK(key, obj.Pos(), "%s == %d", what, want)
		} else {
			c.Bad(key, obj.Pos(), "%s is %d, the published protocol says %d: keys derived by other implementations/releases no longer match", what, v, want)
		}
	}
	chk("KeyIter", p.Const("pkg/cipher", "KeyIter"), 64, "PBKDF2 iteration count")
	chk("KeyRefreshInterval", p.Const("pkg/cipher", "KeyRefreshInterval"), 120e9, "key refresh interval (ns)")
	chk("DefaultKeyLen", p.Const("pkg/cipher", "DefaultKeyLen"), 32, "key length")
	chk("DefaultNonceSize", p.Const("pkg/cipher", "DefaultNonceSize"), 24, "nonce size")
	chk("DefaultOverhead", p.Const("pkg/cipher", "DefaultOverhead"), 16, "AEAD tag size")
	// pbkdf2.Key call
	n := 0
	for _, fn := range p.Funcs("pkg/cipher") {
		instrs(fn, func(_ *ssa.BasicBlock, _ int, in ssa.Instruction) {
			call, ok := in.(*ssa.Call)
			if !ok || calleeID(call) != "golang.org/x/crypto/pbkdf2.Key" {
				return
			}
			n++
			args := call.Common().Args
			key := "pbkdf2@" + fnName(fn)
			var problems []string
			// hash
			if hf, ok := args[4].(*ssa.Function); !ok || hf.String() != "crypto/sha256.New" {
				problems = append(problems, "hash constructor is "+describe(args[4])+", not sha256.New")
			}
			// iterations: field Iter of pbkdf2Gen: all stores constant KeyIter
			if f := fieldOrigin(args[2]); f != nil && f.Name() == "Iter" {
				for _, s := range p.FieldStores(f) {
					if k, ok := constInt(s.Val); !ok || k != 64 {
						problems = append(problems, "iteration count field set to "+describe(s.Val)+" at "+p.Pos(s.Pos()))
					}
				}
			} else if k, ok := constInt(args[2]); !ok || k != 64 {
				problems = append(problems, "iteration count is "+describe(args[2]))
			}
			// key length: parameter -> callers
			if prm, ok := args[3].(*ssa.Parameter); ok {
				for _, cs := range p.CallsToFn(fn) {
					cargs := cs.Instr.(ssa.CallInstruction).Common().Args
					for i, fp := range fn.Params {
						if fp == prm {
							if k, ok := constInt(cargs[i]); !ok || k != 32 {
								problems = append(problems, "key length passed as "+describe(cargs[i])+" at "+p.Pos(cs.Pos()))
							}
						}
					}
				}
			} else if k, ok := constInt(args[3]); !ok || k != 32 {
				problems = append(problems, "key length is "+describe(args[3]))
			}
			if len(problems) == 0 {
				c.OKH(key, call.Pos(), "pbkdf2.Key(password, salt, 64, 32, sha256.New)")
			} else {
				c.Bad(key, call.Pos(), "%s", strings.Join(problems, "; "))
			}
		})
	}
	if n == 0 {
		c.Bad("pbkdf2", 0, "no call of golang.org/x/crypto/pbkdf2.Key in pkg/cipher")
	}
	// salt
	if sf := p.Fn("pkg/cipher", "saltFromTime"); sf == nil {
		c.Anchor("cipher.saltFromTime")
	} else {
		var problems []string
		put, sum, round := false, false, false
		instrs(sf, func(_ *ssa.BasicBlock, _ int, in ssa.Instruction) {
			call, ok := in.(*ssa.Call)
			if !ok {
				return
			}
			if ord, op, w, ok := binaryCall(call); ok && op == "put" {
				if ord != "BE" || w != 8 {
					problems = append(problems, fmt.Sprintf("time written with %s width %d", ord, w))
				}
				put = true
				// value = uint64(t.Unix())
				unix := false
				for _, l := range Leaves(call.Common().Args[2], nil) {
					if cl, ok := l.(*ssa.Call); ok && calleeID(cl) == "(time.Time).Unix" {
						unix = true
					}
				}
				if !unix {
					problems = append(problems, "salt input is not t.Unix()")
				}
			}
			switch calleeID(call) {
			case "crypto/sha256.Sum256":
				sum = true
			case "(time.Time).Round":
				if k, ok := constInt(call.Common().Args[1]); ok && k == 120e9 {
					round = true
				}
			}
		})
		if !put {
			problems = append(problems, "no binary.BigEndian.PutUint64 of the time")
		}
		if !sum {
			problems = append(problems, "no sha256.Sum256 of the time bytes")
		}
		if !round {
			problems = append(problems, "time is not rounded to KeyRefreshInterval (2 minutes)")
		}
		// buffer length 8
		if len(problems) == 0 {
			c.OKH("salt@saltFromTime", sf.Pos(), "salt = SHA-256(big-endian uint64(Round(t, 2 min).Unix())) ")
		} else {
			c.Bad("salt@saltFromTime", sf.Pos(), "%s", strings.Join(problems, "; "))
		}
	}
	// hashed password
	if hp := p.Fn("pkg/cipher", "HashPassword"); hp == nil {
		c.Anchor("cipher.HashPassword")
	} else {
		// Sum256(append(append(rawPassword, 0), uniqueValue...))
		ok := false
		instrs(hp, func(_ *ssa.BasicBlock, _ int, in ssa.Instruction) {
			call, isCall := in.(*ssa.Call)
			if !isCall || calleeID(call) != "crypto/sha256.Sum256" {
				return
			}
			outer, isA := call.Common().Args[0].(*ssa.Call)
			if !isA || calleeNameAny(outer) != "append" {
				return
			}
			inner, isA := outer.Common().Args[0].(*ssa.Call)
			if !isA || calleeNameAny(inner) != "append" {
				return
			}
			if inner.Common().Args[0] != ssa.Value(hp.Params[0]) || outer.Common().Args[1] != ssa.Value(hp.Params[1]) {
				return
			}
			if bs, okb := constBytes(inner.Common().Args[1]); okb && len(bs) == 1 && bs[0] == 0 {
				ok = true
			}
		})
		if ok {
			c.OKH("hashed-password", hp.Pos(), "SHA-256(password || 0x00 || username)")
		} else {
			c.Bad("hashed-password", hp.Pos(), "HashPassword is not sha256.Sum256(append(append(password, 0x00), username...))")
		}
	}
}

func r09_4(c *RC) {
	p := c.P
	pre := p.Const("pkg/cipher", "NoncePrefixLenForUserHint")
	suf := p.Const("pkg/cipher", "NonceSuffixLenForUserHint")
	if pre == nil || suf == nil {
		c.Anchor("cipher.Nonce{Prefix,Suffix}LenForUserHint")
		return
	}
	pv, _ := constant.Int64Val(pre.(*types.Const).Val())
	sv, _ := constant.Int64Val(suf.(*types.Const).Val())
	if pv == 16 && sv == 4 {
		c.OK("hint-constants", pre.Pos(), "prefix 16, suffix 4")
	} else {
		c.Bad("hint-constants", pre.Pos(), "user hint uses nonce[:%d] and %d output bytes; the protocol says 16 and 4", pv, sv)
	}
	for _, fname := range []string{"aeadBlockCipher.addUserHintToNonce", "CheckUserFromHint"} {
		fn := p.Fn("pkg/cipher", fname)
		if fn == nil {
			c.Anchor("cipher." + fname)
			continue
		}
		sum, prefix16, out4, tail4 := false, false, false, false
		// (the hash may be computed in a helper shared by both functions)
		for _, hf := range withHelpers(p, fn, 2) {
			instrs(hf, func(_ *ssa.BasicBlock, _ int, in ssa.Instruction) {
				switch x := in.(type) {
				case *ssa.Call:
					if calleeID(x) == "crypto/sha256.Sum256" {
						sum = true
					}
				case *ssa.Slice:
					hi, hok := int64(-1), false
					if x.High != nil {
						hi, hok = constInt(x.High)
					}
					if x.Low == nil && hok && hi == 16 {
						prefix16 = true
					}
					if x.Low == nil && hok && hi == 4 {
						out4 = true
					}
					if x.Low != nil {
						if bo, ok := x.Low.(*ssa.BinOp); ok && bo.Op == token.SUB {
							if k, ok := constInt(bo.Y); ok && k == 4 {
								if cl, ok := bo.X.(*ssa.Call); ok && calleeNameAny(cl) == "len" {
									tail4 = true
								}
							}
						}
					}
				}
			})
		}
		key := "hint@" + fname
		if sum && prefix16 && out4 && tail4 {
			c.OKH(key, fn.Pos(), "SHA-256 over name||nonce[:16]; output[:4] against nonce[len-4:]")
		} else {
			c.Bad(key, fn.Pos(), "user hint construction differs from the protocol (sha256=%v nonce[:16]=%v output[:4]=%v nonce[len-4:]=%v)", sum, prefix16, out4, tail4)
		}
	}
}

func r09_5(c *RC) {
	p := c.P
	inc := p.Fn("pkg/cipher", "aeadBlockCipher.increaseNonce")
	if inc == nil {
		c.Anchor("cipher.aeadBlockCipher.increaseNonce")
		return
	}
	// (1) index = len(nonce)-1-i with i ranging to len(nonce); (2) no encoding/binary; (3) += 1 on that element; (4) break when != 0
	var problems []string
	idxOK, incOK, fullRange := false, false, false
	instrs(inc, func(_ *ssa.BasicBlock, _ int, in ssa.Instruction) {
		switch x := in.(type) {
		case *ssa.Call:
			if strings.Contains(calleeID(x), "encoding/binary") {
				problems = append(problems, "uses encoding/binary on part of the nonce")
			}
		case *ssa.Store:
			ia, ok := x.Addr.(*ssa.IndexAddr)
			if !ok {
				return
			}
			if f := fieldOrigin(ia.X); f == nil || f.Name() != "implicitNonce" {
				return
			}
			// index
			if bo, ok := ia.Index.(*ssa.BinOp); ok && bo.Op == token.SUB {
				if isLoopIndex(bo.Y) {
					if b2, ok := bo.X.(*ssa.BinOp); ok && b2.Op == token.SUB {
						if k, ok := constInt(b2.Y); ok && k == 1 {
							if cl, ok := b2.X.(*ssa.Call); ok && calleeNameAny(cl) == "len" {
								idxOK = true
							}
						}
					}
				}
			}
			// or a descending index: j starts at len(nonce)-1, steps by -1,
			// runs while j >= 0, and the element is nonce[j]
			if phi, ok := ia.Index.(*ssa.Phi); ok {
				initOK, stepOK := false, false
				for _, e := range phi.Edges {
					if bo, ok := e.(*ssa.BinOp); ok {
						k, isK := constInt(bo.Y)
						switch {
						case bo.Op == token.SUB && isK && k == 1 && bo.X == ssa.Value(phi):
							stepOK = true
						case bo.Op == token.ADD && isK && k == -1 && bo.X == ssa.Value(phi):
							stepOK = true
						case bo.Op == token.SUB && isK && k == 1:
							if cl, ok := bo.X.(*ssa.Call); ok && calleeNameAny(cl) == "len" {
								if f := fieldOrigin(cl.Common().Args[0]); f != nil && f.Name() == "implicitNonce" {
									initOK = true
								}
							}
						}
					}
				}
				boundOK := false
				for _, r := range *phi.Referrers() {
					if bo, ok := r.(*ssa.BinOp); ok && bo.X == ssa.Value(phi) {
						if k, isK := constInt(bo.Y); isK && ((bo.Op == token.GEQ && k == 0) || (bo.Op == token.GTR && k == -1)) {
							boundOK = true
						}
					}
				}
				if initOK && stepOK && boundOK {
					idxOK, fullRange = true, true
				}
			}
			if bo, ok := x.Val.(*ssa.BinOp); ok && bo.Op == token.ADD {
				if k, ok := constInt(bo.Y); ok && k == 1 {
					incOK = true
				}
			}
		case *ssa.If:
			if bo, ok := x.Cond.(*ssa.BinOp); ok && bo.Op == token.LSS {
				if isLoopIndex(bo.X) {
					if cl, ok := bo.Y.(*ssa.Call); ok && calleeNameAny(cl) == "len" {
						if f := fieldOrigin(cl.Common().Args[0]); f != nil && f.Name() == "implicitNonce" {
							fullRange = true
						}
					}
				}
			}
		}
	})
	if !idxOK {
		problems = append(problems, "the element incremented is not nonce[len-1-i] (ascending i) nor nonce[j] with j descending from len-1")
	}
	if !incOK {
		problems = append(problems, "the element is not incremented by 1")
	}
	if !fullRange {
		problems = append(problems, "the carry loop does not range over the whole nonce")
	}
	if len(problems) == 0 {
		c.OKH("increaseNonce", inc.Pos(), "big-endian +1 with carry over all len(nonce) bytes")
	} else {
		c.Bad("increaseNonce", inc.Pos(), "TCP nonce progression differs from the protocol (24-byte big-endian increment by one): %s", strings.Join(problems, "; "))
	}
	// Encrypt / Decrypt call increaseNonce exactly on the 'implicit nonce already set' edge
	for _, m := range []string{"Encrypt", "Decrypt"} {
		fn := p.Fn("pkg/cipher", "aeadBlockCipher."+m)
		if fn == nil {
			c.Anchor("cipher.aeadBlockCipher." + m)
			continue
		}
		n := 0
		good := false
		instrs(fn, func(_ *ssa.BasicBlock, _ int, in ssa.Instruction) {
			call, ok := in.(*ssa.Call)
			if !ok || call.Common().StaticCallee() != inc {
				return
			}
			n++
			imp, set := false, false
			isLenNonce := func(v ssa.Value) bool {
				cl, ok := v.(*ssa.Call)
				if !ok || calleeNameAny(cl) != "len" {
					return false
				}
				f := fieldOrigin(cl.Common().Args[0])
				return f != nil && f.Name() == "implicitNonce"
			}
			for _, e := range controllingEdges(in.Block()) {
				atom, neg := condAtom(e.If.Cond)
				holds := (e.Idx == 0) != neg // truth of atom on this edge
				if f := fieldOrigin(atom); f != nil && f.Name() == "enableImplicitNonce" && holds {
					imp = true
				}
				// len(nonce) != 0 / > 0 on this edge, however it is spelled
				for _, op := range []token.Token{token.NEQ, token.GTR} {
					want := op
					if e.Idx == 1 {
						want = map[token.Token]token.Token{token.NEQ: token.EQL, token.GTR: token.LEQ}[op]
					}
					if cmpForm(e.If.Cond, want, isLenNonce, isZero) {
						set = true
					}
				}
			}
			if imp && set {
				good = true
			}
		})
		key := "progression@" + m
		if n == 1 && good {
			c.OKH(key, fn.Pos(), "%s increments the nonce exactly when implicit mode is on and a nonce is already established", m)
		} else {
			c.Bad(key, fn.Pos(), "%s calls increaseNonce %d time(s), guarded as required: %v — the two directions would lose nonce synchronisation with a conforming peer", m, n, good)
		}
	}
	// UDP: payload sealed with the metadata nonce of the same datagram
	wf := p.Fn(protoPkg, "PacketUnderlay.writeOneSegment")
	if wf == nil {
		c.Anchor("PacketUnderlay.writeOneSegment")
		return
	}
	n := 0
	bad := 0
	instrs(wf, func(_ *ssa.BasicBlock, _ int, in ssa.Instruction) {
		call, ok := in.(*ssa.Call)
		if !ok || !call.Common().IsInvoke() || call.Common().Method.Name() != "EncryptWithNonce" {
			return
		}
		n++
		nonce := call.Common().Args[1]
		dst := call.Common().Args[0]
		// nonce must be a prefix slice [:NonceSize()] of the same buffer the payload is written to
		sl, ok := nonce.(*ssa.Slice)
		if !ok || sl.Low != nil || sliceRoot(sl) != sliceRoot(dst) {
			bad++
			return
		}
		if hc, ok := sl.High.(*ssa.Call); !ok || !hc.Common().IsInvoke() || hc.Common().Method.Name() != "NonceSize" {
			bad++
		}
	})
	if n >= 2 && bad == 0 {
		c.OKH("udp-nonce-sharing", wf.Pos(), "both EncryptWithNonce calls use dataToSend[:NonceSize()] of the datagram being built")
	} else {
		c.Bad("udp-nonce-sharing", wf.Pos(), "UDP payload is not sealed with the nonce at the head of its own datagram (%d calls, %d non-conforming)", n, bad)
	}
}

func r09_7(c *RC) {
	p := c.P
	mo := p.Const(protoPkg, "MaxSessionOpenPayload")
	if mo == nil {
		c.Anchor("MaxSessionOpenPayload")
		return
	}
	v, _ := constant.Int64Val(mo.(*types.Const).Val())
	if v != 1024 {
		c.Bad("limit", mo.Pos(), "MaxSessionOpenPayload is %d, the protocol says 1024", v)
	} else {
		c.OK("limit", mo.Pos(), "MaxSessionOpenPayload == 1024")
	}
	for _, fname := range []string{"sessionStruct.Unmarshal", "Session.Write"} {
		fn := p.Fn(protoPkg, fname)
		if fn == nil {
			c.Anchor(fname)
			continue
		}
		found := false
		for _, f := range withHelpers(p, fn, 2) {
			instrs(f, func(_ *ssa.BasicBlock, _ int, in ssa.Instruction) {
				bo, ok := in.(*ssa.BinOp)
				if !ok {
					return
				}
				switch bo.Op {
				case token.GTR, token.LEQ, token.LSS, token.GEQ:
				default:
					return
				}
				for _, v := range []ssa.Value{bo.X, bo.Y} {
					if k, ok := constInt(v); ok && k == 1024 {
						found = true
					}
				}
			})
		}
		if found {
			c.OK("limit@"+fname, fn.Pos(), "compares against 1024")
		} else {
			c.Bad("limit@"+fname, fn.Pos(), "%s no longer enforces the 1024-byte session payload limit", fname)
		}
	}
}

// ------------------------------------------------------------------ shared with C17 / C18

func ruleLowEntropyTables(c *RC) {
	p := c.P
	bp := p.Fn(protoPkg, "buildLowEntropyParams")
	if bp == nil {
		c.Anchor("buildLowEntropyParams")
		return
	}
	want := map[int64][2]int64{1: {4, 16}, 2: {5, 20}, 3: {6, 24}, 4: {7, 28}}
	// document rows
	docRows := map[int64][2]int64{}
	if tables, _, err := readDocTables(p.Dir); err == nil {
		for _, t := range tables {
			if strings.HasSuffix(t.Heading, "#row") && len(t.Names) >= 4 && strings.HasPrefix(t.Names[0], "mode") {
				var m, cc, ones int64
				fmt.Sscan(t.Widths[0], &m)
				fmt.Sscan(t.Widths[2], &cc)
				fmt.Sscan(t.Widths[3], &ones)
				if m > 0 {
					docRows[m] = [2]int64{cc, ones}
				}
			}
		}
	}
	for mode := int64(0); mode <= 5; mode++ {
		f := &Folder{P: p}
		outs := f.Eval(bp, []cval{cInt(mode)})
		key := fmt.Sprintf("mode-params:%d", mode)
		if len(outs) != 1 || !outs[0].Returned {
			c.Undecided(key, bp.Pos(), "buildLowEntropyParams(%d) does not fold to a single return", mode)
			continue
		}
		r := outs[0]
		isErr := !r.Results[1].isNil
		w, valid := want[mode]
		if !valid {
			if isErr {
				c.OKH(key, bp.Pos(), "mode %d rejected", mode)
			} else {
				c.Bad(key, bp.Pos(), "buildLowEntropyParams accepts mode %d, which the protocol does not define", mode)
			}
			continue
		}
		if isErr {
			c.Bad(key, bp.Pos(), "buildLowEntropyParams rejects documented mode %d", mode)
			continue
		}
		// the struct behind result 0, as folded (literal or table entry)
		var got [2]int64
		if st, ok := bp.Signature.Results().At(0).Type().Underlying().(*types.Struct); ok && r.Results[0].fields != nil {
			for i := 0; i < st.NumFields(); i++ {
				fv, has := r.Results[0].fields[i]
				if !has || !fv.known {
					continue
				}
				k, _ := constant.Int64Val(fv.v)
				switch st.Field(i).Name() {
				case "sourceBytesPerChunk":
					got[0] = k
				case "halfMaskOnes":
					got[1] = k
				}
			}
		}
		switch {
		case got != w:
			c.Bad(key, r.Ret.Pos(), "mode %d uses C=%d source bytes per chunk and %d one-bits per half-mask; the published table says C=%d, %d", mode, got[0], got[1], w[0], w[1])
		case len(docRows) > 0 && docRows[mode] != got:
			c.Bad(key, r.Ret.Pos(), "mode %d: code (%d,%d) differs from docs/protocol.md (%d,%d)", mode, got[0], got[1], docRows[mode][0], docRows[mode][1])
		default:
			c.OKH(key, r.Ret.Pos(), "mode %d -> C=%d, half-mask ones=%d (frozen transcription%s)", mode, got[0], got[1], map[bool]string{true: " and document", false: ""}[len(docRows) > 0])
		}
	}
	if cl := p.Const(protoPkg, "lowEntropyChunkLen"); cl == nil {
		c.Anchor("lowEntropyChunkLen")
	} else if v, _ := constant.Int64Val(cl.(*types.Const).Val()); v != 8 {
		c.Bad("chunk-len", cl.Pos(), "lowEntropyChunkLen is %d, the protocol encodes 8-byte chunks", v)
	} else {
		c.OK("chunk-len", cl.Pos(), "8-byte chunks")
	}
}

func ruleRotation(c *RC) {
	p := c.P
	iv := p.Fn(protoPkg, "isValidLowEntropyRotation")
	rot := p.Fn(protoPkg, "rotateLowEntropyMask")
	if iv == nil || rot == nil {
		c.Anchor("isValidLowEntropyRotation / rotateLowEntropyMask")
		return
	}
	valid := func(r int64) bool {
		return r == 0 || (r >= 1 && r <= 15) || (r >= 16 && r <= 240 && r%16 == 0)
	}
	var wrong []string
	for r := int64(-2); r <= 300; r++ {
		f := &Folder{P: p}
		outs := f.Eval(iv, []cval{cInt(r)})
		if len(outs) != 1 || !outs[0].Returned || !outs[0].Results[0].known {
			c.Undecided("rotation-valid-set", iv.Pos(), "isValidLowEntropyRotation(%d) does not fold to a constant", r)
			return
		}
		got := constant.BoolVal(outs[0].Results[0].v)
		if got != valid(r) {
			wrong = append(wrong, fmt.Sprintf("%d->%v", r, got))
		}
	}
	if len(wrong) == 0 {
		c.OKH("rotation-valid-set", iv.Pos(), "accepts exactly {0, 1..15, 16k for k=1..15} (folded for -2..300)")
	} else {
		if len(wrong) > 12 {
			wrong = append(wrong[:12], "…")
		}
		c.Bad("rotation-valid-set", iv.Pos(), "isValidLowEntropyRotation deviates from the documented set {0, 1..15, 16*k}: %s", strings.Join(wrong, " "))
	}
	// direction and amount
	bad := 0
	total := 0
	var first string
	for _, r := range []int64{0, 1, 3, 15, 16, 48, 240} {
		for _, i := range []int64{0, 1, 2, 5, 70} {
			var counts []cval
			f := &Folder{P: p, OnCall: func(call *ssa.Call, args []cval) {
				if calleeID(call) == "math/bits.RotateLeft64" {
					counts = append(counts, args[1])
				}
			}}
			outs := f.Eval(rot, []cval{{}, cInt(r), cInt(i)})
			total++
			var want int64
			switch {
			case r == 0 || i == 0:
				want = 0
			case r <= 15:
				want = -((i % 64) * r)
			default:
				want = (i % 64) * (r / 16)
			}
			ok := false
			if want == 0 && (r == 0 || i == 0) {
				// must return the initial mask: no rotate call at all
				ok = len(counts) == 0 && len(outs) == 1
			} else if len(counts) == 1 && counts[0].known {
				got, _ := constant.Int64Val(counts[0].v)
				// rotation amounts are equivalent modulo 64
				ok = ((got-want)%64+64)%64 == 0
				if !ok && first == "" {
					first = fmt.Sprintf("rotation byte %d, chunk %d: rotates left by %d, the protocol requires %d", r, i, got, want)
				}
			}
			if !ok {
				bad++
				if first == "" {
					first = fmt.Sprintf("rotation byte %d, chunk %d: cannot fold to a single RotateLeft64 call", r, i)
				}
			}
		}
	}
	if bad == 0 {
		c.OKH("rotation-direction", rot.Pos(), "chunk i uses the initial mask rotated right by i*R for R in 1..15 and left by i*k for R=16k (%d (R,i) pairs folded)", total)
	} else {
		c.Bad("rotation-direction", rot.Pos(), "mask rotation differs from the published rule in %d of %d folded cases; e.g. %s", bad, total, first)
	}
}

func ruleAssociateFrame(c *RC) {
	p := c.P
	wr := p.Fn("apis/common", "PacketOverStreamTunnel.Write")
	rd := p.Fn("apis/common", "PacketOverStreamTunnel.Read")
	if wr == nil || rd == nil {
		c.Anchor("apis/common.PacketOverStreamTunnel.Read/Write")
		return
	}
	// Write: constants 0x00 at [0], BE uint16 length at [1:], 0xff at end.
	// The frame is built where the buffer handed to Conn.Write is made.
	builder := frameBuilder(p, wr)
	mt, _ := marshalTable(builder)
	appended := false
	if parts, ok := appendFrameLayout(p, wr); ok {
		appended = true
		if strings.Join(parts, " ") == "byte:0 BE16:len payload byte:255" {
			c.OKH("frame@Write", wr.Pos(), "0x00 | uint16 BE length | data | 0xff (built by appending in this order)")
		} else {
			c.Bad("frame@Write", wr.Pos(), "UDP-associate frame writer deviates from `0x00 | uint16 length | data | 0xff`: it appends [%s]", strings.Join(parts, " "))
		}
	}
	has := func(off, w int64, field string) bool {
		for _, x := range mt {
			if x.Off == off && x.Width == w && (field == "" || strings.HasPrefix(x.Field, field)) {
				return true
			}
		}
		return false
	}
	w0 := has(0, 1, "const:0")
	wl := has(1, 2, "")
	for _, x := range mt {
		if x.Off == 1 && x.Order != "BE" {
			wl = false
		}
	}
	wff := false
	instrs(builder, func(_ *ssa.BasicBlock, _ int, in ssa.Instruction) {
		if st, ok := in.(*ssa.Store); ok {
			if k, ok := constInt(st.Val); ok && k == 255 {
				wff = true
			}
		}
	})
	if appended {
		// judged above
	} else if w0 && wl && wff {
		c.OKH("frame@Write", wr.Pos(), "0x00 | uint16 BE length | data | 0xff")
	} else {
		c.Bad("frame@Write", wr.Pos(), "UDP-associate frame writer deviates from `0x00 | uint16 length | data | 0xff` (marker0=%v length@1=%v marker0xff=%v): [%s]", w0, wl, wff, wireKey(mt, true))
	}
	// Read: compares with 0x00 and 0xff, BE Uint16 (a marker helper gets the
	// expected byte as an argument: resolve it through the call sites)
	c0, cff, be := false, false, false
	for _, f := range withHelpers(p, rd, 2) {
		instrs(f, func(_ *ssa.BasicBlock, _ int, in ssa.Instruction) {
			switch x := in.(type) {
			case *ssa.BinOp:
				if x.Op == token.NEQ || x.Op == token.EQL {
					for _, k := range markerConsts(p, f, x) {
						if k == 0 {
							c0 = true
						}
						if k == 255 {
							cff = true
						}
					}
				}
			case *ssa.Call:
				if ord, op, w, ok := binaryCall(x); ok && op == "get" && ord == "BE" && w == 2 {
					be = true
				}
			}
		})
	}
	if c0 && cff && be {
		c.OKH("frame@Read", rd.Pos(), "checks 0x00, reads uint16 BE length, checks 0xff")
	} else {
		c.Bad("frame@Read", rd.Pos(), "UDP-associate frame reader deviates (marker 0x00 checked=%v, 0xff checked=%v, BE uint16 length=%v)", c0, cff, be)
	}
}

// frameBuilder: the function that makes the buffer PacketOverStreamTunnel.Write
// hands to the stream - Write itself, or the helper it gets the frame from.
func frameBuilder(p *Prog, wr *ssa.Function) *ssa.Function {
	builder := wr
	instrs(wr, func(_ *ssa.BasicBlock, _ int, in ssa.Instruction) {
		cl, ok := in.(*ssa.Call)
		if !ok || !cl.Common().IsInvoke() || cl.Common().Method.Name() != "Write" {
			return
		}
		for _, l := range LeavesX(p, wr, cl.Common().Args[0], 0) {
			if mk, ok := l.(*ssa.MakeSlice); ok && mk.Parent() != nil {
				builder = mk.Parent()
			}
		}
	})
	return builder
}

// markerConsts: the byte constants a comparison tests a frame byte against,
// also when the constant arrives as an argument of a marker-reading helper.
func markerConsts(p *Prog, f *ssa.Function, bo *ssa.BinOp) []int64 {
	var out []int64
	if !strings.HasSuffix(bo.X.Type().String(), "uint8") && !strings.HasSuffix(bo.X.Type().String(), "byte") {
		return nil
	}
	for _, side := range []ssa.Value{bo.X, bo.Y} {
		for _, l := range LeavesIP(p, f, side, 0) {
			if k, ok := constInt(l); ok {
				out = append(out, k)
			}
		}
	}
	return out
}

// isLoopIndex: a loop induction variable as go/ssa builds it: a phi, or
// phi+1 for range loops (which start at -1).
func isLoopIndex(v ssa.Value) bool {
	if _, ok := v.(*ssa.Phi); ok {
		return true
	}
	if bo, ok := v.(*ssa.BinOp); ok && bo.Op == token.ADD {
		if _, ok := bo.X.(*ssa.Phi); ok {
			if k, ok := constInt(bo.Y); ok && k == 1 {
				return true
			}
		}
	}
	return false
}

func docNameAt(lay []wireField, off int64) string {
	for _, l := range lay {
		if l.Off == off {
			return l.Field
		}
	}
	return ""
}

// nameFits: the struct field name, lower-cased, is a subsequence of the
// document's cell name with spaces removed ("seq" fits "sequence number").
func nameFits(field, doc string) bool {
	f := strings.ToLower(field)
	d := strings.ToLower(strings.ReplaceAll(doc, " ", ""))
	i := 0
	for j := 0; j < len(d) && i < len(f); j++ {
		if d[j] == f[i] {
			i++
		}
	}
	return i == len(f)
}
