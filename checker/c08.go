package main

import (
	"fmt"
	"go/constant"
	"go/token"
	"go/types"
	"strings"

	"golang.org/x/tools/go/ssa"
)

func init() { register("C08", propC08) }

func propC08() *Property {
	return &Property{
		ID:         "C08",
		Decides:    "R08.1 one definition of the key slot: saltFromTime and cipherKeyEpoch both round the instant to the same KeyRefreshInterval constant (120 s); salts are derived for exactly rounded-1, rounded, rounded+1 intervals; the client encrypts with the middle key, the server tries all; R08.2 the metadata timestamp is Unix()/60 in both writers and both readers, the acceptance margin is the constant 1, and the WithinRange instance used on the unsigned minute counter folds to `true` exactly for |difference| <= 1 (including when the sender is ahead); R08.3 cached key material is tagged with the slot of the instant it was derived for and is reused only while the current slot equals that tag. With these constants: |d| <= 60 s implies minute counters differ by at most 1 and rounded 120-s slots differ by at most 1 (accepted); a timestamp >= 2 minutes away fails margin 1; a key derived >= 240 s away is >= 2 slots away and is not among the three. The checker decides the constants and the structure; that two-line arithmetic is recorded here, not executed.",
		NotDecided: "the continuum of instants and skews (the arithmetic is argued, not enumerated); cache age/jitter behaviour; time.Time.Round itself (library).",
		Rules: []Rule{
			{ID: "R08.1", Floor: 5, Text: "slot arithmetic: same rounding in saltFromTime and cipherKeyEpoch; offsets {-1,0,+1} intervals; client index 1; server iterates the whole list", Run: r08_1},
			{ID: "R08.2", Floor: 8, Text: "timestamp unit and acceptance margin; WithinRange[uint32] folded for differences -3..+3", Run: r08_2},
			{ID: "R08.3", Floor: 4, Text: "cache entries: epoch and cipherList derive from the same instant; reuse only when entry.epoch == cipherKeyEpoch(now)", Run: r08_3},
		},
	}
}

func roundsToInterval(fn *ssa.Function) (n int, ok bool) {
	ok = false
	instrs(fn, func(_ *ssa.BasicBlock, _ int, in ssa.Instruction) {
		call, isCall := in.(*ssa.Call)
		if !isCall || calleeID(call) != "(time.Time).Round" {
			return
		}
		n++
		if k, isK := constInt(call.Common().Args[1]); isK && k == 120e9 {
			ok = true
		}
	})
	return
}

func r08_1(c *RC) {
	p := c.P
	sf := p.Fn("pkg/cipher", "saltFromTime")
	if sf == nil {
		c.Anchor("cipher.saltFromTime")
		return
	}
	if n, ok := roundsToInterval(sf); n == 1 && ok {
		c.OKH("slot-rounding@saltFromTime", sf.Pos(), "t.Round(KeyRefreshInterval = 120 s)")
	} else {
		c.Bad("slot-rounding@saltFromTime", sf.Pos(), "saltFromTime does not compute the key slot as t.Round(KeyRefreshInterval)")
	}
	// the cache epoch, wherever it is computed (a cipherKeyEpoch helper or
	// in place): every epoch expression in pkg/cipher is Round(120 s).Unix(),
	// and no other slotting of time (Truncate, division) exists next to it
	nEpoch := 0
	var otherSlotting []string
	for _, fn := range p.Funcs("pkg/cipher") {
		instrs(fn, func(_ *ssa.BasicBlock, _ int, in ssa.Instruction) {
			call, ok := in.(*ssa.Call)
			if !ok {
				return
			}
			switch calleeID(call) {
			case "(time.Time).Unix":
				if _, ok := isEpochExpr(call); ok {
					nEpoch++
				}
			case "(time.Time).Truncate":
				if k, isK := constInt(call.Common().Args[1]); isK && k == 120e9 {
					otherSlotting = append(otherSlotting, fnName(fn)+": Truncate(KeyRefreshInterval)")
				}
			case "(time.Time).Round":
				if k, isK := constInt(call.Common().Args[1]); !isK || k != 120e9 {
					otherSlotting = append(otherSlotting, fnName(fn)+": Round("+describe(call.Common().Args[1])+")")
				}
			}
		})
	}
	switch {
	case len(otherSlotting) > 0:
		c.Bad("slot-rounding@cipherKeyEpoch", sf.Pos(), "pkg/cipher slots time in a second way (%s): the key slot (salt) and the cache slot (epoch) would change at different instants, so cached keys are used for a slot they were not derived for and stale keys are accepted", strings.Join(otherSlotting, "; "))
		c.Bad("epoch-value", sf.Pos(), "the cache epoch is not Round(t, KeyRefreshInterval).Unix()")
	case nEpoch == 0:
		c.Bad("slot-rounding@cipherKeyEpoch", sf.Pos(), "no cache epoch of the form Round(t, KeyRefreshInterval).Unix() found in pkg/cipher")
		c.Bad("epoch-value", sf.Pos(), "the cache epoch is not Round(t, KeyRefreshInterval).Unix()")
	default:
		c.OKH("slot-rounding@cipherKeyEpoch", sf.Pos(), "the cache epoch rounds with the same KeyRefreshInterval (120 s), %d site(s)", nEpoch)
		c.OKH("epoch-value", sf.Pos(), "epoch = Round(t).Unix(), the very instant whose bytes are hashed into the salt")
	}
	// the instants salts are derived for, in order
	offs, ok := saltInstants(sf)
	if !ok || strings.Contains(strings.Join(offs, ","), "?") {
		// not a list of appends or a literal: evaluate the function, with
		// instants represented by their distance from the rounded time
		if fo, fok := foldSaltInstants(p, sf); fok {
			offs, ok = fo, true
		}
	}
	if ok && strings.Join(offs, ",") == "-120,0,120" {
		c.OKH("slot-offsets", sf.Pos(), "three salts, in this order: rounded-120s, rounded, rounded+120s")
	} else {
		c.Bad("slot-offsets", sf.Pos(), "saltFromTime derives salts for the instants [%s] s relative to the rounded time; the protocol (and the sender's use of index 1) requires previous, current, next 2-minute slot in this order", strings.Join(offs, ","))
	}
	// the key list keeps the order of the salts: key k is derived from salt k
	// (what makes "index 1" the current slot at the sender)
	if nl := p.Fn("pkg/cipher", "newBlockCipherList"); nl == nil {
		c.Anchor("cipher.newBlockCipherList")
	} else {
		saltF := p.Field("pkg/cipher", "pbkdf2Gen", "Salt")
		n := 0
		for _, s := range p.FieldStores(saltF) {
			if s.Fn != nl {
				continue
			}
			n++
			inOrder, why := false, "the salt is "+describe(s.Val)
			for _, l := range Leaves(s.Val, nil) {
				ld, ok := l.(*ssa.UnOp)
				if !ok || ld.Op != token.MUL {
					continue
				}
				ia, ok := ld.X.(*ssa.IndexAddr)
				if !ok {
					continue
				}
				fromSalts := false
				for _, b := range Leaves(ia.X, nil) {
					if cl, ok := b.(*ssa.Call); ok && calleeName(cl) == "saltFromTime" {
						fromSalts = true
					}
				}
				if !fromSalts {
					continue
				}
				// the index is the loop counter itself: 0, 1, 2, ...
				var phi *ssa.Phi
				switch x := ia.Index.(type) {
				case *ssa.Phi:
					phi = x
				case *ssa.BinOp:
					if pp, ok := x.X.(*ssa.Phi); ok && x.Op == token.ADD && isOneConst(x.Y) {
						phi = pp
					}
				}
				if phi == nil {
					why = "salts[" + describe(ia.Index) + "] is not indexed by the loop counter"
					continue
				}
				start, step := false, false
				for _, e := range phi.Edges {
					if k, ok := constInt(e); ok && (k == 0 || k == -1) {
						start = true
					}
					if bo, ok := e.(*ssa.BinOp); ok && bo.Op == token.ADD && bo.X == ssa.Value(phi) && isOneConst(bo.Y) {
						step = true
					}
				}
				if start && step {
					inOrder = true
				} else {
					why = "the salt index does not count 0, 1, 2"
				}
			}
			if inOrder {
				c.OKH("key-list-order", s.Pos(), "cipher k of the list is derived from salt k (loop counter from 0 in steps of 1)")
			} else {
				c.Bad("key-list-order", s.Pos(), "newBlockCipherList does not build the key list in the order of the salts (%s): the sender's cipherList[1] is then not the current slot's key, and a peer whose clock differs by up to a minute in one direction has no key in common", why)
			}
		}
		if n == 0 {
			c.Undecided("key-list-order", nl.Pos(), "no pbkdf2Gen.Salt assignment found in newBlockCipherList")
		}
	}
	// client uses cipherList[1]
	if bf := p.Fn("pkg/cipher", "BlockCipherFromPassword"); bf == nil {
		c.Anchor("cipher.BlockCipherFromPassword")
	} else {
		idx := int64(-1)
		instrs(bf, func(_ *ssa.BasicBlock, _ int, in ssa.Instruction) {
			if ia, ok := in.(*ssa.IndexAddr); ok {
				if f := fieldOrigin(ia.X); f != nil && f.Name() == "cipherList" {
					if k, ok := constInt(ia.Index); ok {
						idx = k
					}
				}
			}
		})
		if idx == 1 {
			c.OKH("client-slot", bf.Pos(), "the sender encrypts with cipherList[1] (the current slot)")
		} else {
			c.Bad("client-slot", bf.Pos(), "BlockCipherFromPassword uses cipherList[%d]; with the previous/next slot key a peer whose clock differs by up to 60 s in the other direction cannot decrypt", idx)
		}
	}
	// server iterates the whole list
	if sd := p.Fn("pkg/cipher", "selectDecryptStateless"); sd == nil {
		c.Anchor("cipher.selectDecryptStateless")
	} else {
		full := false
		instrs(sd, func(_ *ssa.BasicBlock, _ int, in ssa.Instruction) {
			if iff, ok := in.(*ssa.If); ok {
				if bo, ok := iff.Cond.(*ssa.BinOp); ok && bo.Op == token.LSS && isLoopIndex(bo.X) {
					if cl, ok := bo.Y.(*ssa.Call); ok && calleeNameAny(cl) == "len" {
						if prm, ok := cl.Common().Args[0].(*ssa.Parameter); ok && prm.Name() == "blocks" {
							full = true
						}
					}
				}
			}
		})
		if full {
			c.OKH("server-slots", sd.Pos(), "the receiver tries every cipher of the list (previous, current, next slot)")
		} else {
			c.Bad("server-slots", sd.Pos(), "selectDecryptStateless does not range over the whole cipher list")
		}
	}
}

func r08_2(c *RC) {
	p := c.P
	var withinInst *ssa.Function
	for _, fname := range []string{"sessionStruct.Marshal", "dataAckStruct.Marshal", "sessionStruct.Unmarshal", "dataAckStruct.Unmarshal"} {
		fn := p.Fn(protoPkg, fname)
		if fn == nil {
			c.Anchor(fname)
			continue
		}
		unit := false
		// in the method itself or in a helper extracted from it
		scope := withHelpers(p, fn, 2)
		for _, f := range scope {
			instrs(f, func(_ *ssa.BasicBlock, _ int, in ssa.Instruction) {
				if bo, ok := in.(*ssa.BinOp); ok && bo.Op == token.QUO {
					if k, ok := constInt(bo.Y); ok && k == 60 {
						if cl, ok := bo.X.(*ssa.Call); ok && calleeID(cl) == "(time.Time).Unix" {
							unit = true
						}
					}
				}
			})
		}
		if unit {
			c.OK("timestamp-unit@"+fname, fn.Pos(), "minutes since the epoch: Unix()/60")
		} else {
			c.Bad("timestamp-unit@"+fname, fn.Pos(), "%s does not compute the timestamp as time.Now().Unix()/60", fname)
		}
		if strings.HasSuffix(fname, "Unmarshal") {
			found := false
			for _, hf := range scope {
				hf := hf
				instrs(hf, func(_ *ssa.BasicBlock, _ int, in ssa.Instruction) {
					call, ok := in.(*ssa.Call)
					if !ok || calleeName(call) != "WithinRange" {
						return
					}
					found = true
					withinInst = call.Common().StaticCallee()
					k, isK := constInt(call.Common().Args[2])
					// args: (current, original, margin)
					cur := false
					for _, l0 := range Leaves(call.Common().Args[0], nil) {
						for _, l := range helperResultLeaves(p, l0) {
							if bo, ok := l.(*ssa.BinOp); ok && bo.Op == token.QUO {
								cur = true
							}
						}
					}
					if isK && k == 1 && cur {
						c.OKH("margin@"+fname, call.Pos(), "WithinRange(currentMinute, receivedMinute, 1) gates the parse")
					} else {
						c.Bad("margin@"+fname, call.Pos(), "timestamp acceptance margin is %s minute(s) (must be 1: accepts a peer within 60 s, refuses one 2 minutes away)", describe(call.Common().Args[2]))
					}
					// failure leads to an error return before any field store
					if es := branchSucc(call, false); es != nil {
						storeAfter := false
						for _, x := range es.Instrs {
							if st, ok := x.(*ssa.Store); ok {
								if _, isParam := storeBase(st).(*ssa.Parameter); isParam {
									storeAfter = true
								}
							}
						}
						retErr := false
						for _, x := range es.Instrs {
							if r, ok := x.(*ssa.Return); ok && len(r.Results) > 0 && !retIsNil(r, len(r.Results)-1) {
								retErr = true
							}
						}
						// when the test sits in a helper, the method must in turn
						// leave with an error as soon as the helper reports one
						if retErr && hf != fn {
							retErr = false
							instrs(fn, func(_ *ssa.BasicBlock, _ int, y ssa.Instruction) {
								hc, ok := y.(*ssa.Call)
								if !ok || hc.Common().StaticCallee() == nil || !inHelperChain(hc.Common().StaticCallee(), hf, scope) {
									return
								}
								var es2 *ssa.BasicBlock
								if hc.Common().StaticCallee().Signature.Results().Len() == 1 {
									es2 = errSuccessorSingle(hc)
								} else {
									es2 = errSuccessorOfTuple(hc, hc.Common().StaticCallee().Signature.Results().Len()-1)
								}
								if es2 == nil {
									return
								}
								for _, z := range es2.Instrs {
									if st, ok := z.(*ssa.Store); ok {
										if _, isParam := storeBase(st).(*ssa.Parameter); isParam {
											storeAfter = true
										}
									}
									if r, ok := z.(*ssa.Return); ok && len(r.Results) > 0 && !retIsNil(r, len(r.Results)-1) {
										retErr = true
									}
								}
							})
						}
						if retErr && !storeAfter {
							c.OK("stale-refused@"+fname, call.Pos(), "a timestamp outside the margin returns an error before anything is stored")
						} else {
							c.Bad("stale-refused@"+fname, call.Pos(), "a timestamp outside the margin does not lead straight to an error return")
						}
					}
				})
			}
			if !found {
				c.Bad("margin@"+fname, fn.Pos(), "%s no longer checks the timestamp with WithinRange", fname)
			}
		}
	}
	if withinInst == nil {
		return
	}
	// fold the instantiated WithinRange for an unsigned minute counter
	var wrong []string
	for _, base := range []int64{1000, 29000000} {
		for d := int64(-3); d <= 3; d++ {
			f := &Folder{P: p}
			outs := f.Eval(withinInst, []cval{cInt(base), cInt(base + d), cInt(1)})
			want := d >= -1 && d <= 1
			if len(outs) != 1 || !outs[0].Returned || !outs[0].Results[0].known {
				c.Undecided("within-range-fold", withinInst.Pos(), "WithinRange instance does not fold to a constant for difference %d (%d outcomes)", d, len(outs))
				return
			}
			got := constant.BoolVal(outs[0].Results[0].v)
			if got != want {
				wrong = append(wrong, fmt.Sprintf("received-current=%+d -> %v", d, got))
			}
		}
	}
	if len(wrong) == 0 {
		c.OKH("within-range-fold", withinInst.Pos(), "%s(current, received, 1) is true exactly for received-current in {-1,0,+1} (folded on the unsigned instance, incl. sender ahead)", withinInst.Name())
	} else {
		c.Bad("within-range-fold", withinInst.Pos(), "%s on the unsigned minute counter: %s — a peer whose clock is within 60 s is refused, or a stale segment is accepted", withinInst.Name(), strings.Join(wrong, "; "))
	}
}

// branchSucc returns the successor taken when the boolean call result is
// `want` (looking through a negation).
func branchSucc(call *ssa.Call, want bool) *ssa.BasicBlock {
	for _, r := range *call.Referrers() {
		switch x := r.(type) {
		case *ssa.If:
			if want {
				return x.Block().Succs[0]
			}
			return x.Block().Succs[1]
		case *ssa.UnOp:
			if x.Op == token.NOT {
				for _, u := range *x.Referrers() {
					if iff, ok := u.(*ssa.If); ok {
						if want {
							return iff.Block().Succs[1]
						}
						return iff.Block().Succs[0]
					}
				}
			}
		}
	}
	return nil
}

func r08_3(c *RC) {
	p := c.P
	gc := p.Fn("pkg/cipher", "getCachedCiphers")
	td := p.Fn("pkg/cipher", "StatelessDecryptor.tryDecryptAt")
	if gc == nil || td == nil {
		c.Anchor("cipher.getCachedCiphers / StatelessDecryptor.tryDecryptAt")
		return
	}
	epochF := p.Field("pkg/cipher", "cachedCiphers", "epoch")
	listF := p.Field("pkg/cipher", "cachedCiphers", "cipherList")
	var nowParam *ssa.Parameter
	for _, prm := range gc.Params {
		if prm.Name() == "now" {
			nowParam = prm
		}
	}
	// construction
	for _, s := range p.FieldStores(epochF) {
		key := "entry-epoch@" + fnName(s.Fn)
		inst, ok := isEpochExpr(s.Val)
		if ok && s.Fn == gc && inst == ssa.Value(nowParam) {
			c.OKH(key, s.Pos(), "epoch = cipherKeyEpoch(now)")
		} else {
			c.Bad(key, s.Pos(), "a cache entry's epoch is %s, not cipherKeyEpoch of the instant its keys were derived for", describe(s.Val))
		}
	}
	for _, s := range p.FieldStores(listF) {
		if s.Fn != gc {
			if isFreshAlloc(storeBase(s.Instr.(*ssa.Store))) {
				c.Bad("entry-keys@"+fnName(s.Fn), s.Pos(), "cachedCiphers built outside getCachedCiphers")
			}
			continue
		}
		good := false
		for _, l := range Leaves(s.Val, nil) {
			if ex, ok := l.(*ssa.Extract); ok {
				if call, ok := ex.Tuple.(*ssa.Call); ok && calleeName(call) == "newBlockCipherList" && call.Common().Args[1] == ssa.Value(nowParam) {
					good = true
				}
			}
		}
		if good {
			c.OKH("entry-keys@getCachedCiphers", s.Pos(), "cipherList = newBlockCipherList(password, now) for the same `now`")
		} else {
			c.Bad("entry-keys@getCachedCiphers", s.Pos(), "cipherList is not derived from the same instant as the entry's epoch")
		}
	}
	// reuse conditions
	// epochMatch: v is "this entry's epoch is the epoch of the instant at
	// hand" - the comparison itself, or a predicate method that is nothing
	// but that comparison (entry.inEpochOf(now)). eq tells whether v is true
	// on a match.
	var epochMatch func(v ssa.Value, depth int) (eq bool, ok bool)
	epochMatch = func(v ssa.Value, depth int) (bool, bool) {
		switch x := v.(type) {
		case *ssa.BinOp:
			if x.Op != token.NEQ && x.Op != token.EQL {
				return false, false
			}
			isEpochField := func(v ssa.Value) bool { return sameField(fieldOrigin(v), epochF) }
			isEpochNow := func(v ssa.Value) bool {
				_, ok := isEpochExpr(v)
				return ok
			}
			if (isEpochField(x.X) && isEpochNow(x.Y)) || (isEpochField(x.Y) && isEpochNow(x.X)) {
				return x.Op == token.EQL, true
			}
		case *ssa.Call:
			sc := x.Common().StaticCallee()
			if depth > 0 || sc == nil || sc.Blocks == nil || relPkg(sc) != "pkg/cipher" || len(sc.Blocks) > 4 || sc.Signature.Results().Len() != 1 || !isBoolType(sc.Signature.Results().At(0).Type()) {
				return false, false
			}
			eq, all, n := false, true, 0
			instrs(sc, func(_ *ssa.BasicBlock, _ int, in ssa.Instruction) {
				switch y := in.(type) {
				case *ssa.Return:
					atom, neg := condAtom(retVal(y, 0))
					e, ok := epochMatch(atom, depth+1)
					if !ok {
						all = false
						return
					}
					n++
					eq = e != neg
				case *ssa.Store, *ssa.Go, *ssa.Send, *ssa.MapUpdate:
					all = false
				}
			})
			if all && n == 1 {
				return eq, true
			}
		}
		return false, false
	}
	reuse := func(fn *ssa.Function, key string) {
		// a comparison entry.epoch (!= | ==) cipherKeyEpoch(now)/epoch must guard reuse
		found := false
		instrs(fn, func(_ *ssa.BasicBlock, _ int, in ssa.Instruction) {
			if v, ok := in.(ssa.Value); ok {
				if _, ok := epochMatch(v, 0); ok {
					found = true
				}
			}
		})
		if found {
			c.OKH(key, fn.Pos(), "a cached entry is reused only if entry.epoch == cipherKeyEpoch(now)")
		} else {
			c.Bad(key, fn.Pos(), "%s reuses cached key material without comparing its epoch with the current slot", fnName(fn))
		}
	}
	reuse(gc, "reuse@getCachedCiphers")
	reuse(td, "reuse@tryDecryptAt")
	// in getCachedCiphers the cached return must be unreachable on the epoch-mismatch edge
	ex := &Explorer{Fn: gc, Atom: func(cond ssa.Value) (string, int, bool) {
		atom, neg := condAtom(cond)
		if eq, ok := epochMatch(atom, 0); ok {
			// index of the successor on which the epochs differ
			mismatchIdx := 1
			if !eq {
				mismatchIdx = 0
			}
			if neg {
				mismatchIdx = 1 - mismatchIdx
			}
			return "epoch-mismatch", mismatchIdx, true
		}
		return "", 0, false
	}, Assume: map[string]bool{"epoch-mismatch": true}}
	hit := ex.Reach(nil, func(in ssa.Instruction) bool {
		r, ok := in.(*ssa.Return)
		if !ok || len(r.Results) != 2 {
			return false
		}
		// returning the loaded (cached) entry: TypeAssert of the sync.Map value
		for _, l := range Leaves(retVal(r, 0), nil) {
			if _, ok := l.(*ssa.TypeAssert); ok {
				return true
			}
		}
		return false
	})
	switch {
	case ex.Over:
		c.Undecided("stale-entry@getCachedCiphers", gc.Pos(), "budget exceeded")
	case hit != nil:
		c.Bad("stale-entry@getCachedCiphers", hit.Pos(), "getCachedCiphers can return the cached entry although its epoch differs from the current slot")
	default:
		c.OKH("stale-entry@getCachedCiphers", gc.Pos(), "with entry.epoch != cipherKeyEpoch(now) the cached entry is never returned (%d path states)", ex.States)
	}
}

// inHelperChain: callee is target, or a member of scope that (transitively) calls target.
func inHelperChain(callee, target *ssa.Function, scope []*ssa.Function) bool {
	if callee == target {
		return true
	}
	in := false
	for _, f := range scope {
		if f == callee {
			in = true
		}
	}
	if !in {
		return false
	}
	found := false
	instrs(callee, func(_ *ssa.BasicBlock, _ int, x ssa.Instruction) {
		if cl, ok := x.(ssa.CallInstruction); ok && cl.Common().StaticCallee() == target {
			found = true
		}
	})
	return found
}

// isEpochExpr: v is the key-cache epoch of an instant - cipherKeyEpoch(t), or
// the expression it stands for written in place: t.Round(120 s).Unix().
// Returns the instant t.
func isEpochExpr(v ssa.Value) (ssa.Value, bool) {
	for _, l := range Leaves(v, nil) {
		call, ok := l.(*ssa.Call)
		if !ok {
			continue
		}
		if calleeName(call) == "cipherKeyEpoch" && len(call.Common().Args) == 1 {
			return call.Common().Args[0], true
		}
		if calleeID(call) == "(time.Time).Unix" {
			if rc, ok := call.Common().Args[0].(*ssa.Call); ok && calleeID(rc) == "(time.Time).Round" {
				if k, isK := constInt(rc.Common().Args[1]); isK && k == 120e9 {
					return rc.Common().Args[0], true
				}
			}
		}
	}
	return nil, false
}

// saltInstants lists, in order, the offsets (seconds relative to the rounded
// instant) of the times saltFromTime derives salts for, whether the list is
// built by appends or as a literal.
func saltInstants(sf *ssa.Function) ([]string, bool) {
	offsetOf := func(v ssa.Value) string {
		for _, l := range Leaves(v, nil) {
			call, ok := l.(*ssa.Call)
			if !ok {
				continue
			}
			switch calleeID(call) {
			case "(time.Time).Round":
				return "0"
			case "(time.Time).Add":
				if k, ok := constInt(call.Common().Args[1]); ok {
					return fmt.Sprint(k / 1e9)
				}
				return "?"
			}
		}
		return "?"
	}
	// literal: stores at constant indices of an array of time.Time
	lit := map[int64]string{}
	instrs(sf, func(_ *ssa.BasicBlock, _ int, in ssa.Instruction) {
		st, ok := in.(*ssa.Store)
		if !ok {
			return
		}
		ia, ok := st.Addr.(*ssa.IndexAddr)
		if !ok || !strings.HasSuffix(st.Val.Type().String(), "time.Time") {
			return
		}
		al, ok := ia.X.(*ssa.Alloc)
		if !ok {
			return
		}
		if pt, ok := al.Type().Underlying().(*types.Pointer); ok {
			if at, ok := pt.Elem().Underlying().(*types.Array); ok && at.Len() > 1 {
				if k, ok := constInt(ia.Index); ok {
					lit[k] = offsetOf(st.Val)
				}
			}
		}
	})
	if len(lit) > 0 {
		out := make([]string, len(lit))
		for k, v := range lit {
			if int(k) >= len(out) {
				return nil, false
			}
			out[k] = v
		}
		return out, true
	}
	// appends, in instruction order
	var out []string
	instrs(sf, func(_ *ssa.BasicBlock, _ int, in ssa.Instruction) {
		call, ok := in.(*ssa.Call)
		if !ok || calleeNameAny(call) != "append" || !strings.HasSuffix(call.Type().String(), "[]time.Time") {
			return
		}
		// the single appended element: store into the variadic backing array
		for _, l := range Leaves(call.Common().Args[1], nil) {
			if al, ok := l.(*ssa.Alloc); ok {
				for _, r := range *al.Referrers() {
					if ia, ok := r.(*ssa.IndexAddr); ok {
						for _, u := range *ia.Referrers() {
							if st, ok := u.(*ssa.Store); ok {
								out = append(out, offsetOf(st.Val))
							}
						}
					}
				}
			}
		}
	})
	return out, len(out) > 0
}

// foldSaltInstants evaluates saltFromTime with the constant folder: a
// time.Time is represented by its distance in nanoseconds from
// t.Round(KeyRefreshInterval); Add of a folded constant moves it; every
// Unix() call (the value hashed into a salt) records where it stands. Works
// for counted loops and offset tables alike; any unknown yields !ok.
func foldSaltInstants(p *Prog, sf *ssa.Function) ([]string, bool) {
	var out []string
	bad := false
	f := &Folder{P: p, CallHook: func(call *ssa.Call, args []cval) (cval, bool) {
		switch calleeID(call) {
		case "(time.Time).Round":
			if len(args) == 2 && args[1].known {
				if k, ok := constant.Int64Val(args[1].v); ok && k == 120e9 {
					return cInt(0), true
				}
			}
			bad = true
		case "(time.Time).Add":
			if len(args) == 2 && args[0].known && args[1].known {
				a, _ := constant.Int64Val(args[0].v)
				d, _ := constant.Int64Val(args[1].v)
				return cInt(a + d), true
			}
			bad = true
		case "(time.Time).Unix":
			if len(args) == 1 && args[0].known {
				a, _ := constant.Int64Val(args[0].v)
				out = append(out, fmt.Sprint(a/1e9))
			} else {
				bad = true
			}
		}
		return cval{}, false
	}}
	outs := f.Eval(sf, []cval{{}})
	if f.Over || bad || len(outs) != 1 {
		return nil, false
	}
	return out, len(out) > 0
}


func isOneConst(v ssa.Value) bool {
	k, ok := constInt(v)
	return ok && k == 1
}
