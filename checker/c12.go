package main

import (
	"fmt"
	"go/constant"
	"go/token"
	"strings"

	"golang.org/x/tools/go/ssa"
)

func init() { register("C12", propC12) }

func propC12() *Property {
	return &Property{
		ID:         "C12",
		NeedCG:     false,
		Decides:    "R12.1 every outbound connect/datagram to a peer-designated address in the server-side SOCKS5 code is preceded by the egress decision: CONNECT dials only under FindAction()==DIRECT, each relayed UDP datagram is sent only past the per-datagram destination filter, and both relay loops are wired to a filter built from isDestinationAllowed and the mieru session's user; R12.2 the truth table of isDestinationAllowed (by constant propagation over the address-class predicates IsLoopback/IsPrivate/IsUnspecified x the three allow flags, plus the empty-host, IP-literal-as-name and well-known-name scenarios) is the one the property states; R12.3 destination names are compared with the local-name tables only through strings.EqualFold; R12.4 the decision and the handler parse the request with the same parser and the dial string is that request's DstAddr; R12.5 egress rules: first match wins and the private/loopback gate runs before the rule loop; R12.6 the user identity given to the decision comes from the mieru session (UserContext), not from SOCKS5 data.",
		NotDecided: "what the OS resolver does with other spellings of local names (trailing dot, IDNA), DNS answers pointing into private space (explicitly outside the statement), the net.IP predicates themselves (library).",
		Rules: []Rule{
			{ID: "R12.1", Floor: 6, Text: "outbound sites: handleConnect's DialContext only via handleRequest under FindAction()==DIRECT; WriteToUDP with a datagram-designated address only past allow(addr)==true; relay loops receive a non-nil filter that calls isDestinationAllowed with UserContext.UserName()", Run: r12_1},
			{ID: "R12.2", Floor: 40, Text: "isDestinationAllowed truth table by constant propagation: IP given: allowed iff none of loopback/private/unspecified, or the matching allow flag (AllowLoopbackDestination, user.AllowLoopbackIP for loopback/unspecified; user.AllowPrivateIP for private); empty host, IP literal in the name field and well-known local names are classified like the address they reach; other names are allowed", Run: r12_2},
			{ID: "R12.3", Floor: 2, Text: "every comparison between the request's FQDN and an element of a well-known local-name table uses strings.EqualFold", Run: r12_3},
			{ID: "R12.4", Floor: 3, Text: "FindAction and readRequest both parse with (*model.Request).ReadFromSocks5; handleConnect dials req.DstAddr.String()", Run: r12_4},
			{ID: "R12.5", Floor: 2, Text: "forwardToProxyAction returns inside the first matching rule (no path from a match back to the loop); rejectPrivateAndLoopbackIPAction dominates forwardToProxyAction in FindAction and its REJECT is returned", Run: r12_5},
			{ID: "R12.7", Floor: 1, Text: "FindAction's early exits for malformed input do not swallow well-formed requests: a length guard on the raw request uses a bound <= 7 (the shortest RFC 1928 request: zero-length domain name), so every request the handler accepts reaches the gate", Run: r12_7},
			{ID: "R12.6", Floor: 1, Text: "egress.Input.Env[\"user\"] is assigned only from proxyConn.(UserContext).UserName()", Run: r12_6},
		},
	}
}

func calleeNameAny(in ssa.Instruction) string {
	cl, ok := in.(ssa.CallInstruction)
	if !ok {
		return ""
	}
	if b, ok := cl.Common().Value.(*ssa.Builtin); ok {
		return b.Name()
	}
	return calleeName(cl)
}

func r12_1(c *RC) {
	p := c.P
	// (a) CONNECT
	hc := p.Fn(s5Pkg, "Server.handleConnect")
	hr := p.Fn(s5Pkg, "Server.handleRequest")
	ssc := p.Fn(s5Pkg, "Server.serverServeConn")
	if hc == nil || hr == nil || ssc == nil {
		c.Anchor("socks5.Server.{handleConnect,handleRequest,serverServeConn}")
		return
	}
	// every dial/listen-free outbound call in pkg/socks5 server functions
	for _, fn := range p.Funcs(s5Pkg) {
		instrs(fn, func(_ *ssa.BasicBlock, _ int, in ssa.Instruction) {
			cl, ok := in.(ssa.CallInstruction)
			if !ok {
				return
			}
			id := calleeID(cl)
			if id != "(*net.Dialer).DialContext" && id != "net.Dial" && id != "net.DialTimeout" && id != "(*net.Dialer).Dial" {
				return
			}
			key := "dial@" + fnName(fn)
			// address argument provenance
			args := cl.Common().Args
			addr := args[len(args)-1]
			fromReq := false
			for _, l := range Leaves(addr, nil) {
				if call, ok := l.(*ssa.Call); ok && strings.HasSuffix(calleeID(call), "model.AddrSpec).String") {
					fromReq = true
				}
			}
			switch {
			case fn == hc && fromReq:
				// callers chain
				ok := true
				why := ""
				for _, cs := range p.CallsToFn(hc) {
					if cs.Fn != hr {
						ok = false
						why = "handleConnect is also called from " + fnName(cs.Fn)
					}
				}
				for _, cs := range p.CallsToFn(hr) {
					if cs.Fn != ssc {
						ok = false
						why = "handleRequest is also called from " + fnName(cs.Fn)
						continue
					}
					if !underDirectAction(p, cs) {
						ok = false
						why = "the handleRequest call in serverServeConn is not restricted to FindAction()==DIRECT"
					}
				}
				if ok {
					c.OKH(key, in.Pos(), "handleConnect <- handleRequest <- serverServeConn under FindAction(...).Action == DIRECT")
				} else {
					c.Bad(key, in.Pos(), "the CONNECT dial is reachable without the egress decision: %s", why)
				}
			case fromReq:
				c.Bad(key, in.Pos(), "%s dials a request-designated address outside handleConnect; the egress decision does not cover it", fnName(fn))
			default:
				// dial to a configured address (egress proxy, http proxy): not peer designated
				c.OK(key, in.Pos(), "dial target is not derived from a SOCKS5 request (configured egress/HTTP proxy address)")
			}
		})
	}
	// (b) UDP relays
	for _, fn := range p.Funcs(s5Pkg) {
		instrs(fn, func(_ *ssa.BasicBlock, _ int, in ssa.Instruction) {
			cl, ok := in.(ssa.CallInstruction)
			if !ok || calleeID(cl) != "(*net.UDPConn).WriteToUDP" {
				return
			}
			addr := cl.Common().Args[2]
			peer := ""
			for _, l := range Leaves(addr, nil) {
				var call *ssa.Call
				switch x := l.(type) {
				case *ssa.Extract:
					call, _ = x.Tuple.(*ssa.Call)
				case *ssa.Call:
					call = x
				}
				if call != nil {
					n := calleeName(call)
					if n == "resolveSocks5UDPAddr" || n == "parseAllowedUDPAssociateDatagram" || n == "parseUDPAssociateDatagram" || n == "parseSocks5UDPDatagram" {
						peer = n
					}
				}
			}
			key := "udp-send@" + fnName(fn)
			if peer == "" {
				c.OK(key, in.Pos(), "destination is not taken from a relayed datagram's header (reply to the client / configured downstream)")
				return
			}
			if peer == "parseUDPAssociateDatagram" {
				c.Bad(key, in.Pos(), "the relay sends to an address parsed by parseUDPAssociateDatagram, which applies no destination filter")
				return
			}
			if peer == "parseAllowedUDPAssociateDatagram" {
				// gate is inside the callee: check it there
				g := p.Fn(s5Pkg, "parseAllowedUDPAssociateDatagram")
				if g == nil {
					c.Anchor("parseAllowedUDPAssociateDatagram")
					return
				}
				if why := filterGates(g, func(x ssa.Instruction) bool {
					r, ok := x.(*ssa.Return)
					return ok && len(r.Results) == 3 && retIsNil(r, 2)
				}); why != "" {
					c.Bad(key, in.Pos(), "parseAllowedUDPAssociateDatagram: %s", why)
					return
				}
				// and the write is on the nil-error edge
				good := false
				for _, nc := range nilErrCalls(in) {
					if calleeName(nc) == "parseAllowedUDPAssociateDatagram" {
						good = true
					}
				}
				if !good {
					// `if err != nil { continue }` form
					instrs(fn, func(_ *ssa.BasicBlock, _ int, x ssa.Instruction) {
						if call, ok := x.(*ssa.Call); ok && calleeName(call) == "parseAllowedUDPAssociateDatagram" {
							if es := errSuccessorOfTuple(call, 2); es != nil && reachableAvoiding(fn, es.Instrs[0], func(y ssa.Instruction) bool { return y == in }, nextUDPInput) == nil && !(es.Instrs[0] == in) {
								good = true
							}
						}
					})
				}
				if good {
					c.OKH(key, in.Pos(), "datagram relay: address comes from parseAllowedUDPAssociateDatagram on its err==nil edge; that function returns success only past allow(addr)==true")
				} else {
					c.Bad(key, in.Pos(), "the datagram relay can send although parseAllowedUDPAssociateDatagram reported an error")
				}
				return
			}
			if why := filterGates(fn, func(x ssa.Instruction) bool { return x == in }); why != "" {
				c.Bad(key, in.Pos(), "%s", why)
			} else {
				c.OKH(key, in.Pos(), "with a filter installed, the send is reachable only through allow(datagram address)==true")
			}
		})
	}
	// (c) wiring
	for _, loop := range []string{"runUDPAssociateLoop", "runUDPAssociateDatagramLoop"} {
		lf := p.Fn(s5Pkg, loop)
		if lf == nil {
			c.Anchor("socks5." + loop)
			continue
		}
		n := 0
		for _, cs := range p.CallsToFn(lf) {
			if outermost(cs.Fn).Signature.Recv() == nil {
				// exported wrapper for API users passes nil by design
				if cs.Fn.Name() == "RunUDPAssociateLoop" {
					c.OK("wire:"+loop+"@RunUDPAssociateLoop", cs.Pos(), "exported wrapper for embedders (no server configuration available): documented to relay unfiltered")
				}
				continue
			}
			n++
			key := "wire:" + loop + "@" + fnName(cs.Fn)
			args := cs.Instr.(ssa.CallInstruction).Common().Args
			filt := args[len(args)-1]
			call, ok := filt.(*ssa.Call)
			if !ok || calleeName(call) != "udpDestinationFilter" {
				c.Bad(key, cs.Pos(), "the server starts %s with filter %s instead of s.udpDestinationFilter(proxyConn): relayed datagrams are not checked against the user's loopback/private permissions", loop, describe(filt))
				continue
			}
			c.OKH(key, cs.Pos(), "filter = s.udpDestinationFilter(proxyConn)")
		}
		if n == 0 {
			c.Bad("wire:"+loop, lf.Pos(), "no server method starts %s", loop)
		}
	}
	uf := p.Fn(s5Pkg, "Server.udpDestinationFilter")
	if uf == nil {
		c.Anchor("socks5.Server.udpDestinationFilter")
		return
	}
	good := false
	// the filter handed out: a closure of udpDestinationFilter, or a method
	// value of a small struct it fills in
	for _, a := range withHelpers(p, uf, 2)[1:] {
		a := a
		instrs(a, func(_ *ssa.BasicBlock, _ int, in ssa.Instruction) {
			call, ok := in.(*ssa.Call)
			if !ok || calleeName(call) != "isDestinationAllowed" {
				return
			}
			// args: recv, dst (closure param), userName (free var bound to UserName())
			args := call.Common().Args
			_, dstIsParam := args[1].(*ssa.Parameter)
			userOK := false
			// method form: the name is a field of the receiver, which
			// udpDestinationFilter sets from UserName()
			if fld := fieldOrigin(args[2]); fld != nil {
				for _, st := range p.FieldStores(fld) {
					if st.Fn != uf {
						continue
					}
					for _, l := range Leaves(st.Val, nil) {
						if cl, ok := l.(*ssa.Call); ok && cl.Common().IsInvoke() && cl.Common().Method.Name() == "UserName" {
							userOK = true
						}
					}
				}
			}
			for _, l := range Leaves(args[2], nil) {
				if u, ok := l.(*ssa.UnOp); ok {
					if fv, ok := u.X.(*ssa.FreeVar); ok {
						// find binding
						instrs(uf, func(_ *ssa.BasicBlock, _ int, y ssa.Instruction) {
							if mc, ok := y.(*ssa.MakeClosure); ok && mc.Fn == ssa.Value(a) {
								for i, f := range a.FreeVars {
									if f == fv {
										if al, ok := mc.Bindings[i].(*ssa.Alloc); ok {
											for _, sv := range allocStores(al) {
												if cl, ok := sv.(*ssa.Call); ok && cl.Common().IsInvoke() && cl.Common().Method.Name() == "UserName" {
													userOK = true
												}
											}
										}
									}
								}
							}
						})
					}
				}
				if fv, ok := l.(*ssa.FreeVar); ok {
					_ = fv
				}
			}
			if dstIsParam && userOK {
				good = true
			}
		})
	}
	// ... and it is the filter that is handed out on every path: a nil filter
	// means "relay everything" to the association loops
	instrs(uf, func(_ *ssa.BasicBlock, _ int, in ssa.Instruction) {
		r, ok := in.(*ssa.Return)
		if !ok || len(r.Results) != 1 {
			return
		}
		for _, l := range Leaves(retVal(r, 0), nil) {
			if _, isClosure := l.(*ssa.MakeClosure); !isClosure {
				good = false
				c.Bad("filter-always-installed", r.Pos(), "udpDestinationFilter can return %s instead of the per-user filter: for those users every datagram of the association is relayed without the loopback/private-address check (the two permissions are independent: holding one does not grant the other)", describe(l))
			}
		}
	})
	if good {
		c.OKH("filter-body", uf.Pos(), "the filter calls isDestinationAllowed(datagram address, UserContext.UserName())")
	} else {
		c.Bad("filter-body", uf.Pos(), "udpDestinationFilter does not return a closure that calls isDestinationAllowed(dst, proxyConn.(UserContext).UserName())")
	}
}

func nextUDPInput(in ssa.Instruction) bool {
	cl, ok := in.(ssa.CallInstruction)
	if !ok {
		return false
	}
	id := calleeID(cl)
	return id == "(*net.UDPConn).ReadFromUDP" || strings.HasSuffix(id, "PacketOverStreamTunnel).Read")
}

// filterGates checks, in fn, that with a non-nil filter value `allow` (a
// parameter or captured variable of func type returning bool) the target is
// reachable only through the allow(...)==true edge. Returns "" when gated.
func filterGates(fn *ssa.Function, target func(ssa.Instruction) bool) string {
	var allowCalls []*ssa.Call
	instrs(fn, func(_ *ssa.BasicBlock, _ int, in ssa.Instruction) {
		call, ok := in.(*ssa.Call)
		if !ok || call.Common().IsInvoke() || call.Common().StaticCallee() != nil {
			return
		}
		if _, isB := call.Common().Value.(*ssa.Builtin); isB {
			return
		}
		// dynamic call of a func-typed value named allow / of type udpDestinationFilter
		t := call.Common().Value.Type().String()
		if strings.HasSuffix(t, "udpDestinationFilter") {
			allowCalls = append(allowCalls, call)
		}
	})
	if len(allowCalls) == 0 {
		return "no call of the destination filter in " + fnName(fn) + ": relayed datagrams go to the address in their header unchecked"
	}
	root := func(l ssa.Value) ssa.Value {
		if u, ok := l.(*ssa.UnOp); ok && u.Op == token.MUL {
			switch u.X.(type) {
			case *ssa.FreeVar, *ssa.Alloc, *ssa.Parameter:
				return u.X
			}
		}
		return l
	}
	isAllowVal := func(v ssa.Value) bool {
		for _, ac := range allowCalls {
			for _, l := range Leaves(ac.Common().Value, nil) {
				for _, l2 := range Leaves(v, nil) {
					if root(l) == root(l2) {
						return true
					}
				}
			}
		}
		return false
	}
	cut := func(from *ssa.BasicBlock, idx int) bool {
		iff, ok := from.Instrs[len(from.Instrs)-1].(*ssa.If)
		if !ok {
			return false
		}
		v, neg := condAtom(iff.Cond)
		// allow != nil : assume non-nil
		if bo, ok := v.(*ssa.BinOp); ok && (bo.Op == token.NEQ || bo.Op == token.EQL) && (isNilConst(bo.X) || isNilConst(bo.Y)) {
			x := bo.X
			if isNilConst(x) {
				x = bo.Y
			}
			if isAllowVal(x) {
				nonNilIdx := 0
				if bo.Op == token.EQL {
					nonNilIdx = 1
				}
				if neg {
					nonNilIdx = 1 - nonNilIdx
				}
				return idx != nonNilIdx
			}
		}
		for _, ac := range allowCalls {
			if v == ssa.Value(ac) {
				trueIdx := 0
				if neg {
					trueIdx = 1
				}
				return idx == trueIdx // cut the allowed edge
			}
		}
		return false
	}
	if hit := reachableAvoidingCut(fn, cut, target, nil); hit != nil {
		return "with a destination filter installed, " + describeInstr(hit) + " is still reachable without allow(address)==true"
	}
	return ""
}

func underDirectAction(p *Prog, cs Site) bool {
	// dominated by FindAction and on the ==DIRECT edge
	var fa ssa.Instruction
	instrs(cs.Fn, func(_ *ssa.BasicBlock, _ int, in ssa.Instruction) {
		if cl, ok := in.(ssa.CallInstruction); ok && calleeName(cl) == "FindAction" && instrDominates(in, cs.Instr) {
			fa = in
		}
	})
	if fa == nil {
		return false
	}
	direct := p.Const("pkg/appctl/appctlpb", "EgressAction_DIRECT")
	if direct == nil {
		return false
	}
	for _, e := range controllingEdges(cs.Instr.Block()) {
		bo, ok := e.If.Cond.(*ssa.BinOp)
		if !ok || bo.Op != token.EQL || e.Idx != 0 {
			continue
		}
		for _, pair := range [][2]ssa.Value{{bo.X, bo.Y}, {bo.Y, bo.X}} {
			k, ok := pair[1].(*ssa.Const)
			if !ok || k.Value == nil {
				continue
			}
			dv := direct.(interface{ Val() constant.Value }).Val()
			if !constant.Compare(k.Value, token.EQL, dv) {
				continue
			}
			if f := fieldOrigin(pair[0]); f != nil && f.Name() == "Action" {
				return true
			}
		}
	}
	return false
}

type scenario struct {
	name   string
	calls  map[string]cval
	fields map[string]cval
	want   bool
}

func cBool(b bool) cval  { return cval{known: true, v: constant.MakeBool(b)} }
func cInt(i int64) cval  { return cval{known: true, v: constant.MakeInt64(i)} }
func cStr(s string) cval { return cval{known: true, v: constant.MakeString(s)} }

func assumeBy(calls, fields map[string]cval) func(v ssa.Value) (cval, bool) {
	return func(v ssa.Value) (cval, bool) {
		switch x := v.(type) {
		case *ssa.Call:
			n := calleeNameAny(x)
			if n == "len" && len(x.Common().Args) == 1 {
				n = "len:" + x.Common().Args[0].Type().String()
			}
			if cv, ok := calls[n]; ok {
				return cv, true
			}
		case *ssa.UnOp:
			if x.Op == token.MUL {
				if f := fieldOrigin(x); f != nil {
					if cv, ok := fields[f.Name()]; ok {
						return cv, true
					}
				}
			}
		case *ssa.Field:
			if f := fieldOrigin(x); f != nil {
				if cv, ok := fields[f.Name()]; ok {
					return cv, true
				}
			}
		}
		return cval{}, false
	}
}

func r12_2(c *RC) {
	p := c.P
	fn := p.Fn(s5Pkg, "Server.isDestinationAllowed")
	if fn == nil {
		c.Anchor("socks5.Server.isDestinationAllowed (the destination class decision)")
		return
	}
	var scs []scenario
	// IP given (len(ip) = 4): 8 classes x 8 flag combinations
	for cls := 0; cls < 8; cls++ {
		lo, pr, un := cls&1 != 0, cls&2 != 0, cls&4 != 0
		for fl := 0; fl < 8; fl++ {
			ald, alo, apr := fl&1 != 0, fl&2 != 0, fl&4 != 0
			local := lo || un
			want := (!local && !pr) || (local && (ald || alo)) || (pr && apr)
			// a private+local address (cannot exist) : allowed if either flag admits it
			scs = append(scs, scenario{
				name:   fmt.Sprintf("ip:loopback=%v,private=%v,unspecified=%v|AllowLoopbackDestination=%v,AllowLoopbackIP=%v,AllowPrivateIP=%v", lo, pr, un, ald, alo, apr),
				calls:  map[string]cval{"len:net.IP": cInt(4), "IsLoopback": cBool(lo), "IsPrivate": cBool(pr), "IsUnspecified": cBool(un), "GetAllowLoopbackIP": cBool(alo), "GetAllowPrivateIP": cBool(apr)},
				fields: map[string]cval{"AllowLoopbackDestination": cBool(ald), "FQDN": cStr("")},
				want:   want,
			})
		}
	}
	noFlags := map[string]cval{"AllowLoopbackDestination": cBool(false)}
	// empty host: len(ip)=0, FQDN=""; the address used for classification is a loopback literal
	scs = append(scs, scenario{"empty-host|no flags", map[string]cval{"len:net.IP": cInt(0), "IsLoopback": cBool(true), "IsPrivate": cBool(false), "IsUnspecified": cBool(false), "GetAllowLoopbackIP": cBool(false), "GetAllowPrivateIP": cBool(false)}, merge(noFlags, map[string]cval{"FQDN": cStr("")}), false})
	// well-known local name, any case (EqualFold true)
	scs = append(scs, scenario{"well-known-local-name|no flags", map[string]cval{"len:net.IP": cInt(0), "len:[]string": cInt(4), "ParseIP": {isNil: true}, "EqualFold": cBool(true), "IsLoopback": cBool(true), "IsPrivate": cBool(false), "IsUnspecified": cBool(false), "GetAllowLoopbackIP": cBool(false), "GetAllowPrivateIP": cBool(false)}, merge(noFlags, map[string]cval{"FQDN": cStr("LocalHost")}), false})
	// ordinary name
	scs = append(scs, scenario{"ordinary-name|no flags", map[string]cval{"len:net.IP": cInt(0), "len:[]string": cInt(4), "EqualFold": cBool(false), "GetAllowLoopbackIP": cBool(false), "GetAllowPrivateIP": cBool(false)}, merge(noFlags, map[string]cval{"FQDN": cStr("example.com")}), true})
	// an address that carries both an IP and a (stale or decorative) name is
	// sent to the IP (AddrSpec.String / resolveSocks5UDPAddr prefer it), so
	// the IP's class decides whatever the name is
	for cls := 0; cls < 4; cls++ {
		lo, pr, un := cls == 1, cls == 2, cls == 3
		scs = append(scs, scenario{
			name:   fmt.Sprintf("ip+name:loopback=%v,private=%v,unspecified=%v|no flags", lo, pr, un),
			calls:  map[string]cval{"len:net.IP": cInt(4), "len:[]string": cInt(4), "ParseIP": {isNil: true}, "EqualFold": cBool(false), "IsLoopback": cBool(lo), "IsPrivate": cBool(pr), "IsUnspecified": cBool(un), "GetAllowLoopbackIP": cBool(false), "GetAllowPrivateIP": cBool(false)},
			fields: merge(noFlags, map[string]cval{"FQDN": cStr("example.com")}),
			want:   cls == 0,
		})
	}
	for _, sc := range scs {
		// len(ip) follows the value ip has on the path: nil (dst.IP absent, or
		// net.ParseIP failed) has length 0, anything else the scenario's
		// address length
		calls := map[string]cval{}
		for k, v := range sc.calls {
			calls[k] = v
		}
		ipLen := calls["len:net.IP"]
		delete(calls, "len:net.IP")
		fields := map[string]cval{}
		for k, v := range sc.fields {
			fields[k] = v
		}
		if l, _ := constant.Int64Val(ipLen.v); ipLen.known && l == 0 {
			fields["IP"] = cval{isNil: true}
		} else {
			fields["IP"] = cval{nonNil: true}
		}
		f := &Folder{P: p, Assume: assumeBy(calls, fields), CallHook: func(call *ssa.Call, args []cval) (cval, bool) {
			if b, ok := call.Call.Value.(*ssa.Builtin); ok && b.Name() == "len" && len(args) == 1 && call.Call.Args[0].Type().String() == "net.IP" {
				if args[0].isNil {
					return cInt(0), true
				}
				if args[0].nonNil {
					if ipLen.known {
						if l, _ := constant.Int64Val(ipLen.v); l > 0 {
							return ipLen, true
						}
					}
					return cInt(4), true
				}
			}
			return cval{}, false
		}}
		outs := f.Eval(fn, []cval{{nonNil: true}, {}, cStr("someuser")})
		sawT, sawF, sawU := false, false, false
		for _, o := range outs {
			if !o.Returned || len(o.Results) != 1 {
				sawU = true
				continue
			}
			r := o.Results[0]
			if !r.known {
				sawU = true
			} else if constant.BoolVal(r.v) {
				sawT = true
			} else {
				sawF = true
			}
		}
		key := "table:" + sc.name
		switch {
		case f.Over || sawU:
			c.Undecided(key, fn.Pos(), "constant propagation could not decide this row (unknown result)")
		case sc.want && sawT && !ordinaryMustAll(sc, sawF):
			c.OKH(key, fn.Pos(), "allowed (as required)")
		case sc.want && !sawT:
			c.Bad(key, fn.Pos(), "the destination class decision refuses a destination the property says is unaffected")
		case sc.want && sawF && strings.HasPrefix(sc.name, "ip:loopback=false,private=false,unspecified=false"):
			c.Bad(key, fn.Pos(), "a public IP destination can be refused")
		case sc.want:
			c.OKH(key, fn.Pos(), "allowed (as required; refusal only for an unregistered user)")
		case !sc.want && sawT:
			c.Bad(key, fn.Pos(), "the destination class decision ALLOWS this case: a user without the corresponding permission reaches a loopback/private/unspecified/local-name/empty destination")
		default:
			c.OKH(key, fn.Pos(), "refused (as required)")
		}
	}
	// the scenario machinery must have seen the three predicates at all
	seen := map[string]bool{}
	instrs(fn, func(_ *ssa.BasicBlock, _ int, in ssa.Instruction) {
		seen[calleeNameAny(in)] = true
	})
	for _, m := range []string{"IsLoopback", "IsPrivate", "IsUnspecified"} {
		if !seen[m] {
			c.Bad("predicate:"+m, fn.Pos(), "isDestinationAllowed never evaluates net.IP.%s: addresses of that class are treated as public", m)
		} else {
			c.OK("predicate:"+m, fn.Pos(), "net.IP.%s is consulted", m)
		}
	}
	// IP literal carried in the name field is parsed
	parsesName := false
	instrs(fn, func(_ *ssa.BasicBlock, _ int, in ssa.Instruction) {
		if cl, ok := in.(*ssa.Call); ok && calleeID(cl) == "net.ParseIP" {
			if f := fieldOrigin(cl.Common().Args[0]); f != nil && f.Name() == "FQDN" {
				parsesName = true
			}
		}
	})
	if !parsesName {
		c.Bad("ip-literal-in-name", fn.Pos(), "a name that is an IP literal is not parsed (net.ParseIP) before classification")
	} else {
		c.OK("ip-literal-in-name", fn.Pos(), "names are tried as IP literals (net.ParseIP)")
	}
}

func ordinaryMustAll(sc scenario, sawF bool) bool {
	return strings.HasPrefix(sc.name, "ip:loopback=false,private=false,unspecified=false") && sawF
}

func merge(a, b map[string]cval) map[string]cval {
	o := map[string]cval{}
	for k, v := range a {
		o[k] = v
	}
	for k, v := range b {
		o[k] = v
	}
	return o
}

func r12_3(c *RC) {
	p := c.P
	tableCallSites := map[*ssa.Function]int{}
	for _, fn := range p.Funcs(s5Pkg) {
		instrs(fn, func(_ *ssa.BasicBlock, _ int, in ssa.Instruction) {
			// any comparison (== or EqualFold) one of whose operands is an element of a wellKnown*LocalDomainNames table
			isTableElem := func(v ssa.Value) bool {
				for _, l := range Leaves(v, nil) {
					var base ssa.Value
					switch x := l.(type) {
					case *ssa.UnOp:
						if ia, ok := x.X.(*ssa.IndexAddr); ok {
							base = ia.X
						}
					case *ssa.Extract:
						// range over slice yields via Next? (range on slice uses IndexAddr)
					}
					if base == nil {
						continue
					}
					for _, bl := range Leaves(base, nil) {
						if u, ok := bl.(*ssa.UnOp); ok {
							if g, ok := u.X.(*ssa.Global); ok && strings.HasPrefix(g.Name(), "wellKnown") {
								return true
							}
						}
						// a helper's slice parameter that receives such a table at a call site
						if prm, ok := bl.(*ssa.Parameter); ok {
							idx := -1
							for i, q := range fn.Params {
								if q == prm {
									idx = i
								}
							}
							if idx < 0 {
								continue
							}
							for _, cs := range p.CallsToFn(fn) {
								args := cs.Instr.(ssa.CallInstruction).Common().Args
								if idx >= len(args) {
									continue
								}
								for _, al := range Leaves(args[idx], nil) {
									if u, ok := al.(*ssa.UnOp); ok {
										if g, ok := u.X.(*ssa.Global); ok && strings.HasPrefix(g.Name(), "wellKnown") {
											tableCallSites[fn]++
											return true
										}
									}
								}
							}
						}
					}
				}
				return false
			}
			switch x := in.(type) {
			case *ssa.BinOp:
				if (x.Op == token.EQL || x.Op == token.NEQ) && (isTableElem(x.X) || isTableElem(x.Y)) {
					c.Bad("name-compare@"+fnName(fn), x.Pos(), "a destination name is compared with a well-known local name using %s: LOCALHOST or LocalHost6 would not be recognised", x.Op)
				}
			case *ssa.Call:
				if calleeID(x) == "strings.EqualFold" && (isTableElem(x.Common().Args[0]) || isTableElem(x.Common().Args[1])) {
					c.OKH("name-compare@"+fnName(fn), x.Pos(), "strings.EqualFold against the local-name table")
					// a shared helper serves one table per call site
					for _, cs := range p.CallsToFn(fn) {
						for _, a := range cs.Instr.(ssa.CallInstruction).Common().Args {
							for _, al := range Leaves(a, nil) {
								if u, ok := al.(*ssa.UnOp); ok {
									if g, ok := u.X.(*ssa.Global); ok && strings.HasPrefix(g.Name(), "wellKnown") {
										c.OK("name-compare-table@"+fnName(cs.Fn), cs.Pos(), "table %s is compared through %s (EqualFold)", g.Name(), fnName(fn))
									}
								}
							}
						}
					}
				}
			}
		})
	}
}

func r12_4(c *RC) {
	p := c.P
	for _, fname := range []string{"Server.FindAction", "Server.readRequest"} {
		fn := p.Fn(s5Pkg, fname)
		if fn == nil {
			c.Anchor("socks5." + fname)
			continue
		}
		// the parser call may sit in the function itself or in a helper of
		// this package that it calls (parseEgressSocks5Request today)
		found := false
		seen := map[*ssa.Function]bool{}
		var visit func(f *ssa.Function, d int)
		visit = func(f *ssa.Function, d int) {
			if f == nil || f.Blocks == nil || seen[f] || d > 2 {
				return
			}
			seen[f] = true
			instrs(f, func(_ *ssa.BasicBlock, _ int, in ssa.Instruction) {
				cl, ok := in.(ssa.CallInstruction)
				if !ok {
					return
				}
				if strings.HasSuffix(calleeID(cl), "model.Request).ReadFromSocks5") {
					found = true
				}
				if sc := cl.Common().StaticCallee(); sc != nil && relPkg(sc) == s5Pkg {
					visit(sc, d+1)
				}
			})
		}
		visit(fn, 0)
		if found {
			c.OK("parser@"+fname, fn.Pos(), "parses with (*model.Request).ReadFromSocks5")
		} else {
			c.Bad("parser@"+fname, fn.Pos(), "%s does not parse with (*model.Request).ReadFromSocks5: decision and handler could disagree about the destination", fname)
		}
	}
	// FindAction's input is request.Raw of the same request that is handled
	ssc := p.Fn(s5Pkg, "Server.serverServeConn")
	if ssc == nil {
		c.Anchor("socks5.Server.serverServeConn")
		return
	}
	var req ssa.Value
	instrs(ssc, func(_ *ssa.BasicBlock, _ int, in ssa.Instruction) {
		if cl, ok := in.(*ssa.Call); ok && calleeName(cl) == "readRequest" {
			req = cl
		}
	})
	good := false
	raw := p.Field("apis/model", "Request", "Raw")
	data := p.Field("pkg/egress", "Input", "Data")
	for _, s := range p.FieldStores(data) {
		if s.Fn != ssc {
			continue
		}
		for _, l := range Leaves(s.Val, nil) {
			if u, ok := l.(*ssa.UnOp); ok {
				if fa, ok := u.X.(*ssa.FieldAddr); ok {
					f, base := fieldOfAddr(fa)
					if sameField(f, raw) {
						for _, bl := range Leaves(base, nil) {
							if ex, ok := bl.(*ssa.Extract); ok && ex.Tuple == req {
								good = true
							}
						}
					}
				}
			}
		}
	}
	if good {
		c.OKH("decision-input@serverServeConn", ssc.Pos(), "egress.Input.Data = request.Raw of the request returned by readRequest (the one that is handled)")
	} else {
		c.Bad("decision-input@serverServeConn", ssc.Pos(), "the egress decision is not taken on the raw bytes of the request that is subsequently handled")
	}
}

func r12_5(c *RC) {
	p := c.P
	fa := p.Fn(s5Pkg, "Server.FindAction")
	fw := p.Fn(s5Pkg, "Server.forwardToProxyAction")
	if fa == nil || fw == nil {
		c.Anchor("socks5.Server.{FindAction,forwardToProxyAction}")
		return
	}
	var rj, fwc ssa.Instruction
	instrs(fa, func(_ *ssa.BasicBlock, _ int, in ssa.Instruction) {
		if cl, ok := in.(ssa.CallInstruction); ok {
			switch calleeName(cl) {
			case "rejectPrivateAndLoopbackIPAction":
				rj = in
			case "forwardToProxyAction":
				fwc = in
			}
		}
	})
	if rj == nil || fwc == nil || !instrDominates(rj, fwc) {
		c.Bad("gate-before-rules", fa.Pos(), "FindAction does not evaluate the private/loopback gate before the egress rules")
	} else {
		// the REJECT edge must not reach forwardToProxyAction
		ok := false
		reject := p.Const("pkg/appctl/appctlpb", "EgressAction_REJECT")
		for _, e := range controllingEdges(fwc.Block()) {
			if bo, isBo := e.If.Cond.(*ssa.BinOp); isBo && bo.Op == token.EQL && e.Idx == 1 {
				for _, v := range []ssa.Value{bo.X, bo.Y} {
					if k, isK := v.(*ssa.Const); isK && k.Value != nil && reject != nil && constant.Compare(k.Value, token.EQL, reject.(interface{ Val() constant.Value }).Val()) {
						ok = true
					}
				}
			}
		}
		if ok {
			c.OKH("gate-before-rules", rj.Pos(), "gate ≺ rules, and the rules are consulted only when the gate did not REJECT")
		} else {
			c.Bad("gate-before-rules", fwc.Pos(), "a REJECT from the private/loopback gate can be overridden by the egress rules")
		}
	}
	var match *ssa.Call
	instrs(fw, func(_ *ssa.BasicBlock, _ int, in ssa.Instruction) {
		if cl, ok := in.(*ssa.Call); ok && calleeName(cl) == "matchEgressRule" {
			match = cl
		}
	})
	if match == nil {
		c.Bad("first-match-wins", fw.Pos(), "forwardToProxyAction does not call matchEgressRule")
		return
	}
	// true edge successor must not reach the match call again
	var tsucc *ssa.BasicBlock
	for _, r := range *match.Referrers() {
		if iff, ok := r.(*ssa.If); ok {
			tsucc = iff.Block().Succs[0]
		}
	}
	if tsucc == nil {
		c.Undecided("first-match-wins", match.Pos(), "result of matchEgressRule is not branched on directly")
		return
	}
	if reachableAvoiding(fw, tsucc.Instrs[0], func(in ssa.Instruction) bool { return in == ssa.Instruction(match) }, nil) != nil {
		c.Bad("first-match-wins", match.Pos(), "after a rule matched, the loop can continue to later rules: a later rule could override the first match")
	} else {
		c.OKH("first-match-wins", match.Pos(), "every path from a match leaves the rule loop by return")
	}
}

func r12_6(c *RC) {
	p := c.P
	n := 0
	for _, fn := range p.Funcs(s5Pkg) {
		instrs(fn, func(_ *ssa.BasicBlock, _ int, in ssa.Instruction) {
			mu, ok := in.(*ssa.MapUpdate)
			if !ok {
				return
			}
			k, ok := mu.Key.(*ssa.Const)
			if !ok || k.Value == nil || k.Value.Kind() != constant.String || constant.StringVal(k.Value) != "user" {
				return
			}
			n++
			good := false
			for _, l := range Leaves(mu.Value, nil) {
				if call, ok := l.(*ssa.Call); ok && call.Common().IsInvoke() && call.Common().Method.Name() == "UserName" {
					good = true
				}
			}
			if good {
				c.OKH("env-user@"+fnName(fn), in.Pos(), "Env[\"user\"] = UserContext.UserName() of the mieru session")
			} else {
				c.Bad("env-user@"+fnName(fn), in.Pos(), "Env[\"user\"] is set from %s rather than from the mieru session's UserContext", describe(mu.Value))
			}
		})
	}
}

func r12_7(c *RC) {
	p := c.P
	fa := p.Fn(s5Pkg, "Server.FindAction")
	if fa == nil {
		c.Anchor("socks5.Server.FindAction")
		return
	}
	n := 0
	instrs(fa, func(_ *ssa.BasicBlock, _ int, in ssa.Instruction) {
		bo, ok := in.(*ssa.BinOp)
		if !ok {
			return
		}
		isLenData := func(v ssa.Value) bool {
			call, ok := v.(*ssa.Call)
			if !ok {
				return false
			}
			b, ok := call.Common().Value.(*ssa.Builtin)
			if !ok || b.Name() != "len" {
				return false
			}
			f := fieldOrigin(call.Common().Args[0])
			return f != nil && f.Name() == "Data"
		}
		var bound int64
		switch {
		case isLenData(bo.X) && (bo.Op == token.LSS || bo.Op == token.LEQ):
			k, ok := constInt(bo.Y)
			if !ok {
				return
			}
			bound = k
			if bo.Op == token.LEQ {
				bound = k + 1
			}
		case isLenData(bo.Y) && (bo.Op == token.GTR || bo.Op == token.GEQ):
			k, ok := constInt(bo.X)
			if !ok {
				return
			}
			bound = k
			if bo.Op == token.GEQ {
				bound = k + 1
			}
		default:
			return
		}
		n++
		if bound > 7 {
			c.Bad("length-guard@FindAction", bo.Pos(), "FindAction treats requests shorter than %d bytes as malformed and answers DIRECT without consulting the gate, but a well-formed CONNECT with a zero-length domain name is 7 bytes long and is dialed as the local machine", bound)
		} else {
			c.OKH("length-guard@FindAction", bo.Pos(), "requests shorter than %d bytes skip the gate; the shortest well-formed request has 7", bound)
		}
	})
	if n == 0 {
		c.OK("length-guard@FindAction", fa.Pos(), "no length guard before the gate")
	}
}
