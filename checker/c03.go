package main

import (
	"go/token"
	"go/types"
	"strings"

	"golang.org/x/tools/go/ssa"
)

func init() { register("C03", propC03) }

func propC03() *Property {
	return &Property{
		ID:         "C03",
		Decides:    "the shape of the close protocol on every path. Sender (closeWithError, explored path-sensitively over the atoms first-call / err==nil / session live / Insert succeeded / close request transmitted): R03.1 on a graceful close (err == nil) of a live session no path reaches the discard of the send state (sendQueue.DeleteAll, sendBuf.DeleteAll) without first queueing the close request behind the pending data - whatever the session state; the queued segment is the close request itself, inserted under oLock; R03.2 after a successful Insert the send state is discarded only once lastSend has reached the close request's sequence number or the bounded wait is exhausted, and the close request is written directly only when it was not transmitted by the output loop; R03.3 on TCP the output loop and every direct transmission hold oLock, so the close request follows all queued data on the wire (shared with R01.4); R03.4 the send state is discarded nowhere else. Receiver: R03.5 a close request that arrives on the datagram transport ahead of segments not yet delivered (its sequence number is greater than nextRecv) marks the session incomplete before the session is closed, on every path; R03.6 Session.Read reports io.EOF only when nothing is left to hand out (receive queue empty, nothing copied, no kept tail) and the session is not marked incomplete - otherwise it returns data or io.ErrUnexpectedEOF. R03.7 the close request the datagram underlay sends on behalf of a session it no longer knows carries a sequence number strictly ahead of the peer's unAckSeq, so the receiver's gap test marks the session incomplete (finding F15, repaired in /repo d21d74d).",
		NotDecided: "what the peer application actually read (needs execution); the stream transport's receive side beyond ordering by the byte stream (a TCP close request cannot overtake data, by R03.3 and TCP itself); the case sendQueue.Insert fails because the queue is full; the random choice Read makes when closedChan and inputErr are both ready.",
		Rules: []Rule{
			{ID: "R03.1", Floor: 4, Text: "graceful close queues the close request behind pending data before any discard", Run: r03_1},
			{ID: "R03.2", Floor: 3, Text: "discard only after the close request was transmitted or the bounded wait expired; direct transmission only when not transmitted", Run: r03_2},
			{ID: "R03.3", Floor: 4, Text: "every transmission of the stream transport holds oLock (shared with R01.4)", Run: r01_4},
			{ID: "R03.4", Floor: 2, Text: "sendQueue.DeleteAll / sendBuf.DeleteAll only in closeWithError", Run: r03_4},
			{ID: "R03.5", Floor: 3, Text: "a close request ahead of undelivered segments marks the session incomplete before closing it", Run: r03_5},
			{ID: "R03.7", Floor: 1, Text: "a close request made by the datagram underlay cannot pass for a clean close (seq = unAckSeq + k, k >= 1) and is made only for a session id that is not in the map", Run: r03_7},
			{ID: "R03.8", Floor: 1, Text: "a retransmitted data segment carries the current nextRecv as unAckSeq (what R03.7's unAckSeq + 1 is measured against)", Run: r03_8},
			{ID: "R03.6", Floor: 2, Text: "Read returns io.EOF only with nothing left and the session not marked incomplete", Run: r03_6},
		},
	}
}

type closeAtoms struct {
	p  *Prog
	fn *ssa.Function
}

func (a closeAtoms) atom(cond ssa.Value) (string, int, bool) {
	switch x := cond.(type) {
	case *ssa.Call:
		n := calleeName(x)
		switch n {
		case "CompareAndSwap":
			if f := fieldOrigin(x.Call.Args[0]); f != nil && f.Name() == "closeRequested" {
				return "first-call", 0, true
			}
		case "isState":
			if k, ok := constInt(x.Call.Args[1]); ok {
				return "state:" + fmtInt(int(k)), 0, true
			}
		case "Insert":
			if f := fieldOrigin(x.Call.Args[0]); f != nil && f.Name() == "sendQueue" {
				return "insert-ok", 0, true
			}
		}
		if h := closeWaitHelper(x.Call.StaticCallee()); h != nil {
			return "close-sent", 0, true
		}
	case *ssa.BinOp:
		if _, isParam := x.X.(*ssa.Parameter); isParam && isNilConst(x.Y) && types.Identical(x.X.Type(), types.Universe.Lookup("error").Type()) {
			if x.Op == token.EQL {
				return "err-nil", 0, true
			}
			if x.Op == token.NEQ {
				return "err-nil", 1, true
			}
		}
		if cl, ok := x.X.(*ssa.Call); ok && calleeName(cl) == "Load" {
			if f := fieldOrigin(cl.Call.Args[0]); f != nil && f.Name() == "lastSend" {
				switch x.Op {
				case token.GEQ, token.GTR:
					return "close-sent", 0, true
				case token.LSS, token.LEQ:
					return "close-sent", 1, true
				}
			}
		}
	}
	return "", 0, false
}

func isTreeCall(in ssa.Instruction, field, method string) bool {
	cl, ok := in.(*ssa.Call)
	if !ok || calleeName(cl) != method || len(cl.Call.Args) == 0 {
		return false
	}
	f := fieldOrigin(cl.Call.Args[0])
	return f != nil && f.Name() == field
}

func isDiscard(in ssa.Instruction) bool {
	if isTreeCall(in, "sendQueue", "DeleteAll") || isTreeCall(in, "sendBuf", "DeleteAll") {
		return true
	}
	// a call of a helper that does the discarding (the tail of Close split off)
	if cl, ok := in.(*ssa.Call); ok {
		if sc := cl.Common().StaticCallee(); sc != nil && sc.Blocks != nil && sc.Object() != nil && !sc.Object().Exported() && !anchorNames[sc.Name()] && relPkg(sc) == protoPkg {
			return discardsInside(sc) > 0
		}
	}
	return false
}

// discardsInside counts the DeleteAll calls on sendQueue / sendBuf in fn itself.
func discardsInside(fn *ssa.Function) int {
	n := 0
	instrs(fn, func(_ *ssa.BasicBlock, _ int, in ssa.Instruction) {
		if isTreeCall(in, "sendQueue", "DeleteAll") || isTreeCall(in, "sendBuf", "DeleteAll") {
			n++
		}
	})
	return n
}

func r03_1(c *RC) {
	p := c.P
	fn := p.Fn(protoPkg, "Session.closeWithError")
	if fn == nil {
		c.Anchor("Session.closeWithError")
		return
	}
	at := closeAtoms{p, fn}
	att, _ := constOf(p, protoPkg, "sessionAttached")
	est, _ := constOf(p, protoPkg, "sessionEstablished")
	nd := 0
	for _, f := range withHelpers(p, fn, 1) {
		nd += discardsInside(f)
	}
	if nd < 2 {
		c.Bad("discard-sites", fn.Pos(), "closeWithError no longer discards both sendQueue and sendBuf (%d DeleteAll calls): retransmission would continue after close", nd)
		return
	}
	for _, sc := range []struct {
		name   string
		assume map[string]bool
	}{
		{"attached", map[string]bool{"first-call": true, "err-nil": true, "state:" + fmtInt(int(att)): true}},
		{"established", map[string]bool{"first-call": true, "err-nil": true, "state:" + fmtInt(int(att)): false, "state:" + fmtInt(int(est)): true}},
	} {
		key := "graceful-queues-close-request:" + sc.name
		ex := &Explorer{Fn: fn, Atom: at.atom, Assume: sc.assume, Avoid: func(in ssa.Instruction) bool { return isTreeCall(in, "sendQueue", "Insert") }}
		hit := ex.Reach(nil, isDiscard)
		switch {
		case ex.Over:
			c.Undecided(key, fn.Pos(), "exploration budget exceeded")
		case hit != nil:
			c.Bad(key, hit.Pos(), "Close() (err == nil) of a session in state %s can discard the send state without having queued the close request behind the pending data: the close request is then written at once, data the application already wrote is dropped, and the peer reads a strict prefix followed by a clean end-of-stream", sc.name)
		default:
			c.OKH(key, fn.Pos(), "err == nil, state %s: every path to DeleteAll passes sendQueue.Insert", sc.name)
		}
		// vacuity: Insert is reachable in that scenario
		ex2 := &Explorer{Fn: fn, Atom: at.atom, Assume: sc.assume}
		if ex2.Reach(nil, func(in ssa.Instruction) bool { return isTreeCall(in, "sendQueue", "Insert") }) == nil {
			c.Bad(key+":reachable", fn.Pos(), "sendQueue.Insert is unreachable for a graceful close in state %s", sc.name)
		}
	}
	// what is inserted
	crq, _ := constOf(p, protoPkg, "closeSessionRequest")
	ol := p.Field(protoPkg, "Session", "oLock")
	instrs(fn, func(_ *ssa.BasicBlock, _ int, in ssa.Instruction) {
		if !isTreeCall(in, "sendQueue", "Insert") {
			return
		}
		cl := in.(*ssa.Call)
		seg := cl.Call.Args[1]
		proto := segmentLiteralProtocol(seg)
		if proto == crq {
			c.OKH("queued-segment-is-close-request", in.Pos(), "the segment queued is the closeSessionRequest literal")
		} else {
			c.Bad("queued-segment-is-close-request", in.Pos(), "the segment queued at close has protocol %d, not closeSessionRequest", proto)
		}
		if lockHeldAt(fn, in, ol) {
			c.OKH("queued-under-oLock", in.Pos(), "queued with oLock held, in the critical section that assigned its sequence number")
		} else {
			c.Bad("queued-under-oLock", in.Pos(), "the close request is queued without oLock: a concurrent Write can obtain a later sequence number and still be queued ahead")
		}
		// the same literal is the one transmitted directly
		instrs(fn, func(_ *ssa.BasicBlock, _ int, x ssa.Instruction) {
			if oc, ok := x.(*ssa.Call); ok && calleeName(oc) == "output" {
				if oc.Call.Args[1] != seg {
					c.Bad("direct-segment-same", x.Pos(), "the segment written directly differs from the one queued")
				}
			}
		})
	})
}

// segmentLiteralProtocol finds the constant stored to baseStruct.protocol of
// the metadata literal of a segment literal; -1 when not recognised.
func segmentLiteralProtocol(seg ssa.Value) int64 {
	al, ok := seg.(*ssa.Alloc)
	if !ok {
		return -1
	}
	var md ssa.Value
	for _, r := range *al.Referrers() {
		if fa, ok := r.(*ssa.FieldAddr); ok {
			if f, _ := fieldOfAddr(fa); f != nil && f.Name() == "metadata" {
				for _, r2 := range *fa.Referrers() {
					if st, ok := r2.(*ssa.Store); ok {
						md = st.Val
					}
				}
			}
		}
	}
	mi, ok := md.(*ssa.MakeInterface)
	if !ok {
		return -1
	}
	ml, ok := mi.X.(*ssa.Alloc)
	if !ok {
		return -1
	}
	// baseStruct is stored as a whole value loaded from a local literal
	res := int64(-1)
	for _, r := range *ml.Referrers() {
		fa, ok := r.(*ssa.FieldAddr)
		if !ok {
			continue
		}
		if f, _ := fieldOfAddr(fa); f == nil || f.Name() != "baseStruct" {
			continue
		}
		for _, r2 := range *fa.Referrers() {
			switch y := r2.(type) {
			case *ssa.Store:
				if ld, ok := y.Val.(*ssa.UnOp); ok {
					if bl, ok := ld.X.(*ssa.Alloc); ok {
						for _, r3 := range *bl.Referrers() {
							if pf, ok := r3.(*ssa.FieldAddr); ok {
								for _, r4 := range *pf.Referrers() {
									if st, ok := r4.(*ssa.Store); ok {
										if k, ok := constInt(st.Val); ok {
											res = k
										}
									}
								}
							}
						}
					}
				}
			case *ssa.FieldAddr:
				for _, r4 := range *y.Referrers() {
					if st, ok := r4.(*ssa.Store); ok {
						if k, ok := constInt(st.Val); ok {
							res = k
						}
					}
				}
			}
		}
	}
	return res
}

func r03_2(c *RC) {
	p := c.P
	fn := p.Fn(protoPkg, "Session.closeWithError")
	if fn == nil {
		c.Anchor("Session.closeWithError")
		return
	}
	at := closeAtoms{p, fn}
	att, _ := constOf(p, protoPkg, "sessionAttached")
	base := func(extra map[string]bool) map[string]bool {
		m := map[string]bool{"first-call": true, "err-nil": true, "state:" + fmtInt(int(att)): true, "insert-ok": true}
		for k, v := range extra {
			m[k] = v
		}
		return m
	}
	// the wait loop: a loop whose condition compares a counter with a constant and whose body sleeps
	var budgetIf *ssa.If
	var budget int64
	instrs(fn, func(b *ssa.BasicBlock, _ int, in ssa.Instruction) {
		iff, ok := in.(*ssa.If)
		if !ok || !reachesSelf(b) {
			return
		}
		if bo, ok := iff.Cond.(*ssa.BinOp); ok && bo.Op == token.LSS {
			if k, ok := constInt(bo.Y); ok {
				if _, isPhi := bo.X.(*ssa.Phi); isPhi {
					budgetIf, budget = iff, k
				}
			}
		}
	})
	if budgetIf == nil {
		// the wait may have been extracted into a helper method
		var hcall *ssa.Call
		var h *closeWait
		instrs(fn, func(_ *ssa.BasicBlock, _ int, in ssa.Instruction) {
			if cl, ok := in.(*ssa.Call); ok {
				if w := closeWaitHelper(cl.Call.StaticCallee()); w != nil {
					hcall, h = cl, w
				}
			}
		})
		if h == nil {
			c.Bad("bounded-wait", fn.Pos(), "closeWithError has no bounded wait for the close request to be transmitted")
			return
		}
		c.Info("close_wait_iterations", h.budget)
		seqOK := false
		if h.seqParam < len(hcall.Call.Args) {
			for _, l := range Leaves(hcall.Call.Args[h.seqParam], nil) {
				if cl, ok := l.(*ssa.Call); ok && calleeName(cl) == "Load" {
					if f := fieldOrigin(cl.Call.Args[0]); f != nil && f.Name() == "nextSend" {
						seqOK = true
					}
				}
			}
		}
		if seqOK {
			c.OKH("wait-on-close-seq", fn.Pos(), "the wait helper is given the sequence number assigned to the close request")
		} else {
			c.Bad("wait-on-close-seq", fn.Pos(), "the wait helper is not given the close request's sequence number")
		}
		// after a successful Insert the discard is reachable only past the wait
		ex := &Explorer{Fn: fn, Atom: at.atom, Assume: base(nil), Avoid: func(in ssa.Instruction) bool { return in == ssa.Instruction(hcall) }}
		hit := ex.Reach(nil, isDiscard)
		switch {
		case ex.Over:
			c.Undecided("discard-after-transmission", fn.Pos(), "exploration budget exceeded")
		case hit != nil:
			c.Bad("discard-after-transmission", hit.Pos(), "after queueing the close request the send state can be discarded without waiting for its transmission")
		default:
			c.OKH("discard-after-transmission", fn.Pos(), "with the close request queued, DeleteAll is reachable only past %s, which reports 'not sent' only after its %d-iteration budget", fnName(h.fn), h.budget)
		}
		isOut := func(in ssa.Instruction) bool {
			cl, ok := in.(*ssa.Call)
			return ok && calleeName(cl) == "output"
		}
		ex2 := &Explorer{Fn: fn, Atom: at.atom, Assume: base(map[string]bool{"close-sent": true})}
		hit = ex2.Reach(nil, isOut)
		switch {
		case ex2.Over:
			c.Undecided("no-duplicate-direct-write", fn.Pos(), "exploration budget exceeded")
		case hit != nil:
			c.Bad("no-duplicate-direct-write", hit.Pos(), "the close request is written directly although the output loop already transmitted it")
		default:
			c.OKH("no-duplicate-direct-write", fn.Pos(), "once the wait reported the close request as sent it is not written again")
		}
		return
	}
	c.Info("close_wait_iterations", budget)
	cutBudget := func(from *ssa.BasicBlock, idx int) bool { return from == budgetIf.Block() && idx == 1 }
	// the wait condition refers to the close request's own sequence number
	seqOK := false
	instrs(fn, func(_ *ssa.BasicBlock, _ int, in ssa.Instruction) {
		bo, ok := in.(*ssa.BinOp)
		if !ok {
			return
		}
		if n, _, ok := at.atom(bo); ok && n == "close-sent" {
			for _, l := range Leaves(bo.Y, nil) {
				if cl, ok := l.(*ssa.Call); ok && calleeName(cl) == "Load" {
					if f := fieldOrigin(cl.Call.Args[0]); f != nil && f.Name() == "nextSend" {
						seqOK = true
					}
				}
			}
		}
	})
	if seqOK {
		c.OKH("wait-on-close-seq", fn.Pos(), "the wait compares lastSend with the sequence number assigned to the close request")
	} else {
		c.Bad("wait-on-close-seq", fn.Pos(), "the wait does not compare lastSend with the close request's sequence number: the send state can be discarded while data queued before the close request has not been handed to the underlay")
	}
	ex := &Explorer{Fn: fn, Atom: at.atom, Assume: base(map[string]bool{"close-sent": false}), Cut: cutBudget}
	hit := ex.Reach(nil, isDiscard)
	switch {
	case ex.Over:
		c.Undecided("discard-after-transmission", fn.Pos(), "exploration budget exceeded")
	case hit != nil:
		c.Bad("discard-after-transmission", hit.Pos(), "after queueing the close request the send state can be discarded although the close request (and the data ahead of it) has not been transmitted and the wait budget is not exhausted")
	default:
		c.OKH("discard-after-transmission", fn.Pos(), "with the close request queued and not yet transmitted, DeleteAll is reachable only by exhausting the %d-iteration wait", budget)
	}
	isOut := func(in ssa.Instruction) bool {
		cl, ok := in.(*ssa.Call)
		return ok && calleeName(cl) == "output"
	}
	ex2 := &Explorer{Fn: fn, Atom: at.atom, Assume: base(map[string]bool{"close-sent": true}), Cut: cutBudget}
	hit = ex2.Reach(nil, isOut)
	switch {
	case ex2.Over:
		c.Undecided("no-duplicate-direct-write", fn.Pos(), "exploration budget exceeded")
	case hit != nil:
		c.Bad("no-duplicate-direct-write", hit.Pos(), "the close request is written directly although the output loop already transmitted it")
	default:
		c.OKH("no-duplicate-direct-write", fn.Pos(), "once lastSend reached the close request it is not written again")
	}
}

func r03_4(c *RC) {
	p := c.P
	for _, fname := range []string{"sendQueue", "sendBuf"} {
		f := p.Field(protoPkg, "Session", fname)
		if f == nil {
			c.Anchor("Session." + fname)
			continue
		}
		for _, s := range p.FieldMethodCalls(f, "DeleteAll") {
			key := fname + ".DeleteAll@" + fnName(s.Fn)
			if ownerName(p, s.Fn) == "closeWithError" {
				c.OK(key, s.Pos(), "discard at close")
			} else {
				c.Bad(key, s.Pos(), "%s.DeleteAll outside closeWithError: data the application wrote successfully is forgotten", fname)
			}
		}
	}
}

func r03_5(c *RC) {
	p := c.P
	fn := p.Fn(protoPkg, "Session.inputClose")
	ri := p.Field(protoPkg, "Session", "recvIncomplete")
	nr := p.Field(protoPkg, "Session", "nextRecv")
	if fn == nil || nr == nil {
		c.Anchor("Session.inputClose / nextRecv")
		return
	}
	if ri == nil {
		c.Bad("incomplete-flag", fn.Pos(), "Session has no record of 'the peer closed before all preceding segments arrived': on the datagram transport the receiver acts on a close request as soon as it is dispatched, so a lost or overtaken data segment turns into a clean end-of-stream after a strict prefix")
		return
	}
	crq, _ := constOf(p, protoPkg, "closeSessionRequest")
	atom := func(cond ssa.Value) (string, int, bool) {
		bo, ok := cond.(*ssa.BinOp)
		if !ok {
			return "", 0, false
		}
		if f := fieldOrigin(bo.X); f != nil && f.Name() == "transportProtocol" && bo.Op == token.EQL {
			if k, ok := constInt(bo.Y); ok {
				if pk, _ := constOf(p, "pkg/common", "PacketTransport"); pk == k {
					return "datagram", 0, true
				}
			}
		}
		if cl, ok := bo.X.(*ssa.Call); ok && cl.Call.IsInvoke() && cl.Call.Method.Name() == "Protocol" && bo.Op == token.EQL {
			if k, ok := constInt(bo.Y); ok && k == crq {
				return "close-request", 0, true
			}
		}
		if ex, ok := bo.X.(*ssa.Extract); ok && isNilConst(bo.Y) {
			if cl, ok := ex.Tuple.(*ssa.Call); ok && calleeName(cl) == "Seq" {
				if bo.Op == token.EQL {
					return "seq-readable", 0, true
				}
				return "seq-readable", 1, true
			}
		}
		gap := func(a, b ssa.Value) bool {
			ex, ok := a.(*ssa.Extract)
			if !ok {
				return false
			}
			if cl, ok := ex.Tuple.(*ssa.Call); !ok || calleeName(cl) != "Seq" {
				return false
			}
			cl, ok := b.(*ssa.Call)
			return ok && calleeName(cl) == "Load" && sameField(fieldOrigin(cl.Call.Args[0]), nr)
		}
		switch {
		case bo.Op == token.GTR && gap(bo.X, bo.Y), bo.Op == token.LSS && gap(bo.Y, bo.X):
			return "seq-gap", 0, true
		case bo.Op == token.LEQ && gap(bo.X, bo.Y), bo.Op == token.GEQ && gap(bo.Y, bo.X):
			return "seq-gap", 1, true
		}
		return "", 0, false
	}
	have := map[string]bool{}
	instrs(fn, func(_ *ssa.BasicBlock, _ int, in ssa.Instruction) {
		if bo, ok := in.(*ssa.BinOp); ok {
			if n, _, ok := atom(bo); ok {
				have[n] = true
			}
		}
	})
	if !have["seq-gap"] {
		c.Bad("gap-test", fn.Pos(), "inputClose does not compare the close request's sequence number with nextRecv")
		return
	}
	c.OK("gap-test", fn.Pos(), "inputClose compares seq(close request) > nextRecv.Load()")
	isClose := func(in ssa.Instruction) bool {
		cl, ok := in.(*ssa.Call)
		return ok && (calleeName(cl) == "Close" || calleeName(cl) == "closeWithError")
	}
	isMark := func(in ssa.Instruction) bool {
		n, cl := atomicCallOn(in, ri)
		if n != "Store" {
			return false
		}
		k, ok := cl.Common().Args[1].(*ssa.Const)
		return ok && k.Value != nil && k.Value.String() == "true"
	}
	ex := &Explorer{Fn: fn, Atom: atom, Assume: map[string]bool{"datagram": true, "close-request": true, "seq-readable": true, "seq-gap": true}, Avoid: isMark}
	hit := ex.Reach(nil, isClose)
	switch {
	case ex.Over:
		c.Undecided("gap-marks-incomplete", fn.Pos(), "exploration budget exceeded")
	case hit != nil:
		c.Bad("gap-marks-incomplete", hit.Pos(), "a datagram close request ahead of undelivered segments can close the session without marking it incomplete: the reader then sees a clean end-of-stream after a strict prefix")
	default:
		c.OKH("gap-marks-incomplete", fn.Pos(), "datagram transport, close request, seq > nextRecv: every path to Close() passes recvIncomplete.Store(true)")
	}
	// the mark is never set without a gap (else a complete transfer would end in an error)
	ex2 := &Explorer{Fn: fn, Atom: atom, Assume: map[string]bool{"seq-gap": false}}
	if h := ex2.Reach(nil, isMark); h != nil {
		c.Bad("mark-only-on-gap", h.Pos(), "recvIncomplete is set although the close request is not ahead of nextRecv: a complete transfer would end with an error")
	} else {
		c.OKH("mark-only-on-gap", fn.Pos(), "recvIncomplete.Store(true) is unreachable when seq <= nextRecv")
	}
	// nobody clears it, nobody else sets it
	for _, s := range p.FieldMethodCalls(ri, "Store", "Swap", "CompareAndSwap") {
		if s.Fn != fn {
			c.Bad("incomplete-writer@"+fnName(s.Fn), s.Pos(), "%s writes recvIncomplete", fnName(s.Fn))
		}
	}
}

func r03_6(c *RC) {
	p := c.P
	fn := p.Fn(protoPkg, "Session.Read")
	ri := p.Field(protoPkg, "Session", "recvIncomplete")
	rq := p.Field(protoPkg, "Session", "recvQueue")
	if fn == nil || rq == nil {
		c.Anchor("Session.Read / recvQueue")
		return
	}
	isEOF := func(v ssa.Value) bool {
		for _, l := range Leaves(v, nil) {
			if u, ok := l.(*ssa.UnOp); ok && u.Op == token.MUL {
				if g, ok := u.X.(*ssa.Global); ok && g.Name() == "EOF" && g.Pkg != nil && g.Pkg.Pkg.Path() == "io" {
					return true
				}
			}
		}
		return false
	}
	n := 0
	// with defer-spilled results the stores of io.EOF to the err result precede the return: find stores/returns of io.EOF
	// gate: the blocks whose control conditions together guard the EOF
	// result - the returning block, and when the wait was extracted into a
	// helper also the call sites that lead to it
	check := func(gate []*ssa.BasicBlock, pos token.Pos) {
		n++
		var conds []condEdge
		for _, gb := range gate {
			conds = append(conds, controlConds(gb.Parent(), gb)...)
		}
		var emptyQ, nothingCopied, notIncomplete, closedCase bool
		for _, ce := range conds {
			switch x := ce.If.Cond.(type) {
			case *ssa.BinOp:
				// "v is zero" on this edge, in any spelling: v > 0 false, v == 0
				// true, v < 1 true, v != 0 false, v >= 1 false ...
				isZeroConst := func(v ssa.Value) bool { k, ok := constInt(v); return ok && k == 0 }
				isOneConst := func(v ssa.Value) bool { k, ok := constInt(v); return ok && k == 1 }
				zeroOn := func(pv func(ssa.Value) bool) bool {
					if ce.Idx == 1 {
						return cmpForm(x, token.GTR, pv, isZeroConst) || cmpForm(x, token.NEQ, pv, isZeroConst) || cmpForm(x, token.GEQ, pv, isOneConst)
					}
					return cmpForm(x, token.LEQ, pv, isZeroConst) || cmpForm(x, token.EQL, pv, isZeroConst) || cmpForm(x, token.LSS, pv, isOneConst)
				}
				isQueueLen := func(v ssa.Value) bool {
					cl, ok := v.(*ssa.Call)
					return ok && calleeName(cl) == "Len" && sameField(fieldOrigin(cl.Call.Args[0]), rq)
				}
				isCount := func(v ssa.Value) bool {
					if _, isCall := v.(*ssa.Call); isCall {
						return false
					}
					if _, isK := v.(*ssa.Const); isK {
						return false
					}
					bt, ok := v.Type().Underlying().(*types.Basic)
					return ok && bt.Kind() == types.Int
				}
				if zeroOn(isQueueLen) {
					emptyQ = true
				}
				if zeroOn(isCount) {
					nothingCopied = true
				}
				if x.Op == token.EQL && ce.Idx == 0 {
					if ex, ok := x.X.(*ssa.Extract); ok {
						if sel, ok := ex.Tuple.(*ssa.Select); ok {
							if idx, ok := constInt(x.Y); ok && int(idx) < len(sel.States) {
								if f := fieldOrigin(sel.States[idx].Chan); f != nil && f.Name() == "closedChan" {
									closedCase = true
								}
							}
						}
					}
				}
			case *ssa.Call:
				if nme, _ := atomicCallOn(x, ri); nme == "Load" && ce.Idx == 1 {
					notIncomplete = true
				}
			}
		}
		// F16: the emptiness of the queue must be established *after* the
		// wake-up that saw the session closed. A test made before the wait
		// says nothing about what was queued while waiting: data and close
		// can both arrive in that window, select may pick the close, and the
		// application reads a strict prefix and then a clean end of stream.
		recheck := false
		var wake *ssa.Select
		for _, ce := range conds {
			if x, ok := ce.If.Cond.(*ssa.BinOp); ok && x.Op == token.EQL && ce.Idx == 0 {
				if ex, ok := x.X.(*ssa.Extract); ok {
					if sel, ok := ex.Tuple.(*ssa.Select); ok {
						wake = sel
					}
				}
			}
		}
		if wake != nil {
			for _, ce := range conds {
				x, ok := ce.If.Cond.(*ssa.BinOp)
				if !ok || !instrDominates(wake, ce.If) {
					continue
				}
				isZeroConst := func(v ssa.Value) bool { k, ok := constInt(v); return ok && k == 0 }
				isOneConst := func(v ssa.Value) bool { k, ok := constInt(v); return ok && k == 1 }
				isQueueLen := func(v ssa.Value) bool {
					cl, ok := v.(*ssa.Call)
					return ok && calleeName(cl) == "Len" && sameField(fieldOrigin(cl.Call.Args[0]), rq)
				}
				var zero bool
				if ce.Idx == 1 {
					zero = cmpForm(x, token.GTR, isQueueLen, isZeroConst) || cmpForm(x, token.NEQ, isQueueLen, isZeroConst) || cmpForm(x, token.GEQ, isQueueLen, isOneConst)
				} else {
					zero = cmpForm(x, token.LEQ, isQueueLen, isZeroConst) || cmpForm(x, token.EQL, isQueueLen, isZeroConst) || cmpForm(x, token.LSS, isQueueLen, isOneConst)
				}
				if zero {
					recheck = true
				}
			}
		}
		var missing []string
		if !emptyQ {
			missing = append(missing, "receive queue empty")
		}
		if emptyQ && !recheck {
			missing = append(missing, "a test of the receive queue made after the wake-up that found the session closed (the only test precedes the wait, so segments queued while waiting are skipped)")
		}
		if !nothingCopied {
			missing = append(missing, "nothing copied in this call")
		}
		if !closedCase {
			missing = append(missing, "session closed (select case closedChan)")
		}
		if ri != nil && !notIncomplete {
			missing = append(missing, "session not marked incomplete")
		}
		if ri == nil {
			missing = append(missing, "an 'incomplete' record to consult")
		}
		if len(missing) == 0 {
			c.OKH("eof-conditions", pos, "io.EOF only with the receive queue empty (tested again after the wake-up), nothing copied, session closed and not marked incomplete")
		} else {
			c.Bad("eof-conditions", pos, "Session.Read can report a clean end-of-stream without %s", strings.Join(missing, ", "))
		}
	}
	instrs(fn, func(b *ssa.BasicBlock, _ int, in ssa.Instruction) {
		switch x := in.(type) {
		case *ssa.Return:
			if len(x.Results) == 2 {
				if _, spilled := x.Results[1].(*ssa.UnOp); !spilled && isEOF(x.Results[1]) {
					check([]*ssa.BasicBlock{b}, in.Pos())
				}
			}
		case *ssa.Store:
			if al, ok := x.Addr.(*ssa.Alloc); ok && al.Comment == "err" && isEOF(x.Val) {
				check([]*ssa.BasicBlock{b}, in.Pos())
			}
		}
	})
	// an io.EOF that a helper of Read returns as its error
	for _, h := range withHelpers(p, fn, 2)[1:] {
		nres := h.Signature.Results().Len()
		if nres == 0 || h.Signature.Results().At(nres-1).Type().String() != "error" {
			continue
		}
		h := h
		instrs(h, func(b *ssa.BasicBlock, _ int, in ssa.Instruction) {
			r, ok := in.(*ssa.Return)
			if !ok || len(r.Results) != nres || !isEOF(retVal(r, nres-1)) {
				return
			}
			gate := []*ssa.BasicBlock{b}
			if chain, ok := callChain(p, fn, h, 2); ok {
				for _, cs := range chain {
					gate = append(gate, cs.Block())
				}
			}
			check(gate, in.Pos())
		})
	}
	if n == 0 {
		c.Undecided("eof-conditions", fn.Pos(), "no io.EOF result found in Session.Read")
	}
	// the kept tail is empty whenever nothing was copied: covered by R01.7 (older-bytes-first)
	c.OK("eof-after-tail", fn.Pos(), "a non-empty unreadBuf is copied before the queue is consulted (R01.7), so 'nothing copied' implies no kept tail")
}

// r03_7: the datagram underlay answers traffic for a session it no longer
// knows with a close request of its own making. That request says nothing
// about whether the peer has received everything, so it must not be able to
// pass for a clean close: its sequence number is strictly ahead of the
// peer's own unAckSeq (the peer's nextRecv), which makes the receiver's gap
// test (R03.5) fire. With seq == unAckSeq the loss of the tail data together
// with the session's own close request ends in a clean EOF after a prefix
// (finding F15).
func r03_7(c *RC) {
	p := c.P
	fn := p.Fn(protoPkg, "PacketUnderlay.RunEventLoop")
	seqF := p.Field(protoPkg, "sessionStruct", "seq")
	ua := p.Field(protoPkg, "dataAckStruct", "unAckSeq")
	if fn == nil || seqF == nil || ua == nil {
		c.Anchor("PacketUnderlay.RunEventLoop / sessionStruct.seq / dataAckStruct.unAckSeq")
		return
	}
	crq, _ := constOf(p, protoPkg, "closeSessionRequest")
	n := 0
	instrs(fn, func(_ *ssa.BasicBlock, _ int, in ssa.Instruction) {
		st, ok := in.(*ssa.Store)
		if !ok {
			return
		}
		f, base := fieldOfAddr(st.Addr)
		if !sameField(f, seqF) {
			return
		}
		// the literal's protocol
		al, ok := base.(*ssa.Alloc)
		if !ok {
			return
		}
		proto := int64(-1)
		for _, r := range *al.Referrers() {
			fa, ok := r.(*ssa.FieldAddr)
			if !ok {
				continue
			}
			if g, _ := fieldOfAddr(fa); g == nil || g.Name() != "baseStruct" {
				continue
			}
			for _, r2 := range *fa.Referrers() {
				switch y := r2.(type) {
				case *ssa.Store:
					if ld, ok := y.Val.(*ssa.UnOp); ok {
						if bl, ok := ld.X.(*ssa.Alloc); ok {
							for _, r3 := range *bl.Referrers() {
								if pf, ok := r3.(*ssa.FieldAddr); ok {
									for _, r4 := range *pf.Referrers() {
										if s4, ok := r4.(*ssa.Store); ok {
											if k, ok := constInt(s4.Val); ok {
												proto = k
											}
										}
									}
								}
							}
						}
					}
				case *ssa.FieldAddr:
					for _, r4 := range *y.Referrers() {
						if s4, ok := r4.(*ssa.Store); ok {
							if k, ok := constInt(s4.Val); ok {
								proto = k
							}
						}
					}
				}
			}
		}
		if proto != crq {
			return
		}
		n++
		key := "synthetic-close-is-not-clean"
		ahead := false
		if bo, ok := st.Val.(*ssa.BinOp); ok && bo.Op == token.ADD {
			for _, pair := range [][2]ssa.Value{{bo.X, bo.Y}, {bo.Y, bo.X}} {
				if k, isK := constInt(pair[1]); isK && k >= 1 && sameField(fieldOrigin(pair[0]), ua) {
					ahead = true
				}
			}
		}
		// ... and it is made only for a session id that is not in the map.
		// A session that is still registered (closing, closed but not yet
		// swept) is answered by that session or not at all: its state says
		// nothing the peer's acks have not said already, and a close request
		// built from an ack that is still in flight can overtake nothing but
		// the data it was meant to protect.
		unknownOnly := false
		for _, e := range controllingEdges(in.Block()) {
			atom, neg := condAtom(e.If.Cond)
			ex, isEx := atom.(*ssa.Extract)
			if !isEx || ex.Index != 1 {
				continue
			}
			cl, isCall := ex.Tuple.(*ssa.Call)
			if !isCall || calleeID(cl) != "(*sync.Map).Load" {
				continue
			}
			if f := fieldOrigin(cl.Common().Args[0]); f == nil || f.Name() != "sessionMap" {
				continue
			}
			found := (e.Idx == 0) != neg
			if !found {
				unknownOnly = true
			}
		}
		if !unknownOnly {
			c.Bad("synthetic-close-only-for-unknown", in.Pos(), "the datagram event loop makes a close request of its own on a path that is not simply 'sessionMap.Load found nothing': a session that still exists (for instance one that was just closed locally) would be answered with unAckSeq+1 taken from an ack that may still be overtaken by data in flight, and the peer would read a clean end-of-stream after a strict prefix")
		} else {
			c.OKH("synthetic-close-only-for-unknown", in.Pos(), "made only on the not-found edge of sessionMap.Load")
		}
		switch {
		case ahead:
			c.OKH(key, in.Pos(), "the close request made for an unknown session carries unAckSeq + k (k >= 1): the peer's gap test fires")
		case sameField(fieldOrigin(st.Val), ua):
			c.Bad(key, in.Pos(), "the close request the datagram underlay makes for a session it no longer knows carries the peer's own unAckSeq as its sequence number: the peer cannot tell it from a clean close, so losing the tail of the data together with the session's own close request yields a clean end-of-stream after a strict prefix")
		default:
			c.Bad(key, in.Pos(), "the close request made for an unknown session has sequence number %s, which is not derived from the peer's unAckSeq + k (k >= 1)", describe(st.Val))
		}
	})
	if n == 0 {
		c.OK("synthetic-close-is-not-clean", fn.Pos(), "the datagram event loop builds no close request of its own")
	}
}

// closeWait summarises a helper that performs the bounded wait for the close
// request: a loop with a constant budget that sleeps, compares lastSend.Load()
// with one of its parameters, returns true exactly on that comparison's true
// edge and false only once the budget is exhausted.
type closeWait struct {
	fn       *ssa.Function
	budget   int64
	seqParam int
}

func closeWaitHelper(fn *ssa.Function) *closeWait {
	if fn == nil || fn.Blocks == nil || relPkg(fn) != protoPkg || fn.Signature.Results().Len() != 1 {
		return nil
	}
	if bt, ok := fn.Signature.Results().At(0).Type().Underlying().(*types.Basic); !ok || bt.Kind() != types.Bool {
		return nil
	}
	w := &closeWait{fn: fn, seqParam: -1}
	var budgetIf *ssa.If
	var sentCmp *ssa.BinOp
	instrs(fn, func(b *ssa.BasicBlock, _ int, in ssa.Instruction) {
		switch x := in.(type) {
		case *ssa.If:
			if bo, ok := x.Cond.(*ssa.BinOp); ok && bo.Op == token.LSS && reachesSelf(b) {
				if k, ok := constInt(bo.Y); ok {
					if _, isPhi := bo.X.(*ssa.Phi); isPhi {
						budgetIf, w.budget = x, k
					}
				}
			}
		case *ssa.BinOp:
			if cl, ok := x.X.(*ssa.Call); ok && calleeName(cl) == "Load" && (x.Op == token.GEQ || x.Op == token.GTR) {
				if f := fieldOrigin(cl.Call.Args[0]); f != nil && f.Name() == "lastSend" {
					for i, prm := range fn.Params {
						if ssa.Value(prm) == x.Y {
							w.seqParam = i
							sentCmp = x
						}
					}
				}
			}
		}
	})
	if budgetIf == nil || sentCmp == nil {
		return nil
	}
	ok := true
	instrs(fn, func(b *ssa.BasicBlock, _ int, in ssa.Instruction) {
		r, isRet := in.(*ssa.Return)
		if !isRet {
			return
		}
		k, isK := retVal(r, 0).(*ssa.Const)
		if !isK || k.Value == nil {
			ok = false
			return
		}
		if k.Value.String() == "true" {
			on := false
			for _, ce := range controllingEdges(b) {
				if ce.If.Cond == ssa.Value(sentCmp) && ce.Idx == 0 {
					on = true
				}
			}
			if !on {
				ok = false
			}
		} else {
			// false: only through the exhausted budget
			reach := blockReach(fn.Blocks[0], func(from *ssa.BasicBlock, i int) bool { return from == budgetIf.Block() && i == 1 })
			if reach[b] {
				ok = false
			}
		}
	})
	if !ok {
		return nil
	}
	return w
}


// r03_8: the F15 repair (a close request made for an unknown session carries
// unAckSeq + 1 of the datagram that provoked it) is only as good as the
// unAckSeq of every datagram a live session sends: a retransmitted data
// segment must say what has been received by now, not what had been received
// when it was first sent. Otherwise the reply to a retransmission is judged
// against a later nextRecv at the peer and passes for a clean close.
// Decided: in the retransmission visitor of runOutputOncePacket, output(iter)
// of a data/ack segment is preceded by `das.unAckSeq = s.nextRecv.Load()`.
func r03_8(c *RC) {
	p := c.P
	fn := p.Fn(protoPkg, "Session.runOutputOncePacket")
	sb := p.Field(protoPkg, "Session", "sendBuf")
	ua := p.Field(protoPkg, "dataAckStruct", "unAckSeq")
	nr := p.Field(protoPkg, "Session", "nextRecv")
	if fn == nil || sb == nil || ua == nil || nr == nil {
		c.Anchor("Session.runOutputOncePacket / sendBuf / dataAckStruct.unAckSeq / Session.nextRecv")
		return
	}
	var clo *ssa.Function
	instrs(fn, func(_ *ssa.BasicBlock, _ int, in ssa.Instruction) {
		cl, ok := in.(*ssa.Call)
		if !ok || calleeName(cl) != "Ascend" || !sameField(fieldOrigin(cl.Call.Args[0]), sb) {
			return
		}
		cf, _ := closureOf(cl.Call.Args[1])
		if cf == nil {
			return
		}
		for _, vf := range withHelpers(p, cf, 1) {
			instrs(vf, func(_ *ssa.BasicBlock, _ int, x ssa.Instruction) {
				if xc, ok := x.(*ssa.Call); ok && calleeName(xc) == "output" {
					clo = vf
				}
			})
		}
	})
	if clo == nil {
		c.Undecided("retransmission-carries-current-ack", fn.Pos(), "cannot find the retransmission visitor of runOutputOncePacket")
		return
	}
	instrs(clo, func(_ *ssa.BasicBlock, _ int, in ssa.Instruction) {
		oc, ok := in.(*ssa.Call)
		if !ok || calleeName(oc) != "output" {
			return
		}
		// a store das.unAckSeq = nextRecv.Load() from which output is reached,
		// on the data/ack branch, and no way around that branch for a data/ack segment
		isRefreshStore := func(x ssa.Instruction) bool {
			st, ok := x.(*ssa.Store)
			if !ok {
				return false
			}
			if f, _ := fieldOfAddr(st.Addr); !sameField(f, ua) {
				return false
			}
			for _, l := range Leaves(st.Val, nil) {
				if cl, ok := l.(*ssa.Call); ok && calleeName(cl) == "Load" && sameField(fieldOrigin(cl.Call.Args[0]), nr) {
					return true
				}
			}
			return false
		}
		atomF := func(cond ssa.Value) (string, int, bool) {
			v, neg := condAtom(cond)
			if cl, ok := v.(*ssa.Call); ok && calleeName(cl) == "isDataAckProtocol" {
				ti := 0
				if neg {
					ti = 1
				}
				return "data-ack", ti, true
			}
			return "", 0, false
		}
		var refresh ssa.Instruction
		inHelper := false
		instrs(clo, func(_ *ssa.BasicBlock, _ int, x ssa.Instruction) {
			if isRefreshStore(x) {
				refresh = x
				return
			}
			// a bookkeeping helper that refreshes the ack of every data/ack
			// segment it is given (prepareTransmission(seg))
			if cl, ok := x.(*ssa.Call); ok && refresh == nil {
				sc := cl.Common().StaticCallee()
				if sc == nil || sc.Blocks == nil || pkgOfFn(sc) != pkgOfFn(clo) || sc.Object() == nil || sc.Object().Exported() || anchorNames[sc.Name()] {
					return
				}
				has := false
				instrs(sc, func(_ *ssa.BasicBlock, _ int, y ssa.Instruction) {
					if isRefreshStore(y) {
						has = true
					}
				})
				if !has {
					return
				}
				exH := &Explorer{Fn: sc, Atom: atomF, Assume: map[string]bool{"data-ack": true}, Avoid: isRefreshStore}
				if exH.Reach(nil, isReturn) == nil && !exH.Over {
					refresh, inHelper = x, true
				}
			}
		})
		key := "retransmission-carries-current-ack"
		if refresh == nil {
			c.Bad(key, in.Pos(), "a retransmitted data segment goes out with the unAckSeq it had when first sent: the peer (or a datagram underlay answering for a swept session with unAckSeq+1) is told less than what was received, and a close request derived from it can pass the receiver's gap test after a strict prefix")
			return
		}
		// the refresh is guarded by "is a data/ack segment" only, and reaches the output
		guarded := inHelper // a helper was already shown to refresh every data/ack segment
		for _, e := range controllingEdges(refresh.Block()) {
			atom, neg := condAtom(e.If.Cond)
			if cl, ok := atom.(*ssa.Call); ok && calleeName(cl) == "isDataAckProtocol" && (e.Idx == 0) != neg {
				guarded = true
			}
		}
		reaches := reachableAvoiding(clo, refresh, func(x ssa.Instruction) bool { return x == in }, nil) != nil
		// for a data/ack segment the output cannot be reached around the refresh
		ex := &Explorer{Fn: clo, Atom: atomF, Assume: map[string]bool{"data-ack": true}, Avoid: func(x ssa.Instruction) bool { return x == refresh }}
		around := ex.Reach(nil, func(x ssa.Instruction) bool { return x == in })
		switch {
		case ex.Over:
			c.Undecided(key, in.Pos(), "exploration budget exceeded")
		case guarded && reaches && around == nil:
			c.OKH(key, refresh.Pos(), "das.unAckSeq = nextRecv.Load() on every path on which a data/ack segment is retransmitted%s", map[bool]string{true: " (in a bookkeeping helper called before output)", false: ""}[inHelper])
		default:
			c.Bad(key, in.Pos(), "a data/ack segment can be retransmitted without refreshing its unAckSeq from nextRecv (refresh on the data/ack branch=%v, reaches output=%v, output reachable around it=%v)", guarded, reaches, around != nil)
		}
	})
}
