package main

// Path-sensitive reachability inside one function (analysis A3 of the
// design): the CFG is explored with a set of boolean facts about SSA values
// that were already branched on along the path, so that correlated branches
// (the same local flag tested several times) do not produce infeasible
// paths. Facts about a value are dropped when its defining block is
// re-entered (loops). Exceeding the state budget is reported as undecided,
// never as a pass.

import (
	"fmt"
	"go/constant"
	"go/token"
	"go/types"
	"sort"
	"strings"

	"golang.org/x/tools/go/ssa"
)

type Explorer struct {
	Fn *ssa.Function
	// Atom maps a branch condition to a named external atom (e.g. "creds
	// configured"); trueIdx is the successor index on which the atom is true.
	Atom func(cond ssa.Value) (name string, trueIdx int, ok bool)
	// Assume gives fixed truth values for external atoms.
	Assume map[string]bool
	// Cut removes CFG edges.
	Cut func(from *ssa.BasicBlock, idx int) bool
	// Avoid stops a path at an instruction.
	Avoid  func(in ssa.Instruction) bool
	Budget int
	States int
	Over   bool

	startIdx int
}

type exState struct {
	b     *ssa.BasicBlock
	facts map[string]bool // value name -> truth
}

func factsKey(b *ssa.BasicBlock, f map[string]bool) string {
	ks := make([]string, 0, len(f))
	for k, v := range f {
		if v {
			ks = append(ks, k+"=1")
		} else {
			ks = append(ks, k+"=0")
		}
	}
	sort.Strings(ks)
	return fmt.Sprintf("%d|%s", b.Index, strings.Join(ks, ","))
}

// condAtom normalises a condition to (value, negated).
func condAtom(v ssa.Value) (ssa.Value, bool) {
	neg := false
	for {
		u, ok := v.(*ssa.UnOp)
		if !ok || u.Op != token.NOT {
			return v, neg
		}
		v = u.X
		neg = !neg
	}
}

// Reach explores from the first instruction of start (or from function entry
// when start is nil) and returns the first target instruction found.
// ReachFrom explores from the instruction following `from`.
func (e *Explorer) ReachFrom(from ssa.Instruction, target func(ssa.Instruction) bool, avoid func(ssa.Instruction) bool) ssa.Instruction {
	e.Avoid = avoid
	e.startIdx = instrIndex(from) + 1
	defer func() { e.startIdx = 0 }()
	return e.Reach(from.Block(), target)
}

func (e *Explorer) Reach(start *ssa.BasicBlock, target func(ssa.Instruction) bool) ssa.Instruction {
	if e.Budget == 0 {
		e.Budget = 200000
	}
	if start == nil {
		start = e.Fn.Blocks[0]
	}
	defBlock := map[string]*ssa.BasicBlock{}
	isPhiName := map[string]bool{}
	for _, b := range e.Fn.Blocks {
		for _, in := range b.Instrs {
			if v, ok := in.(ssa.Value); ok {
				defBlock[v.Name()] = b
				if _, isPhi := in.(*ssa.Phi); isPhi {
					isPhiName[v.Name()] = true
				}
			}
		}
	}
	// a field of a struct value is named after the struct value (go/ssa does
	// no CSE: every `offered.noAuth` is its own instruction); its facts live
	// as long as the struct value's
	for _, b := range e.Fn.Blocks {
		for _, in := range b.Instrs {
			if fl, ok := in.(*ssa.Field); ok {
				if db, ok := defBlock[fl.X.Name()]; ok {
					defBlock[factName(fl)] = db
				}
			}
			if st, ok := in.(*ssa.Store); ok {
				if al, ok := st.Addr.(*ssa.Alloc); ok && writeOnceLocal(al) {
					if stt, ok := al.Type().(*types.Pointer).Elem().Underlying().(*types.Struct); ok {
						for i := 0; i < stt.NumFields(); i++ {
							defBlock[al.Name()+fmt.Sprintf(".f%d", i)] = b
						}
					}
				}
			}
		}
	}
	seen := map[string]bool{}
	work := []exState{{start, map[string]bool{}}}
	for len(work) > 0 {
		st := work[len(work)-1]
		work = work[:len(work)-1]
		// drop facts about values (re)defined in blocks dominated by st.b
		facts := map[string]bool{}
		for k, v := range st.facts {
			if db, ok := defBlock[k]; ok && st.b.Dominates(db) {
				// keep the phis of this very block: they were just resolved
				// along the incoming edge
				if !(db == st.b && isPhiName[k]) {
					continue
				}
			}
			facts[k] = v
		}
		key := factsKey(st.b, facts)
		if seen[key] {
			continue
		}
		seen[key] = true
		e.States++
		if e.States > e.Budget {
			e.Over = true
			return nil
		}
		blocked := false
		first := e.States == 1
		for j, in := range st.b.Instrs {
			if first && j < e.startIdx {
				continue
			}
			if e.Avoid != nil && e.Avoid(in) {
				blocked = true
				break
			}
			if target(in) {
				return in
			}
		}
		if blocked {
			continue
		}
		last := st.b.Instrs[len(st.b.Instrs)-1]
		iff, isIf := last.(*ssa.If)
		for i, s := range st.b.Succs {
			if e.Cut != nil && e.Cut(st.b, i) {
				continue
			}
			nf := facts
			if isIf {
				if e.Atom != nil {
					if name, ti, ok := e.Atom(iff.Cond); ok {
						if tv, has := e.Assume[name]; has {
							if (i == ti) != tv {
								continue
							}
						}
						work = append(work, exState{s, e.phiFacts(st.b, s, nf)})
						continue
					}
				}
				v, neg := condAtom(iff.Cond)
				if c, ok := v.(*ssa.Const); ok && c.Value != nil {
					truth := c.Value.String() == "true"
					if neg {
						truth = !truth
					}
					if (i == 0) != truth {
						continue
					}
				} else {
					truth := i == 0
					if neg {
						truth = !truth
					}
					name := factName(v)
					if old, has := facts[name]; has {
						if old != truth {
							continue // infeasible
						}
					} else {
						nf = map[string]bool{}
						for k, x := range facts {
							nf[k] = x
						}
						nf[name] = truth
					}
				}
			}
			work = append(work, exState{s, e.phiFacts(st.b, s, nf)})
		}
	}
	return nil
}

// phiFacts resolves boolean phis of succ along the edge pred->succ: a constant
// incoming value fixes the phi, an incoming value with a known fact is copied,
// anything else clears a stale fact.
func (e *Explorer) phiFacts(pred, succ *ssa.BasicBlock, facts map[string]bool) map[string]bool {
	idx := -1
	for i, p := range succ.Preds {
		if p == pred {
			idx = i
		}
	}
	if idx < 0 {
		return facts
	}
	var out map[string]bool
	set := func(k string, v bool, del bool) {
		if out == nil {
			out = map[string]bool{}
			for a, b := range facts {
				out[a] = b
			}
		}
		if del {
			delete(out, k)
		} else {
			out[k] = v
		}
	}
	for _, in := range succ.Instrs {
		phi, ok := in.(*ssa.Phi)
		if !ok {
			break
		}
		ed := phi.Edges[idx]
		ev, neg := condAtom(ed)
		if c, ok := ev.(*ssa.Const); ok {
			if c.Value != nil && c.Value.Kind() == constant.Bool {
				set(phi.Name(), constant.BoolVal(c.Value) != neg, false)
			}
			continue
		}
		// an incoming value that is an assumed external atom (x := a && atom)
		if e.Atom != nil {
			if name, ti, ok := e.Atom(ev); ok {
				if tv, has := e.Assume[name]; has {
					val := tv
					if ti != 0 {
						val = !tv
					}
					set(phi.Name(), val != neg, false)
					continue
				}
			}
		}
		if v, has := facts[factName(ev)]; has {
			set(phi.Name(), v != neg, false)
		} else if _, had := facts[phi.Name()]; had {
			set(phi.Name(), false, true)
		}
	}
	if out == nil {
		return facts
	}
	return out
}

// factName: the name under which a fact about a boolean value is kept. Pure
// projections of one SSA value (x.f of a struct value x) share a name however
// often the source spells them.
func factName(v ssa.Value) string {
	if fl, ok := v.(*ssa.Field); ok {
		return factName(fl.X) + fmt.Sprintf(".f%d", fl.Field)
	}
	// a field read of a local struct variable that is assigned exactly once,
	// as a whole, and whose address goes nowhere else (`offered := scan(..)`
	// followed by reads of offered.noAuth)
	if ld, ok := v.(*ssa.UnOp); ok && ld.Op == token.MUL {
		if fa, ok := ld.X.(*ssa.FieldAddr); ok {
			if al, ok := fa.X.(*ssa.Alloc); ok && writeOnceLocal(al) {
				return al.Name() + fmt.Sprintf(".f%d", fa.Field)
			}
		}
	}
	return v.Name()
}

func writeOnceLocal(al *ssa.Alloc) bool {
	if al.Heap || al.Referrers() == nil {
		return false
	}
	stores := 0
	for _, r := range *al.Referrers() {
		switch x := r.(type) {
		case *ssa.Store:
			if x.Addr != ssa.Value(al) {
				return false // the address itself is stored somewhere
			}
			stores++
		case *ssa.FieldAddr:
			for _, u := range *x.Referrers() {
				if ld, ok := u.(*ssa.UnOp); !ok || ld.Op != token.MUL {
					return false
				}
			}
		case *ssa.UnOp:
			if x.Op != token.MUL {
				return false
			}
		case *ssa.DebugRef:
		default:
			return false
		}
	}
	return stores == 1
}
