package main

import (
	"fmt"
	"go/constant"
	"go/token"
	"go/types"
	"strings"

	"golang.org/x/tools/go/ssa"
)

func init() { register("C14", propC14) }

func propC14() *Property {
	return &Property{
		ID:         "C14",
		Decides:    "the four independently computed quantities of a datagram are wired to the budget of their own segment and the budget arithmetic is folded on the whole supported MTU range: R14.1 packetOverhead == nonce 24 + metadata 32 + two tags of 16 == 88 and equals the constant terms of the assembled buffer; R14.2 fragment sizes: maxFragmentSize folded for every MTU 1280..1500 x transport x low-entropy mode satisfies size + 88 <= MTU (UDP), ceil(size/C)*8 + 88 <= MTU (UDP low entropy), size <= 32768 and encoded length <= 65535 (TCP); R14.3 padding budget: maxPaddingSize folded over MTU x payload x existing padding returns a value in [0,255] that never exceeds MTU - payload - 88 - existing (UDP); R14.4 wiring at both UDP write sites: every padding cap is computed from u.mtu, the transport, the payloadLen field of the very metadata that is marshalled, and the length of the padding already placed (0 for the first, len(padding1) for the second); the low-entropy path refuses a datagram longer than the MTU before writing; R14.5 the narrow length fields: the piggyback test bounds len(b) by 1024 before uint16(len(b)), the fragment loop's fragment count is bounded by 256 for every supported MTU (folded), windowSize is derived from the constant tree capacity 4096.; R14.6 the configured MTU reaches the underlay unchanged for every value 1280..1500",
		NotDecided: "the final inequality len(datagram) <= MTU as arithmetic over all four configuration axes jointly (the rule decides the wiring and each budget function on the MTU range, not the sum for every combination); MTU outside the validators' range [1280,1500].",
		Rules: []Rule{
			{ID: "R14.1", Floor: 2, Text: "packetOverhead constant and the assembled buffer's constant terms", Run: r14_1},
			{ID: "R14.2", Floor: 4, Text: "maxFragmentSize on MTU 1280..1500 x transport x mode", Run: r14_2},
			{ID: "R14.3", Floor: 2, Text: "maxPaddingSize on a boundary grid", Run: r14_3},
			{ID: "R14.4", Floor: 6, Text: "budget wiring at the UDP write sites", Run: r14_4},
			{ID: "R14.6", Floor: 2, Text: "the configured MTU reaches the underlay unchanged for every value 1280..1500", Run: r14_6},
			{ID: "R14.5", Floor: 3, Text: "narrow length fields", Run: r14_5},
		},
	}
}

func constOf(p *Prog, rel, name string) (int64, bool) {
	o := p.Const(rel, name)
	if o == nil {
		return 0, false
	}
	k, ok := o.(*types.Const)
	if !ok {
		return 0, false
	}
	return constant.Int64Val(k.Val())
}

func r14_1(c *RC) {
	p := c.P
	po, ok := constOf(p, protoPkg, "packetOverhead")
	if !ok {
		c.Anchor("packetOverhead")
		return
	}
	ns, _ := constOf(p, "pkg/cipher", "DefaultNonceSize")
	ov, _ := constOf(p, "pkg/cipher", "DefaultOverhead")
	ml, _ := constOf(p, protoPkg, "MetadataLength")
	if po == ns+ml+2*ov && po == 88 {
		c.OKH("packet-overhead", p.Const(protoPkg, "packetOverhead").Pos(), "packetOverhead = %d = nonce %d + metadata %d + 2 x tag %d", po, ns, ml, ov)
	} else {
		c.Bad("packet-overhead", p.Const(protoPkg, "packetOverhead").Pos(), "packetOverhead is %d but a datagram carries nonce %d + metadata %d + 2 tags of %d = %d bytes besides payload and padding", po, ns, ml, ov, ns+ml+2*ov)
	}
	so, ok := constOf(p, protoPkg, "streamOverhead")
	if ok && so == ml+2*ov {
		c.OK("stream-overhead", p.Const(protoPkg, "streamOverhead").Pos(), "streamOverhead = metadata + 2 tags")
	} else if ok {
		c.Bad("stream-overhead", p.Const(protoPkg, "streamOverhead").Pos(), "streamOverhead is %d, expected %d", so, ml+2*ov)
	}
}

func r14_2(c *RC) {
	p := c.P
	fn := p.Fn(protoPkg, "maxFragmentSize")
	if fn == nil {
		c.Anchor("maxFragmentSize")
		return
	}
	st, _ := constOf(p, "pkg/common", "StreamTransport")
	pt, _ := constOf(p, "pkg/common", "PacketTransport")
	cs := map[int64]int64{0: 0, 1: 4, 2: 5, 3: 6, 4: 7}
	for _, tr := range []struct {
		name string
		v    int64
	}{{"stream", st}, {"packet", pt}} {
		for mode := int64(0); mode <= 4; mode++ {
			var bad []string
			folds := 0
			for mtu := int64(1280); mtu <= 1500; mtu++ {
				if tr.name == "stream" && mtu != 1280 && mtu != 1400 && mtu != 1500 {
					continue
				}
				f := &Folder{P: p, Assume: assumeLowEntropyParams(cs[mode])}
				outs := f.Eval(fn, []cval{cInt(mtu), cInt(tr.v), cInt(mode)})
				folds++
				if len(outs) != 1 || !outs[0].Returned || !outs[0].Results[0].known {
					bad = append(bad, fmt.Sprintf("mtu %d does not fold", mtu))
					break
				}
				size, _ := constant.Int64Val(outs[0].Results[0].v)
				if !outs[0].Results[1].isNil {
					bad = append(bad, fmt.Sprintf("mtu %d: error", mtu))
					continue
				}
				switch {
				case size <= 0:
					bad = append(bad, fmt.Sprintf("mtu %d: size %d", mtu, size))
				case tr.name == "packet" && mode == 0 && size+88 > mtu:
					bad = append(bad, fmt.Sprintf("mtu %d: fragment %d + 88 > MTU", mtu, size))
				case tr.name == "packet" && mode > 0 && ((size+cs[mode]-1)/cs[mode])*8+88 > mtu:
					bad = append(bad, fmt.Sprintf("mtu %d: encoded fragment %d + 88 > MTU", mtu, ((size+cs[mode]-1)/cs[mode])*8))
				case tr.name == "stream" && size > 32768:
					bad = append(bad, fmt.Sprintf("stream fragment %d > 32768", size))
				case tr.name == "stream" && mode > 0 && ((size+cs[mode]-1)/cs[mode])*8 > 65535:
					bad = append(bad, fmt.Sprintf("stream encoded length %d > 65535", ((size+cs[mode]-1)/cs[mode])*8))
				case tr.name == "packet" && mode == 0 && size+88 < mtu-0 && size != mtu-88:
					bad = append(bad, fmt.Sprintf("mtu %d: fragment %d is not MTU-88", mtu, size))
				}
				if len(bad) > 6 {
					break
				}
			}
			key := fmt.Sprintf("fragment-size:%s:mode%d", tr.name, mode)
			if len(bad) == 0 {
				c.OKH(key, fn.Pos(), "folded for %d MTU values: within the budget", folds)
			} else {
				c.Bad(key, fn.Pos(), "maxFragmentSize(%s, low-entropy mode %d) breaks the datagram/length budget: %s", tr.name, mode, strings.Join(bad, "; "))
			}
		}
	}
}

func r14_3(c *RC) {
	p := c.P
	fn := p.Fn(protoPkg, "maxPaddingSize")
	if fn == nil {
		c.Anchor("maxPaddingSize")
		return
	}
	st, _ := constOf(p, "pkg/common", "StreamTransport")
	pt, _ := constOf(p, "pkg/common", "PacketTransport")
	var bad []string
	n := 0
	for _, mtu := range []int64{1280, 1400, 1500} {
		for _, L := range []int64{0, 1, 500, 900, 1000, mtu - 88 - 300, mtu - 88 - 256, mtu - 88 - 255, mtu - 88 - 1, mtu - 88} {
			for _, E := range []int64{0, 1, 100, 255} {
				f := &Folder{P: p}
				outs := f.Eval(fn, []cval{cInt(mtu), cInt(pt), cInt(L), cInt(E)})
				n++
				if len(outs) != 1 || !outs[0].Results[0].known {
					bad = append(bad, "does not fold")
					continue
				}
				r, _ := constant.Int64Val(outs[0].Results[0].v)
				room := mtu - L - 88 - E
				if room < 0 {
					room = 0
				}
				want := room
				if want > 255 {
					want = 255
				}
				if r != want && len(bad) < 5 {
					bad = append(bad, fmt.Sprintf("mtu=%d payload=%d existing=%d: returns %d, room is %d", mtu, L, E, r, room))
				}
			}
		}
	}
	if len(bad) == 0 {
		c.OKH("padding-budget:packet", fn.Pos(), "clamp(MTU - payload - 88 - existing, 0, 255) on %d grid points", n)
	} else {
		c.Bad("padding-budget:packet", fn.Pos(), "the UDP padding budget exceeds what is left in the datagram: %s", strings.Join(bad, "; "))
	}
	f := &Folder{P: p}
	outs := f.Eval(fn, []cval{cInt(1400), cInt(st), cInt(30000), cInt(0)})
	if len(outs) == 1 && outs[0].Results[0].known {
		if r, _ := constant.Int64Val(outs[0].Results[0].v); r >= 0 && r <= 255 {
			c.OK("padding-budget:stream", fn.Pos(), "stream: %d (fits the one-byte length field)", r)
		} else {
			c.Bad("padding-budget:stream", fn.Pos(), "stream padding budget %d does not fit the one-byte prefix/suffix length", r)
		}
	}
}

func r14_4(c *RC) {
	p := c.P
	fn := p.Fn(protoPkg, "PacketUnderlay.writeOneSegment")
	mp := p.Fn(protoPkg, "maxPaddingSizeWithTrafficPattern")
	if fn == nil || mp == nil {
		c.Anchor("PacketUnderlay.writeOneSegment / maxPaddingSizeWithTrafficPattern")
		return
	}
	var calls []*ssa.Call
	instrs(fn, func(_ *ssa.BasicBlock, _ int, in ssa.Instruction) {
		if cl, ok := in.(*ssa.Call); ok && cl.Common().StaticCallee() == mp {
			calls = append(calls, cl)
		}
	})
	// metadata values that get marshalled in the same branch
	for i, cl := range calls {
		a := cl.Common().Args
		key := fmt.Sprintf("cap-args#%d", i+1)
		var problems []string
		if f := fieldOrigin(a[0]); f == nil || f.Name() != "mtu" {
			problems = append(problems, "MTU argument is "+describe(a[0]))
		}
		if tc, ok := a[1].(*ssa.Call); !ok || calleeName(tc) != "TransportProtocol" {
			problems = append(problems, "transport argument is "+describe(a[1]))
		}
		// payload: int(X.payloadLen) of the metadata obtained from seg.metadata
		plOK := false
		var meta ssa.Value
		for _, l := range Leaves(a[2], nil) {
			if u, ok := l.(*ssa.UnOp); ok {
				if fa, ok := u.X.(*ssa.FieldAddr); ok {
					if fv, base := fieldOfAddr(fa); fv != nil && fv.Name() == "payloadLen" {
						plOK = true
						meta = base
					}
				}
			}
		}
		if !plOK {
			problems = append(problems, "payload argument is "+describe(a[2])+", not the payloadLen field of the segment's metadata")
		} else {
			fromSeg := false
			for _, l := range Leaves(meta, nil) {
				if ex, ok := l.(*ssa.Extract); ok {
					if c2, ok := ex.Tuple.(*ssa.Call); ok && (calleeName(c2) == "toSessionStruct" || calleeName(c2) == "toDataAckStruct") {
						if f := fieldOrigin(c2.Common().Args[0]); f != nil && f.Name() == "metadata" {
							fromSeg = true
						}
					}
				}
			}
			if !fromSeg {
				problems = append(problems, "the payloadLen used is not the one of seg.metadata")
			}
		}
		// existing padding
		pos, _ := constInt(a[5])
		existing := describe(a[3])
		isLenOfPadding := false
		if lc, ok := a[3].(*ssa.Call); ok && calleeNameAny(lc) == "len" {
			if np, ok := lc.Common().Args[0].(*ssa.Call); ok && calleeName(np) == "newPadding" {
				isLenOfPadding = true
			}
		}
		zero := false
		if k, ok := constInt(a[3]); ok && k == 0 {
			zero = true
		}
		// second padding of the data branch (end padding when a middle padding exists in the same branch)
		hasMiddleBefore := false
		for _, other := range calls {
			if other == cl {
				continue
			}
			if op, _ := constInt(other.Common().Args[5]); op == 0 && instrDominates(other, cl) {
				hasMiddleBefore = true
			}
		}
		switch {
		case pos == 1 && hasMiddleBefore && !isLenOfPadding:
			problems = append(problems, "the end-padding budget ignores the middle padding already placed (existing = "+existing+")")
		case !(pos == 1 && hasMiddleBefore) && !zero:
			problems = append(problems, "existing padding argument is "+existing+" where nothing has been placed yet")
		}
		if len(problems) == 0 {
			c.OKH(key, cl.Pos(), "cap(u.mtu, transport, int(metadata.payloadLen), %s, pattern, position %d)", existing, pos)
		} else {
			c.Bad(key, cl.Pos(), "padding budget wiring: %s", strings.Join(problems, "; "))
		}
	}
	if len(calls) < 3 {
		c.Bad("cap-calls", fn.Pos(), "PacketUnderlay.writeOneSegment computes %d padding budgets, expected 3 (session suffix, data prefix, data suffix)", len(calls))
	}
	// buffer = sum of the parts: MakeSlice length is an ADD chain containing len(padding*) and encrypted lengths
	nmake := 0
	instrs(fn, func(_ *ssa.BasicBlock, _ int, in ssa.Instruction) {
		mk, ok := in.(*ssa.MakeSlice)
		if !ok {
			return
		}
		terms := 0
		var walk func(v ssa.Value)
		walk = func(v ssa.Value) {
			if bo, ok := v.(*ssa.BinOp); ok && bo.Op == token.ADD {
				walk(bo.X)
				walk(bo.Y)
				return
			}
			terms++
		}
		walk(mk.Len)
		if terms >= 3 {
			nmake++
			c.OK("buffer-sum", mk.Pos(), "datagram buffer is the sum of %d parts (metadata+nonce+tag, payload+tag, padding...)", terms)
		}
	})
	if nmake < 2 {
		c.Bad("buffer-sum", fn.Pos(), "the datagram buffers are not sized as the sum of their parts")
	}
	// low entropy MTU guard before WriteTo
	guard := false
	instrs(fn, func(_ *ssa.BasicBlock, _ int, in ssa.Instruction) {
		if bo, ok := in.(*ssa.BinOp); ok && bo.Op == token.GTR {
			if f := fieldOrigin(bo.Y); f != nil && f.Name() == "mtu" {
				if lc, ok := bo.X.(*ssa.Call); ok && calleeNameAny(lc) == "len" {
					guard = true
				}
			}
		}
	})
	if guard {
		c.OK("low-entropy-mtu-guard", fn.Pos(), "len(dataToSend) > u.mtu is refused on the low-entropy path")
	} else {
		c.Bad("low-entropy-mtu-guard", fn.Pos(), "the low-entropy datagram length is no longer compared with the MTU before sending")
	}
}

func r14_5(c *RC) {
	p := c.P
	// piggyback
	wr := p.Fn(protoPkg, "Session.Write")
	if wr == nil {
		c.Anchor("Session.Write")
		return
	}
	instrs(wr, func(_ *ssa.BasicBlock, _ int, in ssa.Instruction) {
		st, ok := in.(*ssa.Store)
		if !ok {
			return
		}
		f, _ := fieldOfAddr(st.Addr)
		if f == nil || f.Name() != "payloadLen" {
			return
		}
		cv, ok := st.Val.(*ssa.Convert)
		if !ok {
			return
		}
		// path-sensitive: with "len(b) <= K (K <= 65535)" assumed false the
		// store must be unreachable, also when the test is kept in a boolean
		// local (piggyback := !lowEntropy && len(b) <= Max)
		sameLen := func(v ssa.Value) bool { return describe(v) == describe(cv.X) }
		fits := func(v ssa.Value) bool { k, ok := constInt(v); return ok && k <= 65535 }
		fits1 := func(v ssa.Value) bool { k, ok := constInt(v); return ok && k <= 65536 }
		atom := func(cond ssa.Value) (string, int, bool) {
			v, neg := condAtom(cond)
			ti := 0
			if neg {
				ti = 1
			}
			switch {
			case cmpForm(v, token.LEQ, sameLen, fits), cmpForm(v, token.LSS, sameLen, fits1):
				return "bounded", ti, true
			case cmpForm(v, token.GTR, sameLen, fits), cmpForm(v, token.GEQ, sameLen, fits1):
				return "bounded", 1 - ti, true
			}
			return "", 0, false
		}
		ex := &Explorer{Fn: wr, Atom: atom, Assume: map[string]bool{"bounded": false}}
		hit := ex.Reach(nil, func(x ssa.Instruction) bool { return x == in })
		good := hit == nil && !ex.Over
		if good {
			c.OKH("piggyback-length", st.Pos(), "uint16(len(b)) only under len(b) <= MaxSessionOpenPayload")
		} else {
			c.Bad("piggyback-length", st.Pos(), "the piggybacked payload length is narrowed to 16 bits without a dominating bound on len(b)")
		}
	})
	// fragment count <= 256: nFragment = (len(b)-1)/fragmentSize + 1 with len(b) <= maxPDU
	mf := p.Fn(protoPkg, "maxFragmentSize")
	pdu, _ := constOf(p, protoPkg, "maxPDU")
	pt, _ := constOf(p, "pkg/common", "PacketTransport")
	if mf != nil && pdu > 0 {
		worst := int64(0)
		cs := map[int64]int64{0: 0, 1: 4, 2: 5, 3: 6, 4: 7}
		for mode := int64(0); mode <= 4; mode++ {
			f := &Folder{P: p, Assume: assumeLowEntropyParams(cs[mode])}
			outs := f.Eval(mf, []cval{cInt(1280), cInt(pt), cInt(mode)})
			if len(outs) == 1 && outs[0].Results[0].known {
				size, _ := constant.Int64Val(outs[0].Results[0].v)
				if size > 0 {
					n := (pdu-1)/size + 1
					if n > worst {
						worst = n
					}
				}
			}
		}
		if worst > 0 && worst <= 256 {
			c.OKH("fragment-index", mf.Pos(), "at most %d fragments per %d-byte chunk at the smallest supported MTU: the index fits uint8", worst, pdu)
		} else {
			c.Bad("fragment-index", mf.Pos(), "a %d-byte chunk can need %d fragments: the fragment index no longer fits its one-byte field", pdu, worst)
		}
	}
	// windowSize from segmentTreeCapacity
	cap, ok := constOf(p, protoPkg, "segmentTreeCapacity")
	if ok && cap <= 65535 {
		c.OK("window-size", p.Const(protoPkg, "segmentTreeCapacity").Pos(), "receive window <= segmentTreeCapacity = %d fits uint16", cap)
	} else {
		c.Bad("window-size", 0, "segmentTreeCapacity %d does not fit the 16-bit window field", cap)
	}
	// writeChunk refuses len(b) > maxPDU
	wc := p.Fn(protoPkg, "Session.writeChunk")
	if wc != nil {
		found := false
		instrs(wc, func(_ *ssa.BasicBlock, _ int, in ssa.Instruction) {
			if bo, ok := in.(*ssa.BinOp); ok && bo.Op == token.GTR {
				if k, ok := constInt(bo.Y); ok && k == pdu {
					found = true
				}
			}
		})
		if found {
			c.OK("chunk-bound", wc.Pos(), "writeChunk refuses more than maxPDU bytes")
		} else {
			c.Bad("chunk-bound", wc.Pos(), "writeChunk no longer bounds its input by maxPDU")
		}
	}
}

// assumeLowEntropyParams fixes the result of buildLowEntropyParams: nil error
// and sourceBytesPerChunk == C (however the struct is accessed).
func assumeLowEntropyParams(C int64) func(v ssa.Value) (cval, bool) {
	return func(v ssa.Value) (cval, bool) {
		switch x := v.(type) {
		case *ssa.Field:
			if fo := fieldOrigin(x); fo != nil && fo.Name() == "sourceBytesPerChunk" {
				return cInt(C), true
			}
		case *ssa.UnOp:
			if x.Op == token.MUL {
				if fo := fieldOrigin(x); fo != nil && fo.Name() == "sourceBytesPerChunk" {
					return cInt(C), true
				}
			}
		case *ssa.Extract:
			if call, ok := x.Tuple.(*ssa.Call); ok && calleeName(call) == "buildLowEntropyParams" && x.Index == 1 {
				return cval{isNil: true}, true
			}
		}
		return cval{}, false
	}
}

// r14_6: the MTU that bounds datagrams is the configured one. The value the
// endpoint descriptor carries (underlayDescriptor.mtu, the source of every
// underlay's mtu) is, for every supported setting 1280..1500, the argument
// given to NewUnderlayProperties - no clamping, defaulting or off-by-one on
// the way (seed C14d turned exactly 1280 into 1400).
func r14_6(c *RC) {
	p := c.P
	fn := p.Fn(protoPkg, "NewUnderlayProperties")
	mf := p.Field(protoPkg, "underlayDescriptor", "mtu")
	if fn == nil || mf == nil {
		c.Anchor("NewUnderlayProperties / underlayDescriptor.mtu")
		return
	}
	var wrong []string
	checked := 0
	for mtu := int64(1280); mtu <= 1500; mtu++ {
		var stored []cval
		f := &Folder{P: p, OnStore: func(st *ssa.Store, v cval) {
			if g, _ := fieldOfAddr(st.Addr); sameField(g, mf) {
				stored = append(stored, v)
			}
		}}
		outs := f.Eval(fn, []cval{cInt(mtu), {}, {}, {}})
		if f.Over || len(outs) == 0 {
			c.Undecided("mtu-carried-unchanged", fn.Pos(), "constant propagation did not finish for mtu %d", mtu)
			return
		}
		if len(stored) == 0 {
			c.Undecided("mtu-carried-unchanged", fn.Pos(), "no store to underlayDescriptor.mtu observed for mtu %d", mtu)
			return
		}
		checked++
		for _, v := range stored {
			if !v.known {
				wrong = append(wrong, fmtInt(int(mtu))+"->unknown")
				continue
			}
			if got, _ := constant.Int64Val(v.v); got != mtu {
				wrong = append(wrong, fmtInt(int(mtu))+"->"+fmtInt(int(got)))
			}
		}
	}
	if len(wrong) == 0 {
		c.OKH("mtu-carried-unchanged", fn.Pos(), "for each of the %d supported MTU values the descriptor stores the configured value", checked)
	} else {
		if len(wrong) > 6 {
			wrong = append(wrong[:6], "...")
		}
		c.Bad("mtu-carried-unchanged", fn.Pos(), "NewUnderlayProperties does not carry the configured MTU unchanged (%s): fragment sizes and padding budgets are then computed for another MTU than the one the operator set, and datagrams exceed it", strings.Join(wrong, ", "))
	}
	// every underlay's mtu field is fed from the descriptor's MTU() (or a parameter that is)
	n := 0
	bm := p.Field(protoPkg, "baseUnderlay", "mtu")
	for _, s := range p.FieldStores(bm) {
		n++
		key := "underlay-mtu-source@" + fnName(s.Fn)
		good := false
		for _, l := range Leaves(s.Val, nil) {
			switch x := l.(type) {
			case *ssa.Parameter:
				if x.Name() == "mtu" {
					good = true
				}
			case *ssa.Call:
				if calleeName(x) == "MTU" {
					good = true
				}
			}
		}
		if good {
			c.OK(key, s.Pos(), "baseUnderlay.mtu = the mtu handed to the constructor")
		} else {
			c.Bad(key, s.Pos(), "baseUnderlay.mtu is set from %s", describe(s.Val))
		}
	}
	if n == 0 {
		c.Undecided("underlay-mtu-source", token.NoPos, "no store to baseUnderlay.mtu found")
	}
}
