package main

import (
	"fmt"
	"go/constant"
	"go/token"
	"go/types"
	"strings"

	"golang.org/x/tools/go/ssa"
)

func init() { register("C04", propC04) }

func propC04() *Property {
	return &Property{
		ID:         "C04",
		NeedCG:     false,
		Decides:    "R04.1 the payload of every segment built by a read path is nil or the result of an AEAD open whose error was tested nil; R04.2 every slice bound and read size that drives parsing derives from the unmarshalled (authenticated) metadata, and on the datagram parser each such bound is dominated by a comparison with the remaining length; R04.3 low-entropy decode validates the metadata before touching the encoded body (shared with C17); R04.4 a stream read/decrypt/protocol error ends the event loop (no path back to the next read); R04.5 a datagram that fails decrypt/unmarshal/parse produces no segment (every failure edge reaches the next ReadFrom without a return of a segment); R04.6 segments of a session's own sending direction are refused by the direction whitelist (a reflected datagram authenticates under the same key; folded over all protocol numbers); R04.7 no two AEAD seals share one (key, nonce) pair without associated data separating them; R04.8 on the datagram transport a segment type this end never receives legitimately is dropped with a nil return (never an error, which would close the session) - folded for all 16 protocol numbers on both roles.; R04.9 what makes a discarded datagram equivalent to a lost one on UDP: data is withheld until the open response while the open request stays retransmittable, and the retransmission scan repairs every loss (R02.7, R02.6)",
		NotDecided: "AEAD strength; what the application read (run-time); padding content (unauthenticated by design); timing.",
		Rules: []Rule{
			{ID: "R04.1", Floor: 4, Text: "segment.payload provenance on the read paths", Run: r04_1},
			{ID: "R04.2", Floor: 6, Text: "parsing lengths come from authenticated metadata and are bounds-checked on the datagram parser", Run: r04_2},
			{ID: "R04.4", Floor: 1, Text: "StreamUnderlay.RunEventLoop: the err != nil edge of readOneSegment never reaches another readOneSegment", Run: r04_4},
			{ID: "R04.5", Floor: 4, Text: "PacketUnderlay.readOneSegment: failure edges of Decrypt / Unmarshal / parse* reach the next ReadFrom without returning a segment", Run: r04_5},
			{ID: "R04.6", Floor: 32, Text: "direction whitelist of Session.input (shared with R05.6)", Run: func(c *RC) { r05_6(c) }},
			{ID: "R04.8", Floor: 8, Text: "an inserted datagram of the wrong direction is dropped, not fatal: on the packet transport Session.input returns nil for every protocol its peer never sends (folded for 16 protocols x {client, server})", Run: r04_8},
			{ID: "R04.9", Floor: 10, Text: "a discarded datagram is recovered like a lost one: deferral during open, the retransmission scan, and a cumulative ack releases only what lies strictly below it (shared with R02.7, R02.6, R13.3)", Run: func(c *RC) { r02_7(c); r02_6(c); r13_3(c) }},
			{ID: "R04.7", Floor: 2, Text: "AEAD nonce discipline on the packet writer", Run: r04_7},
		},
	}
}

func r04_1(c *RC) {
	p := c.P
	pl := p.Field(protoPkg, "segment", "payload")
	if pl == nil {
		c.Anchor("segment.payload")
		return
	}
	for _, fname := range []string{"StreamUnderlay.readSessionSegment", "StreamUnderlay.readDataAckSegment", "PacketUnderlay.parseSessionSegment", "PacketUnderlay.parseDataAckSegment"} {
		fn := p.Fn(protoPkg, fname)
		if fn == nil {
			c.Anchor(fname)
			continue
		}
		n := 0
		for _, s := range p.FieldStores(pl) {
			if s.Fn != fn {
				continue
			}
			n++
			key := "payload-source@" + fname
			bad := ""
			for _, l := range Leaves(s.Val, nil) {
				if isNilConst(l) {
					continue
				}
				ex, ok := l.(*ssa.Extract)
				if !ok {
					bad = describe(l)
					continue
				}
				call, ok := ex.Tuple.(*ssa.Call)
				if !ok || ex.Index != 0 {
					bad = describe(l)
					continue
				}
				what := ""
				if call.Common().IsInvoke() && (call.Common().Method.Name() == "Decrypt" || call.Common().Method.Name() == "DecryptWithNonce") {
					what = call.Common().Method.Name()
				} else if sc := call.Common().StaticCallee(); sc != nil && isDecryptWrapper(sc, 0) {
					// a local helper that returns nothing but the plaintext of a successful open
					what = sc.Name()
				} else {
					bad = describe(l)
					continue
				}
				// the error of that call must have been tested: the store block is not reachable from its error edge
				es := errSuccessorOfTuple(call, call.Type().(*types.Tuple).Len()-1)
				if es == nil {
					bad = "result of " + what + " whose error is not tested"
					continue
				}
				if reachableAvoiding(fn, es.Instrs[0], func(x ssa.Instruction) bool { return x == s.Instr }, nil) != nil {
					bad = "result of " + what + " also on its error path"
				}
			}
			if bad == "" {
				c.OKH(key, s.Pos(), "payload = nil or plaintext of a successful Decrypt/DecryptWithNonce")
			} else {
				c.Bad(key, s.Pos(), "the payload handed to the application is %s: unauthenticated bytes can reach Read", bad)
			}
		}
		if n == 0 {
			c.Bad("payload-source@"+fname, fn.Pos(), "%s builds no segment payload", fname)
		}
	}
}

func fromMetadataParam(v ssa.Value, fn *ssa.Function) bool {
	ok := false
	for _, l := range Leaves(v, nil) {
		switch x := l.(type) {
		case *ssa.UnOp:
			if fa, isFA := x.X.(*ssa.FieldAddr); isFA {
				_, base := fieldOfAddr(fa)
				if prm, isP := base.(*ssa.Parameter); isP && (strings.HasSuffix(prm.Type().String(), "sessionStruct") || strings.HasSuffix(prm.Type().String(), "dataAckStruct")) {
					ok = true
					continue
				}
			}
			return false
		case *ssa.Const:
		case *ssa.BinOp:
			if !fromMetadataParam(x.X, fn) && !isConstV(x.X) {
				return false
			}
			if !fromMetadataParam(x.Y, fn) && !isConstV(x.Y) {
				return false
			}
			ok = true
		default:
			return false
		}
	}
	return ok
}

func isConstV(v ssa.Value) bool { _, ok := constInt(v); return ok }

func r04_2(c *RC) {
	p := c.P
	// stream: every make size feeding ReadFull derives from the metadata parameter
	for _, fname := range []string{"StreamUnderlay.readSessionSegment", "StreamUnderlay.readDataAckSegment"} {
		fn := p.Fn(protoPkg, fname)
		if fn == nil {
			c.Anchor(fname)
			continue
		}
		instrs(fn, func(_ *ssa.BasicBlock, _ int, in ssa.Instruction) {
			mk, ok := in.(*ssa.MakeSlice)
			if !ok {
				return
			}
			key := "read-size@" + fname
			if fromMetadataParam(mk.Len, fn) {
				c.OKH(key, mk.Pos(), "read size %s derives from the authenticated metadata (+ constants)", describe(mk.Len))
			} else {
				c.Bad(key, mk.Pos(), "a read size %s on the stream does not derive from the authenticated metadata", describe(mk.Len))
			}
		})
	}
	// the metadata handed to these functions is the Unmarshal result of the decrypted metadata
	ro := p.Fn(protoPkg, "StreamUnderlay.readOneSegment")
	if ro != nil {
		n := 0
		instrs(ro, func(_ *ssa.BasicBlock, _ int, in ssa.Instruction) {
			call, ok := in.(*ssa.Call)
			if !ok || (calleeName(call) != "readSessionSegment" && calleeName(call) != "readDataAckSegment") {
				return
			}
			n++
			md := call.Common().Args[1]
			// an Unmarshal(decryptedMeta) on md with nil error dominates
			good := false
			instrs(ro, func(_ *ssa.BasicBlock, _ int, x ssa.Instruction) {
				um, ok := x.(*ssa.Call)
				if !ok || calleeName(um) != "Unmarshal" || um.Common().Args[0] != md || !instrDominates(x, in) {
					return
				}
				if es := errSuccessorSingle(um); es != nil && !blockReach(es, nil)[in.Block()] {
					good = true
				}
			})
			if good {
				c.OKH("metadata-authenticated@"+calleeName(call), call.Pos(), "metadata was unmarshalled from the decrypted header with nil error")
			} else {
				c.Bad("metadata-authenticated@"+calleeName(call), call.Pos(), "the metadata that sizes the following reads is not the successfully unmarshalled, decrypted header")
			}
		})
	}
	// packet: slices of `remaining`
	for _, fname := range []string{"PacketUnderlay.parseSessionSegment", "PacketUnderlay.parseDataAckSegment"} {
		fn := p.Fn(protoPkg, fname)
		if fn == nil {
			c.Anchor(fname)
			continue
		}
		var rem *ssa.Parameter
		for _, prm := range fn.Params {
			if prm.Name() == "remaining" {
				rem = prm
			}
		}
		if rem == nil {
			c.Anchor(fname + "(.., remaining, ..)")
			continue
		}
		isRem := func(v ssa.Value) bool {
			for _, l := range Leaves(v, nil) {
				if l != ssa.Value(rem) {
					return false
				}
			}
			return true
		}
		fieldsOf := func(v ssa.Value) map[string]bool {
			out := map[string]bool{}
			var walk func(v ssa.Value, d int)
			walk = func(v ssa.Value, d int) {
				if v == nil || d > 8 {
					return
				}
				if f := fieldOrigin(v); f != nil {
					out[f.Name()] = true
					return
				}
				if in, ok := v.(ssa.Instruction); ok {
					for _, op := range in.Operands(nil) {
						walk(*op, d+1)
					}
				}
			}
			walk(v, 0)
			return out
		}
		instrs(fn, func(_ *ssa.BasicBlock, _ int, in ssa.Instruction) {
			sl, ok := in.(*ssa.Slice)
			if !ok || !isRem(sl.X) {
				return
			}
			for _, bnd := range []ssa.Value{sl.Low, sl.High} {
				if bnd == nil {
					continue
				}
				if _, isK := constInt(bnd); isK {
					continue
				}
				key := "bound@" + fname
				want := fieldsOf(bnd)
				if len(want) == 0 {
					c.Bad(key, sl.Pos(), "slice bound %s of the datagram remainder does not derive from the authenticated metadata", describe(bnd))
					continue
				}
				guarded := false
				instrs(fn, func(_ *ssa.BasicBlock, _ int, x ssa.Instruction) {
					iff, ok := x.(*ssa.If)
					if !ok || !instrDominates(x, in) {
						return
					}
					bo, ok := iff.Cond.(*ssa.BinOp)
					if !ok {
						return
					}
					switch bo.Op {
					case token.LSS, token.GTR, token.NEQ, token.LEQ, token.GEQ:
					default:
						return
					}
					var lenSide, other ssa.Value
					for _, pair := range [][2]ssa.Value{{bo.X, bo.Y}, {bo.Y, bo.X}} {
						if lc, ok := pair[0].(*ssa.Call); ok && calleeNameAny(lc) == "len" && isRem(lc.Common().Args[0]) {
							lenSide, other = pair[0], pair[1]
						}
					}
					if lenSide == nil {
						return
					}
					have := fieldsOf(other)
					all := true
					for f := range want {
						if !have[f] {
							all = false
						}
					}
					if all {
						guarded = true
					}
				})
				if guarded {
					c.OKH(key, sl.Pos(), "bound %s is compared with len(remaining) before the slice", describe(bnd))
				} else {
					c.Bad(key, sl.Pos(), "remaining[%s] is taken without first comparing that length with len(remaining): a truncated datagram whose header still authenticates panics the event loop (slice bounds out of range) instead of being discarded", describe(bnd))
				}
			}
		})
	}
}

func r04_4(c *RC) {
	p := c.P
	fn := p.Fn(protoPkg, "StreamUnderlay.RunEventLoop")
	if fn == nil {
		c.Anchor("StreamUnderlay.RunEventLoop")
		return
	}
	instrs(fn, func(_ *ssa.BasicBlock, _ int, in ssa.Instruction) {
		call, ok := in.(*ssa.Call)
		if !ok || calleeName(call) != "readOneSegment" {
			return
		}
		es := errSuccessorOfTuple(call, 1)
		if es == nil {
			c.Bad("error-ends-loop", call.Pos(), "the error of readOneSegment is not tested")
			return
		}
		if reachableAvoiding(fn, es.Instrs[0], func(x ssa.Instruction) bool { return x == ssa.Instruction(call) }, nil) != nil {
			c.Bad("error-ends-loop", call.Pos(), "after a read/decrypt/protocol error the stream event loop can continue reading: with the implicit nonce sequence broken, later bytes would be parsed out of frame")
		} else {
			c.OKH("error-ends-loop", call.Pos(), "every path from the error edge leaves the loop (return/panic)")
		}
	})
}

func r04_5(c *RC) {
	p := c.P
	fn := p.Fn(protoPkg, "PacketUnderlay.readOneSegment")
	if fn == nil {
		c.Anchor("PacketUnderlay.readOneSegment")
		return
	}
	instrs(fn, func(_ *ssa.BasicBlock, _ int, in ssa.Instruction) {
		call, ok := in.(*ssa.Call)
		if !ok {
			return
		}
		n := calleeName(call)
		var es *ssa.BasicBlock
		switch n {
		case "Decrypt":
			es = errSuccessorOfTuple(call, 1)
		case "Unmarshal":
			es = errSuccessorSingle(call)
		case "parseSessionSegment", "parseDataAckSegment":
			es = errSuccessorOfTuple(call, 1)
		default:
			return
		}
		key := "failure-discards:" + n
		if es == nil {
			c.Bad(key, call.Pos(), "the error of %s is not tested", n)
			return
		}
		hit := reachableAvoiding(fn, es.Instrs[0], func(x ssa.Instruction) bool {
			r, ok := x.(*ssa.Return)
			return ok && len(r.Results) == 3 && !retIsNil(r, 0)
		}, nextInput)
		if r, ok := es.Instrs[0].(*ssa.Return); ok && !retIsNil(r, 0) {
			hit = r
		}
		if hit != nil {
			c.Bad(key, call.Pos(), "after %s failed the datagram can still be returned as a segment", n)
		} else {
			c.OKH(key, call.Pos(), "failure of %s reaches the next ReadFrom without returning a segment", n)
		}
	})
}

func r04_7(c *RC) {
	p := c.P
	fn := p.Fn(protoPkg, "PacketUnderlay.writeOneSegment")
	if fn == nil {
		c.Anchor("PacketUnderlay.writeOneSegment")
		return
	}
	// does the cipher seal with associated data?
	adNil := true
	for _, m := range []string{"aeadBlockCipher.Encrypt", "aeadBlockCipher.EncryptWithNonce"} {
		cf := p.Fn("pkg/cipher", m)
		if cf == nil {
			c.Anchor("cipher." + m)
			return
		}
		instrs(cf, func(_ *ssa.BasicBlock, _ int, in ssa.Instruction) {
			if cl, ok := in.(*ssa.Call); ok && cl.Common().IsInvoke() && cl.Common().Method.Name() == "Seal" {
				if !isNilConst(cl.Common().Args[3]) {
					adNil = false
				}
			}
		})
	}
	branch := 0
	instrs(fn, func(_ *ssa.BasicBlock, _ int, in ssa.Instruction) {
		call, ok := in.(*ssa.Call)
		if !ok || !call.Common().IsInvoke() || call.Common().Method.Name() != "EncryptWithNonce" {
			return
		}
		branch++
		kind := map[int]string{1: "session", 2: "data"}[branch]
		key := "nonce-shared:" + kind
		nonce := call.Common().Args[1]
		// is the nonce the one the metadata of the same datagram was sealed with?
		shared := false
		if sl, ok := nonce.(*ssa.Slice); ok {
			root := sliceRoot(sl)
			instrs(fn, func(_ *ssa.BasicBlock, _ int, x ssa.Instruction) {
				if ec, ok := x.(*ssa.Call); ok && ec.Common().IsInvoke() && ec.Common().Method.Name() == "Encrypt" && sliceRoot(ec.Common().Args[0]) == root && instrDominates(x, in) {
					shared = true
				}
			})
		}
		switch {
		case !shared:
			c.OKH(key, call.Pos(), "the payload uses its own nonce")
		case !adNil:
			c.OKH(key, call.Pos(), "metadata and payload share a nonce but are separated by associated data")
		default:
			c.Bad(key, call.Pos(), "the %s segment's payload is sealed with the same key and the same nonce as its metadata, with no associated data: the two ciphertexts are interchangeable, so an on-path party can replace a 32-byte payload ciphertext+tag by the datagram's own metadata ciphertext+tag; it authenticates and the application reads the 32 metadata bytes instead of what the sender wrote", kind)
		}
	})
}

// r04_8: on the datagram transport a segment type that this end never
// receives legitimately (inserted or reflected by anyone on the path) must be
// dropped like a lost datagram: Session.input returns nil before looking at
// the segment. An error return would make runInputLoop close the session
// (finding F13).
func r04_8(c *RC) {
	p := c.P
	in := p.Fn(protoPkg, "Session.input")
	if in == nil {
		c.Anchor("Session.input")
		return
	}
	pk, ok := constOf(p, "pkg/common", "PacketTransport")
	if !ok {
		c.Anchor("common.PacketTransport")
		return
	}
	byVal := protocolNames(p)
	stop := func(x ssa.Instruction) bool {
		if u, ok := x.(*ssa.UnOp); ok && u.Op == token.MUL {
			if f := fieldOrigin(u); f != nil && f.Name() == "block" {
				return true
			}
		}
		return false
	}
	for _, isClient := range []bool{false, true} {
		for k := int64(0); k < 16; k++ {
			name := byVal[k]
			want := clientSends(name)
			role := "server"
			if isClient {
				want = serverSends(name)
				role = "client"
			}
			if want {
				continue
			}
			base := assumeProtocol(k, map[string]bool{"isClient": isClient})
			f := &Folder{P: p, Stop: stop, Assume: func(v ssa.Value) (cval, bool) {
				if u, ok := v.(*ssa.UnOp); ok && u.Op == token.MUL {
					if fo := fieldOrigin(u); fo != nil && fo.Name() == "transportProtocol" {
						return cval{known: true, v: constant.MakeInt64(pk)}, true
					}
				}
				return base(v)
			}}
			outs := f.Eval(in, []cval{{nonNil: true}, {nonNil: true}})
			if name == "" {
				name = "undefined"
			}
			key := fmt.Sprintf("wrong-direction-dropped:%s:%d(%s)", role, k, name)
			fatal, passed := false, false
			for _, o := range outs {
				if o.Stopped != nil {
					passed = true
					continue
				}
				if o.Returned && len(o.Results) == 1 && !o.Results[0].isNil {
					fatal = true
				}
				if o.Panicked {
					fatal = true
				}
			}
			switch {
			case f.Over || len(outs) == 0:
				c.Undecided(key, in.Pos(), "constant propagation did not finish")
			case passed:
				// reported by R04.6
				c.OK(key, in.Pos(), "passes the whitelist (judged by R04.6)")
			case fatal:
				c.Bad(key, in.Pos(), "on the datagram transport Session.input of a %s session answers protocol %d (%s) with an error: runInputLoop then closes the session, so one captured datagram sent back to its sender (no key needed) ends the stream instead of being discarded", role, k, name)
			default:
				c.OKH(key, in.Pos(), "%s session, datagram transport, protocol %d (%s): dropped with a nil return", role, k, name)
			}
		}
	}
}

func protocolNames(p *Prog) map[int64]string {
	byVal := map[int64]string{}
	for n, v := range protocolConsts(p) {
		byVal[v] = n
	}
	return byVal
}

// isDecryptWrapper: fn's first result is, on every return, nil or the
// plaintext (result #0) of a Decrypt / DecryptWithNonce call whose error edge
// cannot reach that return (or, one level down, of another such wrapper).
func isDecryptWrapper(fn *ssa.Function, depth int) bool {
	if fn == nil || fn.Blocks == nil || depth > 2 || fn.Signature.Results().Len() < 2 {
		return false
	}
	if relPkg(fn) != protoPkg && relPkg(fn) != "pkg/cipher" {
		return false
	}
	ok := true
	seenPlain := false
	instrs(fn, func(_ *ssa.BasicBlock, _ int, in ssa.Instruction) {
		r, isRet := in.(*ssa.Return)
		if !isRet || !ok {
			return
		}
		for _, l := range Leaves(retVal(r, 0), nil) {
			if isNilConst(l) {
				continue
			}
			ex, isEx := l.(*ssa.Extract)
			if !isEx || ex.Index != 0 {
				ok = false
				return
			}
			call, isCall := ex.Tuple.(*ssa.Call)
			if !isCall {
				ok = false
				return
			}
			good := call.Common().IsInvoke() && (call.Common().Method.Name() == "Decrypt" || call.Common().Method.Name() == "DecryptWithNonce")
			if !good {
				if sc := call.Common().StaticCallee(); sc != nil && sc != fn && isDecryptWrapper(sc, depth+1) {
					good = true
				}
			}
			if !good {
				ok = false
				return
			}
			es := errSuccessorOfTuple(call, call.Type().(*types.Tuple).Len()-1)
			if es == nil || reachableAvoiding(fn, es.Instrs[0], func(x ssa.Instruction) bool { return x == in }, nil) != nil {
				// reachable from the error edge: acceptable only if this return carries a non-nil error
				if retIsNil(r, len(r.Results)-1) {
					ok = false
					return
				}
				// pass-through: (plaintext, err) of one and the same open are
				// returned together, so the caller's test of this wrapper's
				// error is a test of that open's error
				if es == nil {
					last := len(r.Results) - 1
					same := true
					for _, el := range Leaves(retVal(r, last), nil) {
						ee, isE := el.(*ssa.Extract)
						if !isE || ee.Tuple != ex.Tuple || ee.Index != call.Type().(*types.Tuple).Len()-1 {
							same = false
						}
					}
					if same {
						seenPlain = true
					}
				}
				continue
			}
			seenPlain = true
		}
	})
	return ok && seenPlain
}
