package main

import (
	"go/constant"
	"go/token"
	"go/types"
	"strings"

	"golang.org/x/tools/go/ssa"
)

func init() { register("C06", propC06) }

func propC06() *Property {
	return &Property{
		ID:         "C06",
		NeedCG:     true,
		Decides:    "R06.1 in both underlays the replay lookup of the encrypted metadata prefix is made for every received first segment/datagram, before any decryption attempt on that buffer; R06.2 a first segment flagged as a replay never becomes a segment: on the stream no nil-error return is feasible whether or not discovery succeeds, on the packet underlay no segment is returned before the next datagram is read; R06.3 a replay error is handled silently (nothing that may write is called on the failure branch); R06.4 both process-wide caches are created with a positive capacity and a retention interval not shorter than the metadata timestamp acceptance window; R06.5 inventory: every ciphertext read from the stream is looked up, each with the 16-byte prefix of the buffer just read; R06.6 the cache's mutable state is touched only under its mutex (lock discipline of ReplayCache).; R06.7 every demotion of the current generation to previous restarts the expiry clock before the method returns; R06.8 the signature under which an item is remembered is a hash fed with every byte of the item (distinct items that share a prefix never collide by construction)",
		NotDecided: "the cache's retention / no-false-positive behaviour over operation histories (64-bit FNV collisions, rotation by size and time are value-level), timing.",
		Rules: []Rule{
			{ID: "R06.1", Floor: 2, Text: "readOneSegment (stream, packet): IsDuplicate(encryptedMeta[:16], tag) dominates every decrypt/discovery call on that buffer", Run: r06_1},
			{ID: "R06.2", Floor: 2, Text: "server, first read flagged as duplicate: stream readOneSegment has no feasible nil-error return; packet readOneSegment returns no segment before the next ReadFrom", Run: r06_2},
			{ID: "R06.3", Floor: 3, Text: "the failure branch after readOneSegment (stream) and the packet read loop call nothing that may write to the connection", Run: r05_5},
			{ID: "R06.4", Floor: 2, Text: "replay.NewCache(capacity, interval): capacity > 0 and interval >= (timestamp margin + 1) minutes", Run: r06_4},
			{ID: "R06.5", Floor: 3, Text: "every IsDuplicate call passes buffer[:cipher.DefaultOverhead] of a buffer filled from the network in the same function (or, for a record-and-decrypt helper, by each of its callers)", Run: r06_5},
			{ID: "R06.9", Floor: 2, Text: "an entry is recorded only under a live deadline (an expired clock is re-armed first); no product code empties or replaces a process-wide replay cache", Run: r06_9},
			{ID: "R06.8", Floor: 1, Text: "the replay signature is a hash of the whole item", Run: r06_8},
			{ID: "R06.7", Floor: 1, Text: "every demotion of the current generation to previous restarts the expiry clock before the method returns", Run: r06_7},
			{ID: "R06.6", Floor: 4, Text: "ReplayCache: every access to a non-constant field in a method happens with mu held; fields read outside the lock are never stored after NewCache and are not reference-typed", Run: r06_6},
		},
	}
}

// A replay lookup is either a direct (*ReplayCache).IsDuplicate(data, tag)
// call or a call of a local helper that performs exactly one such lookup on
// one of its parameters and returns its verdict (extracting the lookup and
// its metric bump into a method is a plain refactoring). dupInfo gives the
// caller-side view of both forms.
type dupInfo struct {
	Call            *ssa.Call // the instruction in the analysed function
	Inner           *ssa.Call // the IsDuplicate call itself (== Call for the direct form)
	Buf             ssa.Value // caller-side buffer expression
	Key             *ssa.Slice
	TagIsSourceAddr bool
}

func isDirectDup(in ssa.Instruction) *ssa.Call {
	cl, ok := in.(*ssa.Call)
	if ok && strings.HasSuffix(calleeID(cl), "replay.ReplayCache).IsDuplicate") {
		return cl
	}
	return nil
}

func tagIsAddrString(v ssa.Value) bool {
	call, ok := v.(*ssa.Call)
	return ok && call.Common().IsInvoke() && call.Common().Method.Name() == "String"
}

// dupHelperSummary: fn contains exactly one direct lookup whose data is a
// (prefix of a) parameter, and every return of fn is that lookup's verdict
// (the call's value, or the constant selected by branching on it).
func dupHelperSummary(fn *ssa.Function) (inner *ssa.Call, dataIdx int, ok bool) {
	if fn == nil || fn.Blocks == nil || relPkg(fn) != protoPkg || fn.Signature.Results().Len() != 1 {
		return nil, 0, false
	}
	if bt, isB := fn.Signature.Results().At(0).Type().Underlying().(*types.Basic); !isB || bt.Kind() != types.Bool {
		return nil, 0, false
	}
	n := 0
	instrs(fn, func(_ *ssa.BasicBlock, _ int, in ssa.Instruction) {
		if d := isDirectDup(in); d != nil {
			n++
			inner = d
		}
	})
	if n != 1 {
		return nil, 0, false
	}
	root := sliceRoot(inner.Common().Args[1])
	dataIdx = -1
	for i, prm := range fn.Params {
		if ssa.Value(prm) == root {
			dataIdx = i
		}
	}
	if dataIdx < 0 {
		return nil, 0, false
	}
	good := true
	instrs(fn, func(b *ssa.BasicBlock, _ int, in ssa.Instruction) {
		r, isRet := in.(*ssa.Return)
		if !isRet {
			return
		}
		v := retVal(r, 0)
		if v == ssa.Value(inner) {
			return
		}
		k, isK := v.(*ssa.Const)
		if !isK || k.Value == nil {
			good = false
			return
		}
		want := k.Value.String() == "true"
		okEdge := false
		for _, ce := range controllingEdges(b) {
			if ce.If.Cond == ssa.Value(inner) && (ce.Idx == 0) == want {
				okEdge = true
			}
		}
		if !okEdge {
			good = false
		}
	})
	return inner, dataIdx, good
}

func dupInfoOf(in ssa.Instruction) *dupInfo {
	if d := isDirectDup(in); d != nil {
		di := &dupInfo{Call: d, Inner: d, Buf: d.Common().Args[1], TagIsSourceAddr: tagIsAddrString(d.Common().Args[2])}
		di.Key, _ = d.Common().Args[1].(*ssa.Slice)
		return di
	}
	cl, ok := in.(*ssa.Call)
	if !ok {
		return nil
	}
	sc := cl.Common().StaticCallee()
	inner, idx, ok := dupHelperSummary(sc)
	if !ok || idx >= len(cl.Common().Args) {
		return nil
	}
	di := &dupInfo{Call: cl, Inner: inner, Buf: cl.Common().Args[idx]}
	di.Key, _ = inner.Common().Args[1].(*ssa.Slice)
	// the tag: addr.String() computed in the helper from a parameter, or passed in
	if tagIsAddrString(inner.Common().Args[2]) {
		di.TagIsSourceAddr = true
	} else {
		for j, prm := range sc.Params {
			if ssa.Value(prm) == inner.Common().Args[2] && j < len(cl.Common().Args) && tagIsAddrString(cl.Common().Args[j]) {
				di.TagIsSourceAddr = true
			}
		}
	}
	return di
}

// isDupCall: the replay lookup (direct or through a verdict helper) as seen
// from the analysed function.
func isDupCall(in ssa.Instruction) *ssa.Call {
	if di := dupInfoOf(in); di != nil {
		return di.Call
	}
	return nil
}

// sliceRoot returns the underlying buffer value of (possibly nested) slicing.
func sliceRoot(v ssa.Value) ssa.Value {
	for {
		switch x := v.(type) {
		case *ssa.Slice:
			v = x.X
		case *ssa.ChangeType:
			v = x.X
		default:
			return v
		}
	}
}

func r06_1(c *RC) {
	p := c.P
	for _, tn := range []string{"StreamUnderlay", "PacketUnderlay"} {
		fn := p.Fn(protoPkg, tn+".readOneSegment")
		if fn == nil {
			c.Anchor(tn + ".readOneSegment")
			continue
		}
		// the first IsDuplicate call in the function = lookup of the metadata
		var dup *ssa.Call
		instrs(fn, func(_ *ssa.BasicBlock, _ int, in ssa.Instruction) {
			if d := isDupCall(in); d != nil && dup == nil {
				dup = d
			}
		})
		key := "lookup-before-decrypt@" + tn
		if dup == nil {
			c.Bad(key, fn.Pos(), "%s.readOneSegment never consults the replay cache", tn)
			continue
		}
		di := dupInfoOf(dup)
		buf := sliceRoot(di.Buf)
		// every decrypt-ish call on the same buffer
		var bad ssa.Instruction
		n := 0
		instrs(fn, func(_ *ssa.BasicBlock, _ int, in ssa.Instruction) {
			cl, ok := in.(ssa.CallInstruction)
			if !ok || isDupCall(in) != nil {
				return
			}
			name := calleeName(cl)
			switch name {
			case "Decrypt", "serverInitRecvBlockCipherAndDecryptMetadata", "tryDecryptExistingSession", "serverTryDecryptMetadataForNewSession", "Discover":
			default:
				return
			}
			uses := false
			for _, a := range callArgs(cl) {
				if sliceRoot(a) == buf {
					uses = true
				}
				for _, l := range Leaves(a, nil) {
					if sliceRoot(l) == buf {
						uses = true
					}
				}
			}
			if !uses {
				return
			}
			n++
			if !instrDominates(dup, in) {
				bad = in
			}
		})
		switch {
		case n == 0:
			c.Undecided(key, dup.Pos(), "no decrypt call on the looked-up buffer found")
		case bad != nil:
			c.Bad(key, bad.Pos(), "%s is reachable without the replay lookup of the same buffer (the lookup at %s does not dominate it): some received ciphertext is not recorded / checked", describeInstr(bad), p.Pos(dup.Pos()))
		default:
			c.OKH(key, dup.Pos(), "IsDuplicate(prefix of the received buffer) dominates all %d decrypt/discovery calls on that buffer", n)
		}
		// prefix length = cipher.DefaultOverhead
		if sl := di.Key; sl != nil {
			ov := p.Const("pkg/cipher", "DefaultOverhead")
			k, isC := constInt(sl.High)
			if ov != nil && isC && constant.Compare(constant.MakeInt64(k), token.EQL, ov.(*types.Const).Val()) && sl.Low == nil {
				c.OK("lookup-key@"+tn, dup.Pos(), "key = first cipher.DefaultOverhead (%d) bytes", k)
			} else {
				c.Bad("lookup-key@"+tn, dup.Pos(), "the replay key is %s, not the first cipher.DefaultOverhead bytes of the ciphertext", describe(di.Inner.Common().Args[1]))
			}
		}
	}
}

func r06_2(c *RC) {
	p := c.P
	isClient := p.Field(protoPkg, "baseUnderlay", "isClient")
	recv := p.Field(protoPkg, "StreamUnderlay", "recv")
	// stream
	if fn := p.Fn(protoPkg, "StreamUnderlay.readOneSegment"); fn == nil {
		c.Anchor("StreamUnderlay.readOneSegment")
	} else {
		var dup *ssa.Call
		instrs(fn, func(_ *ssa.BasicBlock, _ int, in ssa.Instruction) {
			if d := isDupCall(in); d != nil && dup == nil {
				dup = d
			}
		})
		if dup == nil {
			c.Bad("stream-replay-never-accepted", fn.Pos(), "no replay lookup in StreamUnderlay.readOneSegment")
		} else {
			atom := func(cond ssa.Value) (string, int, bool) {
				if sameField(fieldOrigin(cond), isClient) {
					return "isClient", 0, true
				}
				if cond == ssa.Value(dup) {
					return "duplicate", 0, true
				}
				if bo, ok := cond.(*ssa.BinOp); ok && (bo.Op == token.EQL || bo.Op == token.NEQ) && (isNilConst(bo.X) || isNilConst(bo.Y)) {
					x := bo.X
					if isNilConst(x) {
						x = bo.Y
					}
					if sameField(fieldOrigin(x), recv) {
						if bo.Op == token.EQL {
							return "recv-nil", 0, true
						}
						return "recv-nil", 1, true
					}
				}
				return "", 0, false
			}
			ex := &Explorer{Fn: fn, Atom: atom, Assume: map[string]bool{"isClient": false, "duplicate": true, "recv-nil": true}}
			nret := 0
			instrs(fn, func(_ *ssa.BasicBlock, _ int, in ssa.Instruction) {
				if r, ok := in.(*ssa.Return); ok && len(r.Results) == 2 && retIsNil(r, 1) {
					nret++
				}
			})
			hit := ex.Reach(nil, func(in ssa.Instruction) bool {
				r, ok := in.(*ssa.Return)
				if !ok || len(r.Results) != 2 || !retIsNil(r, 1) {
					return false
				}
				// the timeout return (nil, nil) before any data was read is not an acceptance
				return !retIsNil(r, 0)
			})
			switch {
			case nret == 0:
				c.Undecided("stream-replay-never-accepted", fn.Pos(), "no nil-error return recognised in StreamUnderlay.readOneSegment")
			case ex.Over:
				c.Undecided("stream-replay-never-accepted", fn.Pos(), "state budget exceeded")
			case hit != nil:
				c.Bad("stream-replay-never-accepted", hit.Pos(), "server, first read (recv==nil), metadata prefix already seen: StreamUnderlay.readOneSegment can still return a segment with a nil error — a replayed handshake would open a session")
			default:
				c.OKH("stream-replay-never-accepted", dup.Pos(), "server + first read + duplicate: no feasible return of a segment with nil error (%d path states, %d nil-error returns in the function)", ex.States, nret)
			}
			// and the error carries REPLAY_ERROR on those paths: every return reachable under the facts
			// whose error is WrapErrorWithType(_, T): T must be REPLAY_ERROR
			replayT := p.Const("pkg/stderror", "REPLAY_ERROR")
			wrong := 0
			total := 0
			ex2 := &Explorer{Fn: fn, Atom: atom, Assume: map[string]bool{"isClient": false, "duplicate": true, "recv-nil": true}}
			ex2.Reach(nil, func(in ssa.Instruction) bool {
				r, ok := in.(*ssa.Return)
				if !ok || len(r.Results) != 2 || retIsNil(r, 1) {
					return false
				}
				// only returns after the lookup
				if !instrDominates(dup, in) {
					return false
				}
				total++
				good := false
				for _, l := range Leaves(retVal(r, 1), nil) {
					if call, ok := l.(*ssa.Call); ok && calleeName(call) == "WrapErrorWithType" {
						if k, ok := call.Common().Args[1].(*ssa.Const); ok && replayT != nil && constant.Compare(k.Value, token.EQL, replayT.(*types.Const).Val()) {
							good = true
						}
					}
				}
				if good {
					return false
				}
				wrong++
				return false
			})
			if total > 0 && wrong == 0 {
				c.OKH("stream-replay-error-type", dup.Pos(), "all %d error returns reachable under (server, first read, duplicate) after the lookup carry REPLAY_ERROR", total)
			} else {
				c.Bad("stream-replay-error-type", dup.Pos(), "%d of %d error returns reachable for a replayed first segment do not carry REPLAY_ERROR (the drain-and-close handling would be skipped)", wrong, total)
			}
		}
	}
	// packet
	fn := p.Fn(protoPkg, "PacketUnderlay.readOneSegment")
	if fn == nil {
		c.Anchor("PacketUnderlay.readOneSegment")
		return
	}
	var dup *ssa.Call
	instrs(fn, func(_ *ssa.BasicBlock, _ int, in ssa.Instruction) {
		if d := isDupCall(in); d != nil && dup == nil {
			dup = d
		}
	})
	if dup == nil {
		c.Bad("packet-replay-never-accepted", fn.Pos(), "no replay lookup in PacketUnderlay.readOneSegment")
		return
	}
	atom := func(cond ssa.Value) (string, int, bool) {
		if sameField(fieldOrigin(cond), isClient) {
			return "isClient", 0, true
		}
		if cond == ssa.Value(dup) {
			return "duplicate", 0, true
		}
		return "", 0, false
	}
	ex := &Explorer{Fn: fn, Atom: atom, Assume: map[string]bool{"isClient": false, "duplicate": true}}
	// start right after the lookup, stop at the next datagram read
	hit := ex.ReachFrom(dup, func(in ssa.Instruction) bool {
		r, ok := in.(*ssa.Return)
		return ok && len(r.Results) == 3 && !retIsNil(r, 0)
	}, nextInput)
	switch {
	case ex.Over:
		c.Undecided("packet-replay-never-accepted", fn.Pos(), "state budget exceeded")
	case hit != nil:
		c.Bad("packet-replay-never-accepted", hit.Pos(), "server, datagram whose metadata prefix was already seen from another address: PacketUnderlay.readOneSegment can still return it as a segment")
	default:
		c.OKH("packet-replay-never-accepted", dup.Pos(), "server + duplicate: no segment is returned before the next ReadFrom (%d path states)", ex.States)
	}
	// the tag of the packet lookup is the sender address (so that a genuine retransmission from the same address is not a replay)
	if dupInfoOf(dup).TagIsSourceAddr {
		c.OK("packet-replay-tag", dup.Pos(), "tag = addr.String() of the datagram's source")
	} else {
		c.Bad("packet-replay-tag", dup.Pos(), "the packet replay lookup is not tagged with the datagram's source address: %s", describe(dupInfoOf(dup).Inner.Common().Args[2]))
	}
}

func r06_4(c *RC) {
	p := c.P
	n := 0
	for _, fn := range p.Funcs(protoPkg) {
		instrs(fn, func(_ *ssa.BasicBlock, _ int, in ssa.Instruction) {
			cl, ok := in.(*ssa.Call)
			if !ok || !strings.HasSuffix(calleeID(cl), "pkg/replay.NewCache") {
				return
			}
			n++
			// which global does it initialise?
			name := "cache"
			for _, r := range *cl.Referrers() {
				if st, ok := r.(*ssa.Store); ok {
					if g, ok := st.Addr.(*ssa.Global); ok {
						name = g.Name()
					}
				}
			}
			key := "newcache:" + name
			capV, ok1 := constInt(cl.Common().Args[0])
			dV, ok2 := constInt(cl.Common().Args[1])
			if !ok1 || !ok2 {
				c.Undecided(key, cl.Pos(), "NewCache arguments are not constants")
				return
			}
			// timestamp acceptance: margin passed to WithinRange in Unmarshal (minutes) + 1
			margin := int64(1)
			if um := p.Fn(protoPkg, "sessionStruct.Unmarshal"); um != nil {
				instrs(um, func(_ *ssa.BasicBlock, _ int, x ssa.Instruction) {
					if wc, ok := x.(*ssa.Call); ok && calleeName(wc) == "WithinRange" {
						if k, ok := constInt(wc.Common().Args[2]); ok {
							margin = k
						}
					}
				})
			}
			need := (margin + 1) * 60 * 1e9
			switch {
			case capV <= 0:
				c.Bad(key, cl.Pos(), "replay cache %s has capacity %d: a capacity of 0 disables replay detection", name, capV)
			case dV < need:
				c.Bad(key, cl.Pos(), "replay cache %s retains entries for %ds, shorter than the %ds during which a recorded segment's timestamp is still accepted", name, dV/1e9, need/1e9)
			default:
				c.OKH(key, cl.Pos(), "capacity %d > 0, interval %ds >= timestamp acceptance window %ds", capV, dV/1e9, need/1e9)
			}
		})
	}
}

func r06_5(c *RC) {
	p := c.P
	ov := p.Const("pkg/cipher", "DefaultOverhead")
	for _, fn := range p.Funcs(protoPkg) {
		instrs(fn, func(_ *ssa.BasicBlock, _ int, in ssa.Instruction) {
			di := dupInfoOf(in)
			if di == nil {
				return
			}
			if _, _, isHelper := dupHelperSummary(fn); isHelper && di.Call == di.Inner {
				return // judged at the helper's call sites
			}
			d := di.Call
			key := "isduplicate@" + fnName(fn)
			sl := di.Key
			if sl == nil {
				c.Bad(key, d.Pos(), "replay key is not a prefix slice: %s", describe(di.Inner.Common().Args[1]))
				return
			}
			k, isC := constInt(sl.High)
			if !isC || ov == nil || !constant.Compare(constant.MakeInt64(k), token.EQL, ov.(*types.Const).Val()) || sl.Low != nil {
				c.Bad(key, d.Pos(), "replay key is %s, not buffer[:cipher.DefaultOverhead]", describe(sl))
				return
			}
			// buffer filled from the network in this function: MakeSlice passed to ReadFull / ReadFrom, or result of decodeLowEntropyEncryptedPayload on such
			root := sliceRoot(di.Buf)
			fromNet := false
			// (a helper that records and decrypts gets the buffer as a
			// parameter: judged by what its callers pass)
			for _, l := range LeavesIP(p, fn, root, 0) {
				if ex, ok := l.(*ssa.Extract); ok {
					if cl, ok := ex.Tuple.(*ssa.Call); ok && calleeName(cl) == "decodeLowEntropyEncryptedPayload" {
						fromNet = true
					}
				}
				if filledFromNetwork(l) {
					fromNet = true
				}
			}
			if fromNet {
				c.OKH(key, d.Pos(), "key = first %d bytes of the ciphertext just read from the network", k)
			} else {
				c.Bad(key, d.Pos(), "the looked-up buffer %s is not the ciphertext read from the network in this function", describe(root))
			}
		})
	}
}

func r06_6(c *RC) {
	p := c.P
	rc := p.Named("pkg/replay", "ReplayCache")
	if rc == nil {
		c.Anchor("pkg/replay.ReplayCache")
		return
	}
	st := rc.Underlying().(*types.Struct)
	var mu *types.Var
	for i := 0; i < st.NumFields(); i++ {
		if strings.HasSuffix(st.Field(i).Type().String(), "sync.Mutex") || strings.HasSuffix(st.Field(i).Type().String(), "sync.RWMutex") {
			mu = st.Field(i)
		}
	}
	if mu == nil {
		c.Bad("mutex", 0, "ReplayCache has no mutex field")
		return
	}
	for i := 0; i < st.NumFields(); i++ {
		f := st.Field(i)
		if f == mu {
			continue
		}
		storedAfterCtor := false
		for _, s := range p.FieldStores(f) {
			if !isFreshAlloc(storeBase(s.Instr.(*ssa.Store))) {
				storedAfterCtor = true
			}
		}
		refTyped := false
		switch f.Type().Underlying().(type) {
		case *types.Pointer, *types.Interface, *types.Map, *types.Slice, *types.Chan:
			refTyped = true
		}
		// all accesses (FieldAddr) in methods of ReplayCache
		for _, fn := range p.Funcs("pkg/replay") {
			recvOK := fn.Signature.Recv() != nil
			if !recvOK {
				continue
			}
			instrs(fn, func(_ *ssa.BasicBlock, _ int, in ssa.Instruction) {
				fa, ok := in.(*ssa.FieldAddr)
				if !ok {
					return
				}
				fv, base := fieldOfAddr(fa)
				if !sameField(fv, f) {
					return
				}
				if _, isParam := base.(*ssa.Parameter); !isParam {
					return
				}
				key := "access:" + f.Name() + "@" + fnName(fn)
				held := lockHeldAt(fn, in, mu)
				if !held && !fn.Object().Exported() {
					// an unexported helper that is only ever called with mu held
					sites := p.CallsToFn(fn)
					all := len(sites) > 0
					for _, cs := range sites {
						if !lockHeldAt(cs.Fn, cs.Instr, mu) {
							all = false
						}
					}
					if all {
						c.OKH(key, in.Pos(), "helper called only with mu held (%d call sites)", len(sites))
						return
					}
				}
				switch {
				case held:
					c.OKH(key, in.Pos(), "accessed with mu held")
				case !storedAfterCtor && !refTyped:
					c.OK(key, in.Pos(), "read outside the lock, but the field is a value never stored after NewCache")
				case !storedAfterCtor && refTyped:
					c.Bad(key, in.Pos(), "ReplayCache.%s (%s) is used outside mu: the object behind it is shared by concurrent IsDuplicate calls from every connection — signatures can be corrupted, so replays are missed and fresh traffic is reported as replay", f.Name(), f.Type())
				default:
					c.Bad(key, in.Pos(), "ReplayCache.%s is accessed without mu although it is modified after construction", f.Name())
				}
			})
		}
	}
}

// filledFromNetwork: v is a freshly made buffer one of whose (re)slices is
// passed to io.ReadFull / ReadFrom / Read in the same function.
func filledFromNetwork(v ssa.Value) bool {
	switch v.(type) {
	case *ssa.MakeSlice, *ssa.Alloc:
	default:
		return false
	}
	seen := map[ssa.Value]bool{}
	work := []ssa.Value{v}
	for len(work) > 0 {
		x := work[len(work)-1]
		work = work[:len(work)-1]
		if seen[x] {
			continue
		}
		seen[x] = true
		refs := x.Referrers()
		if refs == nil {
			continue
		}
		for _, r := range *refs {
			switch u := r.(type) {
			case *ssa.Slice:
				work = append(work, u)
			case *ssa.Phi:
				work = append(work, u)
			case ssa.CallInstruction:
				id := calleeID(u)
				if id == "io.ReadFull" || id == "io.ReadAtLeast" || strings.HasSuffix(id, ".ReadFrom") || strings.HasSuffix(id, ".Read") {
					return true
				}
			}
		}
	}
	return false
}

// r06_7: the two-generation cache keeps an entry for at least one interval
// only if every rotation (previous = current) restarts the expiry clock:
// otherwise the next time-driven rotation, which may be due at once, throws
// away the generation that was demoted a moment ago, and a datagram recorded
// well inside the validity window is accepted again (seed C06c).
func r06_7(c *RC) {
	p := c.P
	cur := p.Field("pkg/replay", "ReplayCache", "current")
	prev := p.Field("pkg/replay", "ReplayCache", "previous")
	exp := p.Field("pkg/replay", "ReplayCache", "expireTime")
	if cur == nil || prev == nil || exp == nil {
		c.Anchor("ReplayCache.current/previous/expireTime")
		return
	}
	isRotationStore := func(in ssa.Instruction) bool {
		st, ok := in.(*ssa.Store)
		if !ok {
			return false
		}
		if f, _ := fieldOfAddr(st.Addr); !sameField(f, prev) {
			return false
		}
		return sameField(fieldOrigin(st.Val), cur)
	}
	isReset := func(in ssa.Instruction) bool {
		st, ok := in.(*ssa.Store)
		if !ok {
			return false
		}
		f, _ := fieldOfAddr(st.Addr)
		return sameField(f, exp)
	}
	// helpers that rotate without resetting
	rotates := map[*ssa.Function]bool{}
	for _, fn := range p.Funcs("pkg/replay") {
		instrs(fn, func(_ *ssa.BasicBlock, _ int, in ssa.Instruction) {
			// a helper that rotates and restarts the clock itself on every
			// path is a complete rotation; only one that can return without
			// the reset hands the obligation to its callers
			if isRotationStore(in) && reachableAvoiding(fn, in, isReturn, isReset) != nil {
				rotates[fn] = true
			}
		})
	}
	n := 0
	for _, fn := range p.Funcs("pkg/replay") {
		instrs(fn, func(_ *ssa.BasicBlock, _ int, in ssa.Instruction) {
			site := isRotationStore(in)
			via := ""
			if cl, ok := in.(*ssa.Call); ok {
				if sc := cl.Call.StaticCallee(); sc != nil && rotates[sc] && sc != fn {
					site = true
					via = " (through " + fnName(sc) + ")"
				}
			}
			if !site {
				return
			}
			// a helper whose callers are all judged instead
			if via == "" && !fn.Object().Exported() && len(p.CallsToFn(fn)) > 0 {
				hit := reachableAvoiding(fn, in, isReturn, isReset)
				if hit != nil {
					c.OK("rotation-in-helper@"+fnName(fn), in.Pos(), "rotation inside a helper; judged at its %d call sites", len(p.CallsToFn(fn)))
					return
				}
			}
			n++
			key := "rotation-restarts-clock@" + fnName(fn)
			if hit := reachableAvoiding(fn, in, isReturn, isReset); hit == nil {
				c.OKH(key, in.Pos(), "previous = current%s is followed by expireTime = now + interval on every path", via)
			} else {
				c.Bad(key, in.Pos(), "a rotation%s can leave expireTime unchanged (path to %s): the time-driven rotation that follows discards the generation just demoted, so an entry recorded less than one interval ago is forgotten and its replay is accepted", via, p.Pos(hit.Pos()))
			}
		})
	}
	if n == 0 {
		c.Undecided("rotation-restarts-clock", token.NoPos, "no rotation (previous = current) found in pkg/replay")
	}
}

// r06_8: the signature under which an item is remembered depends on every
// byte of the item: computeSignature feeds the whole argument to the hash and
// returns nothing but that hash. A signature taken from a prefix makes
// distinct handshakes that share leading bytes (a fixed nonce prefix is a
// valid traffic pattern) look like replays of each other (seed C06e).
func r06_8(c *RC) {
	p := c.P
	fn := p.Fn("pkg/replay", "ReplayCache.computeSignature")
	if fn == nil {
		c.Anchor("ReplayCache.computeSignature")
		return
	}
	var data *ssa.Parameter
	for _, prm := range fn.Params {
		if _, ok := prm.Type().Underlying().(*types.Slice); ok {
			data = prm
		}
	}
	if data == nil {
		c.Undecided("signature-covers-item", fn.Pos(), "computeSignature has no byte-slice parameter")
		return
	}
	whole := func(v ssa.Value) bool {
		for {
			switch x := v.(type) {
			case *ssa.Slice:
				if x.Low != nil || x.High != nil {
					return false
				}
				v = x.X
			default:
				return v == ssa.Value(data)
			}
		}
	}
	var writes []ssa.Instruction
	instrs(fn, func(_ *ssa.BasicBlock, _ int, in ssa.Instruction) {
		cl, ok := in.(*ssa.Call)
		if !ok {
			return
		}
		if cl.Call.IsInvoke() && cl.Call.Method.Name() == "Write" && len(cl.Call.Args) == 1 && whole(cl.Call.Args[0]) {
			writes = append(writes, in)
		}
	})
	n := 0
	instrs(fn, func(_ *ssa.BasicBlock, _ int, in ssa.Instruction) {
		r, ok := in.(*ssa.Return)
		if !ok || len(r.Results) != 1 {
			return
		}
		n++
		good := true
		for _, l := range Leaves(retVal(r, 0), nil) {
			cl, ok := l.(*ssa.Call)
			if !ok || !cl.Call.IsInvoke() || !strings.HasPrefix(cl.Call.Method.Name(), "Sum") {
				good = false
			}
		}
		fed := false
		for _, w := range writes {
			if instrDominates(w, in) {
				fed = true
			}
		}
		if good && fed {
			c.OKH("signature-covers-item", r.Pos(), "the signature is the hash of the whole item")
		} else {
			c.Bad("signature-covers-item", r.Pos(), "computeSignature can return %s, which is not a hash fed with the whole item: items that agree on the bytes actually used (e.g. handshakes of a client configured with a fixed nonce prefix) share one signature, and fresh traffic is rejected as a replay", describe(retVal(r, 0)))
		}
	})
	if n == 0 {
		c.Undecided("signature-covers-item", fn.Pos(), "no return found")
	}
}


// r06_9: an entry is never recorded under a deadline that has already
// passed. IsDuplicate is explored with "now is after expireTime" assumed: the
// insertion into the current generation must be unreachable without passing a
// store that re-arms expireTime (directly, or in a helper that re-arms it on
// every one of its paths under the same assumption). Otherwise the first
// entry after an idle period is thrown away by the very next call, and its
// replay is accepted (seed C06h: rotation skipped "while the cache is empty").
// Also: nothing in product code empties a process-wide cache (Clear has no
// product caller; seed C06g cleared both caches when a server Mux closes).
func r06_9(c *RC) {
	p := c.P
	cur := p.Field("pkg/replay", "ReplayCache", "current")
	exp := p.Field("pkg/replay", "ReplayCache", "expireTime")
	fn := p.Fn("pkg/replay", "ReplayCache.IsDuplicate")
	if cur == nil || exp == nil || fn == nil {
		c.Anchor("ReplayCache.IsDuplicate / current / expireTime")
		return
	}
	isExp := func(v ssa.Value) bool { return sameField(fieldOrigin(v), exp) }
	atom := func(cond ssa.Value) (string, int, bool) {
		v, neg := condAtom(cond)
		ti := 0
		if neg {
			ti = 1
		}
		switch x := v.(type) {
		case *ssa.Call:
			switch calleeID(x) {
			case "(time.Time).After":
				if isExp(x.Call.Args[1]) {
					return "expired", ti, true
				}
			case "(time.Time).Before":
				if isExp(x.Call.Args[0]) {
					return "expired", ti, true
				}
			}
		case *ssa.BinOp:
			// time.Since(expireTime) > 0 / now.Sub(expireTime) > 0
			isElapsed := func(y ssa.Value) bool {
				cl, ok := y.(*ssa.Call)
				if !ok {
					return false
				}
				switch calleeID(cl) {
				case "time.Since":
					return isExp(cl.Call.Args[0])
				case "(time.Time).Sub":
					return isExp(cl.Call.Args[1])
				}
				return false
			}
			if cmpForm(x, token.GTR, isElapsed, isZero) {
				return "expired", ti, true
			}
			if cmpForm(x, token.LEQ, isElapsed, isZero) {
				return "expired", 1 - ti, true
			}
		}
		return "", 0, false
	}
	isReset := func(in ssa.Instruction) bool {
		st, ok := in.(*ssa.Store)
		if !ok {
			return false
		}
		f, _ := fieldOfAddr(st.Addr)
		return sameField(f, exp)
	}
	// helpers that re-arm on every path when expired
	complete := map[*ssa.Function]bool{}
	for _, h := range withHelpers(p, fn, 2)[1:] {
		has := false
		instrs(h, func(_ *ssa.BasicBlock, _ int, in ssa.Instruction) {
			if isReset(in) {
				has = true
			}
		})
		if !has {
			continue
		}
		ex := &Explorer{Fn: h, Atom: atom, Assume: map[string]bool{"expired": true}, Avoid: isReset}
		if ex.Reach(nil, isReturn) == nil && !ex.Over {
			complete[h] = true
		}
	}
	avoid := func(in ssa.Instruction) bool {
		if isReset(in) {
			return true
		}
		if cl, ok := in.(*ssa.Call); ok {
			if sc := cl.Call.StaticCallee(); sc != nil && complete[sc] {
				return true
			}
		}
		return false
	}
	isInsert := func(in ssa.Instruction) bool {
		mu, ok := in.(*ssa.MapUpdate)
		return ok && sameField(fieldOrigin(mu.Map), cur)
	}
	nIns := 0
	instrs(fn, func(_ *ssa.BasicBlock, _ int, in ssa.Instruction) {
		if isInsert(in) {
			nIns++
		}
	})
	if nIns == 0 {
		c.Undecided("record-under-live-deadline", fn.Pos(), "IsDuplicate does not insert into the current generation")
	} else {
		ex := &Explorer{Fn: fn, Atom: atom, Assume: map[string]bool{"expired": true}, Avoid: avoid}
		hit := ex.Reach(nil, isInsert)
		switch {
		case ex.Over:
			c.Undecided("record-under-live-deadline", fn.Pos(), "exploration budget exceeded")
		case hit != nil:
			c.Bad("record-under-live-deadline", hit.Pos(), "with the expiry deadline already passed, IsDuplicate can record an entry without re-arming expireTime first: the entry is stored under a stale deadline, the next call rotates it away, and a replay of that first item after an idle period is accepted")
		default:
			c.OKH("record-under-live-deadline", fn.Pos(), "with now after expireTime assumed, every path to the insertion passes expireTime = now + interval (%d states)", ex.States)
		}
	}
	// nobody empties a cache
	n := 0
	for _, name := range []string{"ReplayCache.Clear"} {
		cf := p.Fn("pkg/replay", name)
		if cf == nil {
			continue
		}
		for _, cs := range p.CallsToFn(cf) {
			if strings.HasSuffix(strings.SplitN(p.Pos(cs.Pos()), ":", 2)[0], "_test.go") {
				continue
			}
			n++
			c.Bad("cache-emptied@"+fnName(cs.Fn), cs.Pos(), "%s empties a replay cache: every handshake recorded so far can be replayed from then on, within its validity window (the caches are process-wide and must outlive any one listener)", fnName(cs.Fn))
		}
	}
	// the process-wide caches are assigned once, by their initialisers
	for _, gname := range []string{"streamReplayCache", "packetReplayCache"} {
		for _, fnn := range p.Funcs(protoPkg) {
			instrs(fnn, func(_ *ssa.BasicBlock, _ int, in ssa.Instruction) {
				if st, ok := in.(*ssa.Store); ok {
					if g, ok := st.Addr.(*ssa.Global); ok && g.Name() == gname && !(fnn.Name() == "init" && fnn.Synthetic != "") {
						n++
						c.Bad("cache-replaced@"+fnName(fnn), in.Pos(), "%s replaces %s: what it had recorded is forgotten", fnName(fnn), gname)
					}
				}
			})
		}
	}
	if n == 0 {
		c.OK("caches-never-emptied", fn.Pos(), "no product code calls ReplayCache.Clear or re-assigns the process-wide caches")
	}
}
