package main

import (
	"fmt"
	"go/constant"
	"go/token"
	"go/types"
	"strings"

	"golang.org/x/tools/go/ssa"
)

func init() { register("C11", propC11) }

const s5Pkg = "pkg/socks5"

func propC11() *Property {
	return &Property{
		ID:         "C11",
		Decides:    "R11.1 with ingress credentials configured, handleAuthentication returns nil only through the edge on which a configured user AND its password compared equal to what the client sent; R11.2 with none configured, it never selects username/password nor reports sub-negotiation success, and returns nil only after selecting no-auth; R11.3 the server reads the request / the client dials and forwards only after handleAuthentication()==nil on the side that owns authentication, and the two sides test ClientSideAuthentication with opposite polarity; R11.4 the client daemon wires socks5Authentication into IngressCredentials (user to User, password to Password) with ClientSideAuthentication=true and cannot start the HTTP proxy when credentials exist.",
		NotDecided: "string comparison timing; credentials longer than 255 bytes; behaviour of the bytes.Equal/== operators themselves.",
		Rules: []Rule{
			{ID: "R11.1", Floor: 1, Text: "handleAuthentication, assuming len(IngressCredentials)>0: no `return nil` is reachable unless the credential-match edge (User == user && Password == password) is taken", Run: r11_1},
			{ID: "R11.2", Floor: 2, Text: "handleAuthentication, assuming len(IngressCredentials)==0: the method reply {5,2} and the success reply {1,0} are unreachable; `return nil` is reachable only after writing {5,0}", Run: r11_2},
			{ID: "R11.3", Floor: 2, Text: "serverServeConn: readRequest unreachable without (handleAuthentication()==nil or ClientSideAuthentication); clientServeConn: ProxyDialer.DialContext unreachable without (handleAuthentication()==nil or !ClientSideAuthentication)", Run: r11_3},
			{ID: "R11.5", Floor: 1, Text: "the configured credential list reaches the check unchanged: nothing outside the daemon wiring assigns Auth.IngressCredentials (a listener that filters its own list can end up with none and stop asking)", Run: r11_5},
			{ID: "R11.4", Floor: 4, Text: "pkg/cli RunClient: Auth literal has ClientSideAuthentication=true and IngressCredentials built from GetSocks5Authentication (GetUser->User, GetPassword->Password); the HTTP proxy goroutine is unreachable when credentials are configured", Run: r11_4},
		},
	}
}

// lenCmp recognises comparisons of len(<value loaded from field fieldName>)
// with 0 and tells which successor index corresponds to "non-empty".
func lenCmp(cond ssa.Value, fieldName string) (nonEmptyIdx int, ok bool) {
	bo, isBo := cond.(*ssa.BinOp)
	if !isBo {
		return 0, false
	}
	isLen := func(v ssa.Value) bool {
		call, ok := v.(*ssa.Call)
		if !ok {
			return false
		}
		b, ok := call.Common().Value.(*ssa.Builtin)
		if !ok || b.Name() != "len" {
			return false
		}
		f := fieldOrigin(call.Common().Args[0])
		return f != nil && f.Name() == fieldName
	}
	zero := func(v ssa.Value) bool { k, ok := constInt(v); return ok && k == 0 }
	switch {
	case isLen(bo.X) && zero(bo.Y):
		switch bo.Op {
		case token.GTR, token.NEQ:
			return 0, true
		case token.EQL, token.LEQ:
			return 1, true
		}
	case zero(bo.X) && isLen(bo.Y):
		switch bo.Op {
		case token.LSS, token.NEQ:
			return 0, true
		case token.EQL, token.GEQ:
			return 1, true
		}
	}
	return 0, false
}

// constBytes returns the constant bytes of a []byte{...} literal value.
func constBytes(v ssa.Value) ([]int64, bool) {
	sl, ok := v.(*ssa.Slice)
	if !ok {
		return nil, false
	}
	a, ok := sl.X.(*ssa.Alloc)
	if !ok {
		return nil, false
	}
	vals := map[int64]int64{}
	max := int64(-1)
	for _, r := range *a.Referrers() {
		ia, ok := r.(*ssa.IndexAddr)
		if !ok {
			continue
		}
		idx, ok := constInt(ia.Index)
		if !ok {
			return nil, false
		}
		for _, u := range *ia.Referrers() {
			if st, ok := u.(*ssa.Store); ok {
				k, ok := constInt(st.Val)
				if !ok {
					return nil, false
				}
				vals[idx] = k
				if idx > max {
					max = idx
				}
			}
		}
	}
	out := make([]int64, max+1)
	for i := range out {
		out[i] = vals[int64(i)]
	}
	return out, max >= 0
}

// connWriteConst finds conn.Write([]byte{a,b}) calls with constant contents.
func connWriteConst(in ssa.Instruction) ([]int64, bool) {
	cl, ok := in.(ssa.CallInstruction)
	if !ok || !cl.Common().IsInvoke() || cl.Common().Method.Name() != "Write" {
		return nil, false
	}
	return constBytes(cl.Common().Args[0])
}

func r11_1(c *RC) {
	p := c.P
	fn := p.Fn(s5Pkg, "Server.handleAuthentication")
	if fn == nil {
		c.Anchor("socks5.Server.handleAuthentication")
		return
	}
	// credential match edges
	type edge struct {
		b   *ssa.BasicBlock
		idx int
	}
	var matchEdges []edge
	var matchDesc string
	instrs(fn, func(b *ssa.BasicBlock, _ int, in ssa.Instruction) {
		iff, ok := in.(*ssa.If)
		if !ok {
			return
		}
		bo, ok := iff.Cond.(*ssa.BinOp)
		if !ok || bo.Op != token.EQL {
			return
		}
		fx, fy := fieldOrigin(bo.X), fieldOrigin(bo.Y)
		isPw := (fx != nil && fx.Name() == "Password") || (fy != nil && fy.Name() == "Password")
		if !isPw {
			return
		}
		// must be dominated by the true edge of a User comparison
		userOK := false
		for _, e := range controllingEdges(b) {
			if ub, ok := e.If.Cond.(*ssa.BinOp); ok && ub.Op == token.EQL && e.Idx == 0 {
				ux, uy := fieldOrigin(ub.X), fieldOrigin(ub.Y)
				if (ux != nil && ux.Name() == "User") || (uy != nil && uy.Name() == "User") {
					userOK = true
				}
			}
		}
		// the other operand must come from the connection (string of bytes read)
		other := bo.X
		if fx != nil && fx.Name() == "Password" {
			other = bo.Y
		}
		fromInput := false
		for _, l := range Leaves(other, nil) {
			if ms, ok := l.(*ssa.MakeSlice); ok {
				_ = ms
				fromInput = true
			}
		}
		if userOK && fromInput {
			matchEdges = append(matchEdges, edge{b, 0})
			matchDesc = describe(bo)
		}
	})
	if len(matchEdges) == 0 {
		// the comparison loop may live in a helper that returns its verdict
		instrs(fn, func(b *ssa.BasicBlock, _ int, in ssa.Instruction) {
			iff, ok := in.(*ssa.If)
			if !ok {
				return
			}
			cv, neg := condAtom(iff.Cond)
			call, ok := cv.(*ssa.Call)
			if !ok {
				return
			}
			pwIdx, ok := credMatchHelper(call.Common().StaticCallee())
			if !ok || pwIdx >= len(call.Common().Args) {
				return
			}
			fromInput := false
			for _, l := range LeavesX(p, fn, call.Common().Args[pwIdx], 0) {
				if _, isMake := l.(*ssa.MakeSlice); isMake {
					fromInput = true
				}
			}
			if fromInput {
				idx := 0
				if neg {
					idx = 1
				}
				matchEdges = append(matchEdges, edge{b, idx})
				matchDesc = "verdict of " + fnName(call.Common().StaticCallee())
			}
		})
	}
	if len(matchEdges) == 0 {
		c.Undecided("credential-match", fn.Pos(), "cannot find the credential comparison (c.User == user && c.Password == password with the password read from the connection) in handleAuthentication; the accepted idiom is an == comparison of both fields of the same configured credential")
		return
	}
	atom := func(cond ssa.Value) (string, int, bool) {
		if ne, ok := lenCmp(cond, "IngressCredentials"); ok {
			return "credentials-configured", ne, true
		}
		return "", 0, false
	}
	ex := &Explorer{Fn: fn, Atom: atom, Assume: map[string]bool{"credentials-configured": true},
		Cut: func(from *ssa.BasicBlock, idx int) bool {
			for _, e := range matchEdges {
				if e.b == from && e.idx == idx {
					return true
				}
			}
			return false
		}}
	nNil := 0
	instrs(fn, func(_ *ssa.BasicBlock, _ int, in ssa.Instruction) {
		if r, ok := in.(*ssa.Return); ok && len(r.Results) == 1 && retIsNil(r, 0) {
			nNil++
		}
	})
	if nNil == 0 {
		c.Undecided("return-nil-without-credential", fn.Pos(), "no `return nil` recognised in handleAuthentication at all (result spilling idiom not understood?)")
		return
	}
	hit := ex.Reach(nil, func(in ssa.Instruction) bool {
		r, ok := in.(*ssa.Return)
		return ok && len(r.Results) == 1 && retIsNil(r, 0)
	})
	switch {
	case ex.Over:
		c.Undecided("return-nil-without-credential", fn.Pos(), "state budget exceeded (%d states)", ex.States)
	case hit != nil:
		c.Bad("return-nil-without-credential", hit.Pos(), "with ingress credentials configured, handleAuthentication can return nil (authenticated) on a feasible path that never takes the credential-match edge %s: some negotiation is served without a configured user/password pair", matchDesc)
	default:
		c.OKH("return-nil-without-credential", fn.Pos(), "credentials configured and match edge cut: no `return nil` reachable (%d path states explored, correlated flag tests resolved)", ex.States)
	}
}

func r11_2(c *RC) {
	p := c.P
	fn := p.Fn(s5Pkg, "Server.handleAuthentication")
	if fn == nil {
		c.Anchor("socks5.Server.handleAuthentication")
		return
	}
	atom := func(cond ssa.Value) (string, int, bool) {
		if ne, ok := lenCmp(cond, "IngressCredentials"); ok {
			return "credentials-configured", ne, true
		}
		return "", 0, false
	}
	ex := &Explorer{Fn: fn, Atom: atom, Assume: map[string]bool{"credentials-configured": false}}
	hit := ex.Reach(nil, func(in ssa.Instruction) bool {
		bs, ok := connWriteConst(in)
		return ok && len(bs) == 2 && ((bs[0] == 5 && bs[1] == 2) || (bs[0] == 1 && bs[1] == 0))
	})
	switch {
	case ex.Over:
		c.Undecided("userpass-without-credentials", fn.Pos(), "state budget exceeded")
	case hit != nil:
		c.Bad("userpass-without-credentials", hit.Pos(), "with no credentials configured, handleAuthentication can still select or accept username/password (reply %s)", describeInstr(hit))
	default:
		c.OKH("userpass-without-credentials", fn.Pos(), "no credentials: neither the {5,2} method reply nor the {1,0} success reply is reachable (%d path states)", ex.States)
	}
	ex2 := &Explorer{Fn: fn, Atom: atom, Assume: map[string]bool{"credentials-configured": false},
		Avoid: func(in ssa.Instruction) bool {
			bs, ok := connWriteConst(in)
			return ok && len(bs) == 2 && bs[0] == 5 && bs[1] == 0
		}}
	hit2 := ex2.Reach(nil, func(in ssa.Instruction) bool {
		r, ok := in.(*ssa.Return)
		return ok && len(r.Results) == 1 && retIsNil(r, 0)
	})
	switch {
	case ex2.Over:
		c.Undecided("noauth-accept", fn.Pos(), "state budget exceeded")
	case hit2 != nil:
		c.Bad("noauth-accept", hit2.Pos(), "with no credentials configured, handleAuthentication can return nil without having selected the no-authentication method {5,0}")
	default:
		c.OKH("noauth-accept", fn.Pos(), "no credentials: every feasible `return nil` is preceded by the {5,0} reply (%d path states)", ex2.States)
	}
}

// reachableAvoidingCut: like reachableAvoiding from function entry, with
// additional cut edges.
func reachableAvoidingCut(f *ssa.Function, cut func(*ssa.BasicBlock, int) bool, to func(ssa.Instruction) bool, avoid func(ssa.Instruction) bool) ssa.Instruction {
	seen := map[*ssa.BasicBlock]bool{}
	work := []*ssa.BasicBlock{f.Blocks[0]}
	seen[f.Blocks[0]] = true
	for len(work) > 0 {
		b := work[len(work)-1]
		work = work[:len(work)-1]
		blocked := false
		for _, in := range b.Instrs {
			if avoid != nil && avoid(in) {
				blocked = true
				break
			}
			if to(in) {
				return in
			}
		}
		if blocked {
			continue
		}
		for i, s := range b.Succs {
			if cut != nil && cut(b, i) {
				continue
			}
			if !seen[s] {
				seen[s] = true
				work = append(work, s)
			}
		}
	}
	return nil
}

func r11_3(c *RC) {
	p := c.P
	type side struct {
		fn      string
		target  func(ssa.Instruction) bool
		tname   string
		csaSkip bool // authentication is skipped when ClientSideAuthentication == csaSkip
	}
	sides := []side{
		{"Server.serverServeConn", func(in ssa.Instruction) bool {
			cl, ok := in.(ssa.CallInstruction)
			return ok && calleeName(cl) == "readRequest"
		}, "readRequest", true},
		{"Server.clientServeConn", func(in ssa.Instruction) bool {
			cl, ok := in.(ssa.CallInstruction)
			if !ok {
				return false
			}
			n := calleeName(cl)
			return (cl.Common().IsInvoke() && n == "DialContext") || n == "proxySocks5ConnReq"
		}, "ProxyDialer.DialContext / proxySocks5ConnReq", false},
	}
	for _, sd := range sides {
		fn := p.Fn(s5Pkg, sd.fn)
		if fn == nil {
			c.Anchor("socks5." + sd.fn)
			continue
		}
		var auth *ssa.Call
		instrs(fn, func(_ *ssa.BasicBlock, _ int, in ssa.Instruction) {
			if cl, ok := in.(*ssa.Call); ok && calleeName(cl) == "handleAuthentication" {
				auth = cl
			}
		})
		key := "auth-before:" + sd.tname + "@" + sd.fn
		// (1) protected inside the side function itself
		inSide := ""
		if auth == nil {
			inSide = sd.fn + " never calls handleAuthentication"
		} else if errSucc := errSuccessorSingle(auth); errSucc == nil {
			inSide = "the result of handleAuthentication is not tested in " + sd.fn
		} else {
			authIf := errSucc.Preds[0]
			nilIdx := 0
			if authIf.Succs[0] == errSucc {
				nilIdx = 1
			}
			cut := func(from *ssa.BasicBlock, idx int) bool {
				if from == authIf && idx == nilIdx {
					return true
				}
				if iff, ok := from.Instrs[len(from.Instrs)-1].(*ssa.If); ok {
					cv, neg := condAtom(iff.Cond)
					if f := fieldOrigin(cv); f != nil && f.Name() == "ClientSideAuthentication" {
						// cut the edge on which authentication is legitimately
						// skipped; the flag may be tested directly or through a
						// negated local (authAtServer := !ClientSideAuthentication)
						skipIdx := 1
						if sd.csaSkip {
							skipIdx = 0
						}
						if neg {
							skipIdx = 1 - skipIdx
						}
						if idx == skipIdx {
							return true
						}
					}
				}
				return false
			}
			if hit := reachableAvoidingCut(fn, cut, sd.target, nil); hit != nil {
				inSide = fmt.Sprintf("%s is reachable in %s without handleAuthentication()==nil on the side that owns authentication (ClientSideAuthentication=%v skips it here): a request is read/forwarded before the credential check", sd.tname, sd.fn, sd.csaSkip)
			} else {
				c.OKH(key, auth.Pos(), "%s unreachable once the handleAuthentication()==nil edge and the ClientSideAuthentication==%v edge are cut", sd.tname, sd.csaSkip)
				continue
			}
		}
		// (2) the gate may have been hoisted into the caller (ServeConn):
		// evaluate each caller with the owning configuration and a failing
		// authentication; the side function must then not be called at all.
		callers := p.CallsToFn(fn)
		if len(callers) == 0 {
			c.Bad(key, fn.Pos(), "%s", inSide)
			continue
		}
		owning := !sd.csaSkip
		verdict, reachedOK := "", false
		for _, cs := range callers {
			for _, useProxy := range []bool{false, true} {
				for _, authFails := range []bool{true, false} {
					called := false
					f := &Folder{P: p, Assume: func(v ssa.Value) (cval, bool) {
						switch x := v.(type) {
						case *ssa.UnOp:
							if x.Op == token.MUL {
								if fl := fieldOrigin(x); fl != nil {
									switch fl.Name() {
									case "ClientSideAuthentication":
										return cval{known: true, v: constant.MakeBool(owning)}, true
									case "UseProxy":
										return cval{known: true, v: constant.MakeBool(useProxy)}, true
									}
								}
							}
						case *ssa.Call:
							if calleeName(x) == "handleAuthentication" {
								if authFails {
									return cval{nonNil: true}, true
								}
								return cval{isNil: true}, true
							}
						}
						return cval{}, false
					}, OnCall: func(call *ssa.Call, _ []cval) {
						if call.Common().StaticCallee() == fn {
							called = true
						}
					}, CallHook: func(call *ssa.Call, _ []cval) (cval, bool) {
						// only small predicates are evaluated; the side
						// functions themselves are not entered
						if sc := call.Common().StaticCallee(); sc != nil && (sc == fn || len(sc.Blocks) > 12) {
							return unknownVal, true
						}
						return cval{}, false
					}}
					var args []cval
					for range cs.Fn.Params {
						args = append(args, cval{nonNil: true})
					}
					f.Eval(cs.Fn, args)
					if f.Over {
						verdict = "evaluation budget exceeded in " + fnName(cs.Fn)
					}
					if called && authFails {
						verdict = fmt.Sprintf("%s; and its caller %s still calls it when handleAuthentication fails (UseProxy=%v, ClientSideAuthentication=%v)", inSide, fnName(cs.Fn), useProxy, owning)
					}
					if called && !authFails {
						reachedOK = true
					}
				}
			}
		}
		switch {
		case verdict != "":
			c.Bad(key, fn.Pos(), "%s", verdict)
		case !reachedOK:
			c.Undecided(key, fn.Pos(), "%s; its callers could not be evaluated up to the call", inSide)
		default:
			c.OKH(key, callers[0].Pos(), "the caller authenticates first: with ClientSideAuthentication=%v and a failing handleAuthentication, %s is never called (evaluated for both UseProxy settings); with a succeeding one it is", owning, sd.fn)
		}
	}
}

func r11_4(c *RC) {
	p := c.P
	csa := p.Field(s5Pkg, "Auth", "ClientSideAuthentication")
	ing := p.Field(s5Pkg, "Auth", "IngressCredentials")
	if csa == nil || ing == nil {
		c.Anchor("socks5.Auth.{ClientSideAuthentication,IngressCredentials}")
		return
	}
	var host *ssa.Function
	for _, s := range p.FieldStores(ing) {
		if relPkg(s.Fn) != "pkg/cli" {
			continue
		}
		host = s.Fn
		key := "wire:IngressCredentials@" + fnName(s.Fn)
		// value must derive from append(..., Credential{User: auth.GetUser(), Password: auth.GetPassword()}) over GetSocks5Authentication()
		src := false
		for _, l := range Leaves(s.Val, func(v ssa.Value) bool { _, ok := v.(*ssa.Call); return ok }) {
			if call, ok := l.(*ssa.Call); ok {
				if b, ok := call.Common().Value.(*ssa.Builtin); ok && b.Name() == "append" {
					src = true
				}
			}
		}
		// every origin of the list other than the appends is empty (nil, or a
		// make with length 0): a make with a positive length puts zero-valued
		// {"" ""} credentials in front of the real ones
		var stray []string
		var walk func(v ssa.Value, seen map[ssa.Value]bool)
		walk = func(v ssa.Value, seen map[ssa.Value]bool) {
			if seen[v] {
				return
			}
			seen[v] = true
			switch x := v.(type) {
			case *ssa.Phi:
				for _, e := range x.Edges {
					walk(e, seen)
				}
			case *ssa.Call:
				if b, ok := x.Common().Value.(*ssa.Builtin); ok && b.Name() == "append" {
					walk(x.Common().Args[0], seen)
					return
				}
				stray = append(stray, describe(v))
			case *ssa.Const:
				if !x.IsNil() {
					stray = append(stray, describe(v))
				}
			case *ssa.MakeSlice:
				if k, ok := constInt(x.Len); !ok || k != 0 {
					stray = append(stray, "make with length "+describe(x.Len))
				}
			case *ssa.Slice:
				// alloc-backed literal or reslice
				if x.High != nil {
					if k, ok := constInt(x.High); ok && k == 0 {
						return
					}
				}
				stray = append(stray, describe(v))
			case *ssa.UnOp:
				if a, ok := x.X.(*ssa.Alloc); ok {
					for _, st := range allocStores(a) {
						walk(st, seen)
					}
					return
				}
				stray = append(stray, describe(v))
			default:
				stray = append(stray, describe(v))
			}
		}
		walk(s.Val, map[ssa.Value]bool{})
		if src && len(stray) > 0 {
			c.Bad(key, s.Pos(), "the credential list does not start empty (%s): zero-valued credentials (empty user, empty password) are then accepted by the listener", strings.Join(stray, ", "))
		} else if src {
			c.OKH(key, s.Pos(), "IngressCredentials = slice appended in this function, starting empty")
		} else {
			c.Bad(key, s.Pos(), "IngressCredentials is %s, not the list built from the configured socks5Authentication", describe(s.Val))
		}
	}
	if host == nil {
		c.Bad("wire:IngressCredentials", 0, "pkg/cli never sets socks5.Auth.IngressCredentials: configured SOCKS5 credentials would not be enforced")
		return
	}
	for _, s := range p.FieldStores(csa) {
		if s.Fn != host {
			continue
		}
		key := "wire:ClientSideAuthentication@" + fnName(s.Fn)
		if k, ok := s.Val.(*ssa.Const); ok && k.Value.String() == "true" {
			c.OK(key, s.Pos(), "ClientSideAuthentication = true in the client daemon")
		} else {
			c.Bad(key, s.Pos(), "ClientSideAuthentication is %s in the client daemon: neither side would run the credential check", describe(s.Val))
		}
	}
	// User <- GetUser, Password <- GetPassword
	for _, fname := range []string{"User", "Password"} {
		f := p.Field(s5Pkg, "Credential", fname)
		found := false
		for _, s := range p.FieldStores(f) {
			if s.Fn != host {
				continue
			}
			found = true
			key := "wire:Credential." + fname + "@" + fnName(s.Fn)
			good := false
			for _, l := range Leaves(s.Val, nil) {
				if call, ok := l.(*ssa.Call); ok && calleeName(call) == "Get"+fname && strings.Contains(calleeID(call), "appctlpb.Auth") {
					good = true
				}
			}
			if good {
				c.OKH(key, s.Pos(), "Credential.%s = auth.Get%s()", fname, fname)
			} else {
				c.Bad(key, s.Pos(), "Credential.%s is %s, not auth.Get%s()", fname, describe(s.Val), fname)
			}
		}
		if !found {
			c.Bad("wire:Credential."+fname, host.Pos(), "Credential.%s is never set in %s", fname, fnName(host))
		}
	}
	// HTTP proxy unreachable with credentials
	// (the listener configuration may be built in a helper of the function
	// that starts the proxies)
	var goHTTP ssa.Instruction
	httpHosts := []*ssa.Function{host}
	for _, cs := range p.CallsToFn(host) {
		httpHosts = append(httpHosts, cs.Fn)
	}
	for _, hh := range httpHosts {
		if goHTTP != nil {
			break
		}
		instrs(hh, func(_ *ssa.BasicBlock, _ int, in ssa.Instruction) {
			g, ok := in.(*ssa.Go)
			if !ok {
				return
			}
			if mc, ok := g.Call.Value.(*ssa.MakeClosure); ok {
				cf := mc.Fn.(*ssa.Function)
				instrs(cf, func(_ *ssa.BasicBlock, _ int, x ssa.Instruction) {
					if cl, ok := x.(ssa.CallInstruction); ok && calleeName(cl) == "NewHTTPProxyServer" {
						goHTTP = in
					}
				})
			}
		})
	}
	if goHTTP == nil {
		c.Undecided("http-proxy-exclusion", host.Pos(), "cannot find the goroutine that starts NewHTTPProxyServer in %s", fnName(host))
		return
	}
	host = goHTTP.Parent()
	cut := func(from *ssa.BasicBlock, idx int) bool {
		if iff, ok := from.Instrs[len(from.Instrs)-1].(*ssa.If); ok {
			if bo, ok := iff.Cond.(*ssa.BinOp); ok {
				isLenAuth := func(v ssa.Value) bool {
					call, ok := v.(*ssa.Call)
					if !ok {
						return false
					}
					b, ok := call.Common().Value.(*ssa.Builtin)
					if !ok || b.Name() != "len" {
						return false
					}
					inner, ok := call.Common().Args[0].(*ssa.Call)
					return ok && calleeName(inner) == "GetSocks5Authentication"
				}
				// assume credentials configured: cut the edge on which the
				// count is zero, however the test is spelled
				isZero := func(v ssa.Value) bool { k, ok := constInt(v); return ok && k == 0 }
				isOne := func(v ssa.Value) bool { k, ok := constInt(v); return ok && k == 1 }
				nonEmpty := cmpForm(bo, token.GTR, isLenAuth, isZero) || cmpForm(bo, token.NEQ, isLenAuth, isZero) || cmpForm(bo, token.GEQ, isLenAuth, isOne)
				empty := cmpForm(bo, token.EQL, isLenAuth, isZero) || cmpForm(bo, token.LEQ, isLenAuth, isZero) || cmpForm(bo, token.LSS, isLenAuth, isOne)
				if (nonEmpty && idx == 1) || (empty && idx == 0) {
					return true
				}
			}
		}
		return false
	}
	hit := reachableAvoidingCut(host, cut, func(in ssa.Instruction) bool { return in == goHTTP }, func(in ssa.Instruction) bool {
		cl, ok := in.(ssa.CallInstruction)
		return ok && calleeName(cl) == "Fatalf"
	})
	if hit != nil {
		c.Bad("http-proxy-exclusion", goHTTP.Pos(), "with socks5Authentication configured the HTTP proxy goroutine can still be started without passing log.Fatalf: the HTTP proxy would forward requests without credentials")
	} else {
		c.OKH("http-proxy-exclusion", goHTTP.Pos(), "credentials configured: the HTTP proxy goroutine is reachable only past log.Fatalf")
	}
}

// credMatchHelper: fn returns true only on the edge where a configured
// credential's User equals one parameter and its Password equals another
// (returned index: the password parameter), and false otherwise.
func credMatchHelper(fn *ssa.Function) (int, bool) {
	if fn == nil || fn.Blocks == nil || relPkg(fn) != s5Pkg || fn.Signature.Results().Len() != 1 {
		return 0, false
	}
	if bt, ok := fn.Signature.Results().At(0).Type().Underlying().(*types.Basic); !ok || bt.Kind() != types.Bool {
		return 0, false
	}
	paramOf := func(v ssa.Value) int {
		for _, l := range Leaves(v, nil) {
			for i, prm := range fn.Params {
				if ssa.Value(prm) == l {
					return i
				}
			}
		}
		return -1
	}
	pwIdx := -1
	good := true
	sawTrue := false
	instrs(fn, func(b *ssa.BasicBlock, _ int, in ssa.Instruction) {
		r, ok := in.(*ssa.Return)
		if !ok {
			return
		}
		k, isK := retVal(r, 0).(*ssa.Const)
		if !isK || k.Value == nil {
			good = false
			return
		}
		if k.Value.String() != "true" {
			return
		}
		userOK, pwOK := false, false
		for _, ce := range controllingEdges(b) {
			bo, ok := ce.If.Cond.(*ssa.BinOp)
			if !ok || bo.Op != token.EQL || ce.Idx != 0 {
				continue
			}
			for _, pair := range [][2]ssa.Value{{bo.X, bo.Y}, {bo.Y, bo.X}} {
				f := fieldOrigin(pair[0])
				if f == nil {
					continue
				}
				if f.Name() == "User" && paramOf(pair[1]) >= 0 {
					userOK = true
				}
				if f.Name() == "Password" && paramOf(pair[1]) >= 0 {
					pwOK = true
					pwIdx = paramOf(pair[1])
				}
			}
		}
		if userOK && pwOK {
			sawTrue = true
		} else {
			good = false
		}
	})
	return pwIdx, good && sawTrue && pwIdx >= 0
}


// r11_5: whether credentials are required is decided by
// len(IngressCredentials) > 0. The list is written once, by the code that
// turns the configuration into a listener (pkg/cli); the listener itself and
// everything else leave it alone. A "sanitising" pass inside socks5.New that
// drops entries it considers unusable makes a configuration with only such
// entries fail open (seed C11g).
func r11_5(c *RC) {
	p := c.P
	ing := p.Field(s5Pkg, "Auth", "IngressCredentials")
	if ing == nil {
		c.Anchor("socks5.Auth.IngressCredentials")
		return
	}
	n := 0
	for _, s := range p.FieldStores(ing) {
		if strings.HasSuffix(strings.SplitN(p.Pos(s.Pos()), ":", 2)[0], "_test.go") {
			continue
		}
		n++
		key := "credential-list-writer@" + fnName(s.Fn)
		if relPkg(s.Fn) == "pkg/cli" {
			c.OK(key, s.Pos(), "the daemon wiring (judged by R11.4)")
		} else {
			c.Bad(key, s.Pos(), "%s assigns Auth.IngressCredentials: the list that decides whether credentials are required is no longer the configured one (an emptied list means 'no authentication')", fnName(s.Fn))
		}
	}
	if n == 0 {
		c.Undecided("credential-list-writer", token.NoPos, "no assignment of Auth.IngressCredentials found at all")
	}
}
