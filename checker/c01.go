package main

import (
	"go/token"
	"go/types"
	"strings"

	"golang.org/x/tools/go/ssa"
)

func init() { register("C01", propC01) }

func propC01() *Property {
	return &Property{
		ID:         "C01",
		Decides:    "R01.1 the stream framing reads the TCP connection only through io.ReadFull / io.ReadAtLeast (every chunking of the byte stream); R01.2 every read size derives from the authenticated metadata (shared with R04.2); R01.3 one writer at a time and nonce order equals byte order: every Encrypt on the send cipher and every write of the connection in StreamUnderlay.writeOneSegment happens with sendMutex held, and each written buffer was filled by the Encrypt calls of the same critical section; R01.4 sequence numbers are assigned and queued under oLock (shared with R13.5) and the stream output loop keeps oLock across dequeue-and-transmit, so segments leave in sequence order; R01.5 every splitting loop (Session.Write's 32 KiB chunks, writeChunk's fragments, the TCP fragmentation of a wire buffer) sends consecutive sub-slices whose concatenation is its input: the slice sent and the advance use the same length and the cursor starts at the input; R01.6 segments are dispatched by the session id of the authenticated metadata, and the stream receive queue is fed only from the per-session channel; a full receive queue delays delivery but never drops: the only way waitForRecvQueueSpace reports 'no space' is the session being closed; R01.7 Session.Read hands out bytes as a consume loop over (kept tail, next segment of the in-order queue) under rLock: the tail that did not fit is kept at the offset copied and is handed out before any newer segment; R01.8 fragment sizes keep the encoded payload length within the uint16 field for every transport/mode (R14.2); R01.9 both directions advance the implicit nonce by exactly one per AEAD operation (R09.5); R01.10 sequence numbers are assigned under oLock and queued payloads are private copies (R13.5, R13.6).; R01.11 handshake parsers read the proxy connection itself, never through a read-ahead wrapper that is then dropped",
		NotDecided: "that the bytes read equal the bytes written (needs execution); goroutine schedules beyond the lock discipline; bookkeeping of partially consumed payloads in unreadBuf (value-level).",
		Rules: []Rule{
			{ID: "R01.1", Floor: 6, Text: "reads of StreamUnderlay.conn only via io.ReadFull/io.ReadAtLeast", Run: r01_1},
			{ID: "R01.2", Floor: 6, Text: "read sizes from authenticated metadata", Run: r04_2},
			{ID: "R01.3", Floor: 5, Text: "sendMutex covers Encrypt + write in StreamUnderlay.writeOneSegment", Run: r01_3},
			{ID: "R01.4", Floor: 2, Text: "runOutputOnceStream transmits with oLock held; closeWithError's direct transmission too", Run: r01_4},
			{ID: "R01.5", Floor: 3, Text: "splitting loops are consume loops", Run: r01_5},
			{ID: "R01.6", Floor: 3, Text: "dispatch key, single producer of recvQueue on TCP, no silent drop on a full queue", Run: r01_6},
			{ID: "R01.12", Floor: 4, Text: "Close after Write loses nothing that was written: a graceful close queues its close request behind the pending data before anything is discarded, in every live state (shared with R03.1)", Run: r03_1},
			{ID: "R01.11", Floor: 3, Text: "handshake parsers read the proxy connection itself, never through a read-ahead wrapper that is then dropped", Run: r01_11},
			{ID: "R01.7", Floor: 5, Text: "Session.Read is a consume loop: copy(b[n:], src); n += copied; src[copied:] kept in unreadBuf; older tail before newer segment; under rLock", Run: r01_7},
			{ID: "R01.8", Floor: 4, Text: "fragment sizes fit the length field (shared with R14.2)", Run: r14_2},
			{ID: "R01.9", Floor: 4, Text: "implicit nonce progression identical on both sides (shared with R09.5)", Run: r09_5},
			{ID: "R01.10", Floor: 5, Text: "sequence numbers assigned under oLock (shared with R13.5); queued payloads never alias the caller's buffer (shared with R13.6)", Run: func(c *RC) { r13_5(c); r13_6(c) }},
		},
	}
}

func r01_1(c *RC) {
	p := c.P
	conn := p.Field(protoPkg, "StreamUnderlay", "conn")
	if conn == nil {
		c.Anchor("StreamUnderlay.conn")
		return
	}
	for _, fn := range p.Funcs(protoPkg) {
		instrs(fn, func(_ *ssa.BasicBlock, _ int, in ssa.Instruction) {
			cl, ok := in.(ssa.CallInstruction)
			if !ok {
				return
			}
			id := calleeID(cl)
			switch {
			case id == "io.ReadFull" || id == "io.ReadAtLeast":
				if sameField(fieldOrigin(cl.Common().Args[0]), conn) {
					c.OK("conn-read@"+fnName(fn), in.Pos(), "%s on the TCP connection", strings.TrimPrefix(id, "io."))
				}
			case cl.Common().IsInvoke() && cl.Common().Method.Name() == "Read":
				if sameField(fieldOrigin(cl.Common().Value), conn) {
					c.Bad("conn-read@"+fnName(fn), in.Pos(), "%s calls conn.Read directly: TCP may deliver any prefix of what was asked for, so framing desynchronises at arbitrary chunk borders", fnName(fn))
				}
			case id == "io.Copy" || id == "io.ReadAll" || id == "io.CopyN":
				for _, a := range cl.Common().Args {
					if sameField(fieldOrigin(a), conn) {
						c.Bad("conn-read@"+fnName(fn), in.Pos(), "%s reads the framed connection with %s", fnName(fn), id)
					}
				}
			}
		})
	}
}

func r01_3(c *RC) {
	p := c.P
	fn := p.Fn(protoPkg, "StreamUnderlay.writeOneSegment")
	sm := p.Field(protoPkg, "baseUnderlay", "sendMutex")
	send := p.Field(protoPkg, "StreamUnderlay", "send")
	if fn == nil || sm == nil || send == nil {
		c.Anchor("StreamUnderlay.writeOneSegment / sendMutex / send")
		return
	}
	instrs(fn, func(_ *ssa.BasicBlock, _ int, in ssa.Instruction) {
		cl, ok := in.(ssa.CallInstruction)
		if !ok {
			return
		}
		if _, isDefer := in.(*ssa.Defer); isDefer {
			return
		}
		what := ""
		if cl.Common().IsInvoke() && cl.Common().Method.Name() == "Encrypt" && sameField(fieldOrigin(cl.Common().Value), send) {
			what = "Encrypt"
		}
		if _, ok := isConnWrite(p, in); ok {
			what = "conn.Write"
		}
		if n := calleeName(cl); n == "writeWithPossibleFragment" {
			what = "writeWithPossibleFragment"
		}
		if what == "" {
			return
		}
		key := "under-sendMutex:" + what
		if lockHeldAt(fn, in, sm) {
			c.OKH(key, in.Pos(), "%s with sendMutex held", what)
		} else {
			c.Bad(key, in.Pos(), "%s in StreamUnderlay.writeOneSegment without sendMutex held: two sessions multiplexed on the connection can interleave ciphertext or skew the implicit nonce counter", what)
		}
	})
	// every look at the send cipher (is this the first write? which nonce?)
	// is made under the lock as well
	instrs(fn, func(_ *ssa.BasicBlock, _ int, in ssa.Instruction) {
		u, ok := in.(*ssa.UnOp)
		if !ok || u.Op != token.MUL {
			return
		}
		if f, _ := fieldOfAddr(u.X); !sameField(f, send) {
			return
		}
		if lockHeldAt(fn, in, sm) {
			c.OK("send-cipher-read-under-sendMutex", in.Pos(), "t.send read with sendMutex held")
		} else {
			c.Bad("send-cipher-read-under-sendMutex", in.Pos(), "StreamUnderlay.writeOneSegment reads t.send before taking sendMutex: two sessions whose first segments race both conclude they write first (or neither does), the nonce is emitted twice or not at all and the peer's authentication fails for the whole connection")
		}
	})
	// the buffer written is the one the Encrypt calls of this invocation filled
	instrs(fn, func(_ *ssa.BasicBlock, _ int, in ssa.Instruction) {
		cl, ok := in.(ssa.CallInstruction)
		if !ok {
			return
		}
		var buf ssa.Value
		if _, ok := isConnWrite(p, in); ok {
			buf = cl.Common().Args[0]
		} else if calleeName(cl) == "writeWithPossibleFragment" {
			buf = cl.Common().Args[1]
		} else {
			return
		}
		root := sliceRoot(buf)
		n := 0
		instrs(fn, func(_ *ssa.BasicBlock, _ int, x ssa.Instruction) {
			if ec, ok := x.(*ssa.Call); ok && ec.Common().IsInvoke() && ec.Common().Method.Name() == "Encrypt" && sliceRoot(ec.Common().Args[0]) == root && instrDominates(x, in) {
				n++
			}
		})
		if n >= 1 {
			c.OKH("written-buffer", in.Pos(), "the buffer written was filled by %d Encrypt call(s) earlier in the same critical section", n)
		} else {
			c.Bad("written-buffer", in.Pos(), "the buffer written to the connection is not the one the preceding Encrypt calls filled")
		}
	})
	// writeWithPossibleFragment is only called from writeOneSegment (under the lock)
	wf := p.Fn(protoPkg, "StreamUnderlay.writeWithPossibleFragment")
	if wf != nil {
		for _, cs := range p.CallsToFn(wf) {
			if cs.Fn != fn {
				c.Bad("fragment-writer-caller", cs.Pos(), "writeWithPossibleFragment is called from %s outside the sendMutex critical section", fnName(cs.Fn))
			}
		}
	}
}

func r01_4(c *RC) {
	p := c.P
	ol := p.Field(protoPkg, "Session", "oLock")
	if ol == nil {
		c.Anchor("Session.oLock")
		return
	}
	for _, fname := range []string{"Session.runOutputOnceStream", "Session.closeWithError", "Session.inputClose"} {
		fn := p.Fn(protoPkg, fname)
		if fn == nil {
			c.Anchor(fname)
			continue
		}
		instrs(fn, func(_ *ssa.BasicBlock, _ int, in ssa.Instruction) {
			cl, ok := in.(*ssa.Call)
			if !ok || calleeName(cl) != "output" {
				return
			}
			key := "output-under-oLock@" + fname
			if lockHeldAt(fn, in, ol) {
				c.OKH(key, in.Pos(), "segment transmitted with oLock held")
			} else {
				c.Bad(key, in.Pos(), "%s transmits a segment without holding oLock: a segment written directly (e.g. the close request) can overtake data still in the send queue, or two transmitters interleave — the peer then sees end-of-stream or later bytes before earlier ones", fname)
			}
		})
	}
	// in runOutputOnceStream the dequeue and the transmit are in the same critical section
	fn := p.Fn(protoPkg, "Session.runOutputOnceStream")
	if fn != nil {
		var deq, out ssa.Instruction
		instrs(fn, func(_ *ssa.BasicBlock, _ int, in ssa.Instruction) {
			if cl, ok := in.(*ssa.Call); ok {
				switch calleeName(cl) {
				case "DeleteMin":
					deq = in
				case "output":
					out = in
				}
			}
		})
		if deq != nil && out != nil {
			// no Unlock on any path from dequeue to output
			unl := reachableAvoiding(fn, deq, func(x ssa.Instruction) bool {
				cl, ok := x.(ssa.CallInstruction)
				if !ok {
					return false
				}
				if _, isDefer := x.(*ssa.Defer); isDefer {
					return false
				}
				return calleeName(cl) == "Unlock" && len(cl.Common().Args) > 0 && sameField(fieldOrigin(cl.Common().Args[0]), ol)
			}, func(x ssa.Instruction) bool { return x == out })
			// an unlock reachable before output is fine only if output is then unreachable from it
			bad := false
			if unl != nil && reachableAvoiding(fn, unl, func(x ssa.Instruction) bool { return x == out }, func(x ssa.Instruction) bool {
				cl, ok := x.(ssa.CallInstruction)
				return ok && calleeName(cl) == "Lock"
			}) != nil {
				bad = true
			}
			if bad {
				c.Bad("dequeue-transmit-atomic", deq.Pos(), "oLock is released between taking a segment off the send queue and transmitting it")
			} else {
				c.OKH("dequeue-transmit-atomic", deq.Pos(), "DeleteMin and output(seg) are in one oLock critical section")
			}
		}
	}
}

// consumeLoop checks the pattern
//
//	for ... { send(cur[:k]) ; cur = cur[k:] }
//
// around a call that takes a slice argument: the slice passed must be
// cur[:k] (or cur[lo:lo+k] with lo advanced by k) of a cursor whose initial
// value is `input`, and the cursor's loop-carried value must be cur[k:] with
// the same k.
func consumeLoop(fn *ssa.Function, call ssa.CallInstruction, argIdx int) string {
	arg := call.Common().Args[argIdx]
	sl, ok := arg.(*ssa.Slice)
	if !ok {
		return "the data passed is not a sub-slice (" + describe(arg) + ")"
	}
	phi, ok := sl.X.(*ssa.Phi)
	if !ok {
		// cur[lo:hi] on a fixed base with lo a loop variable
		if sl.Low == nil {
			return "each iteration passes " + describe(sl) + ", a prefix of the same buffer: the loop does not advance through its input (every chunk after the first repeats the head; the real tail is never sent)"
		}
		lo, isPhi := sl.Low.(*ssa.Phi)
		if !isPhi {
			return "cannot recognise the cursor of " + describe(sl)
		}
		// hi must be lo + k and lo' = lo + k
		hb, ok := sl.High.(*ssa.BinOp)
		if !ok || hb.Op != token.ADD || (hb.X != ssa.Value(lo) && hb.Y != ssa.Value(lo)) {
			return "upper bound " + describe(sl.High) + " is not cursor + length"
		}
		k := hb.Y
		if hb.Y == ssa.Value(lo) {
			k = hb.X
		}
		adv := false
		for _, e := range lo.Edges {
			if bo, ok := e.(*ssa.BinOp); ok && bo.Op == token.ADD && ((bo.X == ssa.Value(lo) && bo.Y == k) || (bo.Y == ssa.Value(lo) && bo.X == k)) {
				adv = true
			}
		}
		if !adv {
			return "the cursor is not advanced by the length that was sent"
		}
		return ""
	}
	if sl.Low != nil {
		return "the slice sent does not start at the cursor"
	}
	k := sl.High
	if k == nil {
		return "the whole remainder is sent in a loop"
	}
	adv := false
	for _, e := range phi.Edges {
		if s2, ok := e.(*ssa.Slice); ok && s2.X == ssa.Value(phi) && s2.High == nil && s2.Low != nil {
			if s2.Low == k || describe(s2.Low) == describe(k) {
				adv = true
			}
		}
	}
	if !adv {
		return "the cursor is not advanced by exactly the length that was sent (sent " + describe(k) + ")"
	}
	return ""
}

func r01_5(c *RC) {
	p := c.P
	type site struct {
		fn     string
		callee string
		arg    int
		invoke bool
	}
	for _, s := range []site{
		{"Session.Write", "writeChunk", 1, false},
		{"StreamUnderlay.writeWithPossibleFragment", "Write", 0, true},
	} {
		fn := p.Fn(protoPkg, s.fn)
		if fn == nil {
			c.Anchor(s.fn)
			continue
		}
		found := false
		instrs(fn, func(b *ssa.BasicBlock, _ int, in ssa.Instruction) {
			cl, ok := in.(ssa.CallInstruction)
			if !ok {
				return
			}
			if s.invoke != cl.Common().IsInvoke() || calleeName(cl) != s.callee {
				return
			}
			if !reachesSelf(b) {
				return // not in a loop (the unfragmented single write)
			}
			found = true
			key := "consume-loop@" + s.fn
			if why := consumeLoop(fn, cl, s.arg); why == "" {
				c.OKH(key, in.Pos(), "sends cur[:k] and advances cur = cur[k:] with the same k")
			} else {
				c.Bad(key, in.Pos(), "%s: %s", s.fn, why)
			}
		})
		if !found {
			c.Undecided("consume-loop@"+s.fn, fn.Pos(), "no %s call inside a loop found", s.callee)
		}
	}
	// writeChunk: part := ptr[:partLen]; copy(seg.payload, part); ptr = ptr[partLen:]
	wc := p.Fn(protoPkg, "Session.writeChunk")
	if wc == nil {
		c.Anchor("Session.writeChunk")
		return
	}
	found := false
	instrs(wc, func(b *ssa.BasicBlock, _ int, in ssa.Instruction) {
		cl, ok := in.(*ssa.Call)
		if !ok || calleeNameAny(cl) != "copy" || !reachesSelf(b) {
			return
		}
		found = true
		key := "consume-loop@Session.writeChunk"
		if why := consumeLoop(wc, cl, 1); why == "" {
			// the payload buffer has the same length as the part
			c.OKH(key, in.Pos(), "each fragment copies ptr[:partLen] and advances ptr = ptr[partLen:]")
		} else {
			c.Bad(key, in.Pos(), "writeChunk: %s", why)
		}
	})
	if !found {
		c.Undecided("consume-loop@Session.writeChunk", wc.Pos(), "no payload copy inside the fragment loop found")
	}
	// the cursors start at the function's input
	for _, s := range []struct{ fn, param string }{{"Session.writeChunk", "b"}, {"StreamUnderlay.writeWithPossibleFragment", "dataToSend"}, {"Session.Write", "b"}} {
		fn := p.Fn(protoPkg, s.fn)
		if fn == nil {
			continue
		}
		ok := false
		instrs(fn, func(_ *ssa.BasicBlock, _ int, in ssa.Instruction) {
			if phi, isPhi := in.(*ssa.Phi); isPhi {
				if _, isSlice := phi.Type().Underlying().(*types.Slice); !isSlice {
					return
				}
				for _, e := range phi.Edges {
					if prm, isP := e.(*ssa.Parameter); isP && prm.Name() == s.param {
						ok = true
					}
				}
			}
			// index form: input[sent : sent+k] with sent starting at 0
			if sl, isSl := in.(*ssa.Slice); isSl {
				if prm, isP := sl.X.(*ssa.Parameter); isP && prm.Name() == s.param {
					if lo, isPhi := sl.Low.(*ssa.Phi); isPhi {
						for _, e := range lo.Edges {
							if isZero(e) {
								ok = true
							}
						}
					}
				}
			}
		})
		if ok {
			c.OK("cursor-start@"+s.fn, fn.Pos(), "the cursor starts at the input slice %s", s.param)
		} else {
			c.Bad("cursor-start@"+s.fn, fn.Pos(), "the splitting loop of %s does not start at its input %s", s.fn, s.param)
		}
	}
}

func r01_6(c *RC) {
	p := c.P
	// dispatch key
	for _, tn := range []string{"StreamUnderlay", "PacketUnderlay"} {
		fn := p.Fn(protoPkg, tn+".RunEventLoop")
		if fn == nil {
			c.Anchor(tn + ".RunEventLoop")
			continue
		}
		instrs(fn, func(_ *ssa.BasicBlock, _ int, in ssa.Instruction) {
			cl, ok := in.(*ssa.Call)
			if !ok || calleeID(cl) != "(*sync.Map).Load" {
				return
			}
			if f := fieldOrigin(cl.Common().Args[0]); f == nil || f.Name() != "sessionMap" {
				return
			}
			key := "dispatch-key@" + tn
			good := false
			for _, l := range Leaves(cl.Common().Args[1], nil) {
				if f := fieldOrigin(l); f != nil && f.Name() == "sessionID" {
					good = true
				}
			}
			if good {
				c.OKH(key, cl.Pos(), "session looked up by the sessionID of the segment's authenticated metadata")
			} else {
				c.Bad(key, cl.Pos(), "the event loop dispatches by %s, not by the authenticated session id", describe(cl.Common().Args[1]))
			}
		})
	}
	// recvQueue.Insert only in inputData / moveRecvBufToRecvQueue
	rq := p.Field(protoPkg, "Session", "recvQueue")
	for _, s := range p.FieldMethodCalls(rq, "Insert") {
		key := "recvQueue-producer@" + fnName(s.Fn)
		switch ownerName(p, s.Fn) {
		case "inputData", "moveRecvBufToRecvQueue":
			c.OK(key, s.Pos(), "fed by the session's input goroutine only")
		default:
			c.Bad(key, s.Pos(), "recvQueue is also filled from %s: two producers can reorder the stream", fnName(s.Fn))
		}
	}
	// waitForRecvQueueSpace: false only when closed
	wf := p.Fn(protoPkg, "Session.waitForRecvQueueSpace")
	if wf == nil {
		c.Anchor("Session.waitForRecvQueueSpace")
		return
	}
	instrs(wf, func(b *ssa.BasicBlock, _ int, in ssa.Instruction) {
		r, ok := in.(*ssa.Return)
		if !ok || len(r.Results) != 1 {
			return
		}
		k, isK := retVal(r, 0).(*ssa.Const)
		if !isK || k.Value == nil || k.Value.String() != "false" {
			return
		}
		key := "no-space-means-closed"
		// the return is reached only when the session is closed: through the
		// closedChan case of a select, or through the "closed" answer of a
		// helper that is nothing but that poll
		good := false
		edges := controllingEdges(b)
		for _, pred := range b.Preds {
			if iff, ok := pred.Instrs[len(pred.Instrs)-1].(*ssa.If); ok && len(b.Preds) == 1 {
				idx := 1
				if pred.Succs[0] == b {
					idx = 0
				}
				edges = append(edges, condEdge{iff, idx})
			}
		}
		for _, e := range edges {
			if f := selectCaseChan(e); f != nil && f.Name() == "closedChan" {
				good = true
			}
			atom, neg := condAtom(e.If.Cond)
			if cl, ok := atom.(*ssa.Call); ok && (e.Idx == 0) != neg && pollHelperTrueOn(cl, "closedChan") {
				good = true
			}
		}
		if good {
			c.OKH(key, r.Pos(), "returns false only on the closedChan case")
		} else {
			c.Bad(key, r.Pos(), "waitForRecvQueueSpace can report 'no space' for a reason other than the session being closed; on TCP the caller then drops an already decrypted segment silently, leaving a hole in the stream")
		}
	})
}

// r01_7: the consumer side. Session.Read hands payload bytes to the
// application with builtin copy; what did not fit must be kept, at the right
// offset, and must be handed out before anything newer.
func r01_7(c *RC) {
	p := c.P
	fn := p.Fn(protoPkg, "Session.Read")
	ub := p.Field(protoPkg, "Session", "unreadBuf")
	rq := p.Field(protoPkg, "Session", "recvQueue")
	rl := p.Field(protoPkg, "Session", "rLock")
	pl := p.Field(protoPkg, "segment", "payload")
	if fn == nil || ub == nil || rq == nil || rl == nil || pl == nil {
		c.Anchor("Session.Read / unreadBuf / recvQueue / rLock / segment.payload")
		return
	}
	// single owner of unreadBuf
	for _, s := range p.FieldStores(ub) {
		if s.Fn != fn {
			c.Bad("unreadBuf-owner@"+fnName(s.Fn), s.Pos(), "%s writes Session.unreadBuf; only Session.Read (under rLock) may", fnName(s.Fn))
		}
	}
	isLoadOf := func(v ssa.Value, f *types.Var) bool {
		u, ok := v.(*ssa.UnOp)
		if !ok || u.Op != token.MUL {
			return false
		}
		g, _ := fieldOfAddr(u.X)
		return sameField(g, f)
	}
	// the count variable: named result n (spilled) or a phi
	sameVar := func(a, b ssa.Value) bool {
		if a == b {
			return true
		}
		ua, ok1 := a.(*ssa.UnOp)
		ubb, ok2 := b.(*ssa.UnOp)
		return ok1 && ok2 && ua.Op == token.MUL && ubb.Op == token.MUL && ua.X == ubb.X
	}
	ncopy := 0
	instrs(fn, func(b *ssa.BasicBlock, i int, in ssa.Instruction) {
		cl, ok := in.(*ssa.Call)
		if !ok || calleeNameAny(cl) != "copy" {
			return
		}
		ncopy++
		dst, src := cl.Call.Args[0], cl.Call.Args[1]
		kind := ""
		switch {
		case isLoadOf(src, ub):
			kind = "unreadBuf"
		case isLoadOf(src, pl):
			kind = "payload"
		default:
			c.Bad("read-copy-source", in.Pos(), "Session.Read copies %s to the application: neither the kept tail nor the payload of the segment taken from the receive queue", describe(src))
			return
		}
		key := "read-consume:" + kind
		var problems []string
		// dst == b[n:]
		ds, ok := dst.(*ssa.Slice)
		if !ok || ds.High != nil || ds.Low == nil {
			problems = append(problems, "destination is not b[n:]")
		} else if prm, isP := ds.X.(*ssa.Parameter); !isP || prm.Name() != "b" {
			problems = append(problems, "destination is not a suffix of the caller's buffer")
		}
		// n = n + copied, in the same block after the copy
		adv := false
		if ds != nil && ds.Low != nil {
			for _, x := range b.Instrs[i+1:] {
				bo, ok := x.(*ssa.BinOp)
				if ok && bo.Op == token.ADD && ((bo.Y == ssa.Value(cl) && sameVar(bo.X, ds.Low)) || (bo.X == ssa.Value(cl) && sameVar(bo.Y, ds.Low))) {
					for _, r := range *bo.Referrers() {
						if st, ok := r.(*ssa.Store); ok {
							if lu, ok := ds.Low.(*ssa.UnOp); ok && st.Addr == lu.X {
								adv = true
							}
						}
						if _, ok := r.(*ssa.Phi); ok {
							adv = true
						}
					}
				}
			}
		}
		if !adv {
			problems = append(problems, "the write offset n is not advanced by the number of bytes copied")
		}
		// the remainder. guard classifies the controlling edges a store has in
		// addition to those of the copy: "" none, "part" (copied < len(src)),
		// "all" (copied == len(src)), "other" anything else.
		srcField := ub
		if kind == "payload" {
			srcField = pl
		}
		base := map[condEdge]bool{}
		for _, ce := range controllingEdges(b) {
			base[ce] = true
		}
		guard := func(sb *ssa.BasicBlock) string {
			g := ""
			for _, ce := range controllingEdges(sb) {
				if base[ce] || !b.Dominates(ce.If.Block()) {
					continue
				}
				bo, ok := ce.If.Cond.(*ssa.BinOp)
				if !ok {
					return "other"
				}
				x, y, op := bo.X, bo.Y, bo.Op
				if isLenOf(x, srcField) && y == ssa.Value(cl) { // len(src) OP copied -> copied OP' len(src)
					x, y = y, x
					switch op {
					case token.GTR:
						op = token.LSS
					case token.LEQ:
						op = token.GEQ
					case token.LSS:
						op = token.GTR
					case token.GEQ:
						op = token.LEQ
					}
				}
				if x != ssa.Value(cl) || !isLenOf(y, srcField) {
					return "other"
				}
				k := "other"
				switch {
				case (op == token.LSS || op == token.NEQ) && ce.Idx == 0, (op == token.GEQ || op == token.EQL) && ce.Idx == 1:
					k = "part"
				case (op == token.LSS || op == token.NEQ) && ce.Idx == 1, (op == token.GEQ || op == token.EQL) && ce.Idx == 0:
					k = "all"
				}
				if g != "" && g != k {
					return "other"
				}
				g = k
			}
			return g
		}
		keep, clear, keepGuarded := false, false, false
		for _, s := range p.FieldStores(ub) {
			if s.Fn != fn || !b.Dominates(s.Instr.Block()) {
				continue
			}
			st := s.Instr.(*ssa.Store)
			g := guard(st.Block())
			if sl, ok := st.Val.(*ssa.Slice); ok && sl.Low == ssa.Value(cl) && sl.High == nil && isLoadOf(sl.X, srcField) {
				if g == "" || g == "part" {
					keep = true
					keepGuarded = g == "part"
				}
			}
			if kind == "unreadBuf" && isNilConst(st.Val) && g == "all" {
				clear = true
			}
		}
		if kind == "unreadBuf" && !keepGuarded {
			clear = true // unreadBuf = unreadBuf[copied:] unconditionally leaves an empty slice
		}
		if !keep {
			problems = append(problems, "the part of the "+kind+" that did not fit (src[copied:]) is not kept in unreadBuf")
		}
		if kind == "unreadBuf" && !clear {
			problems = append(problems, "unreadBuf is not cleared exactly when it was copied completely")
		}
		if len(problems) == 0 {
			c.OKH(key, in.Pos(), "copy(b[n:], %s); n += copied; remainder %s[copied:] kept", kind, kind)
		} else {
			c.Bad(key, in.Pos(), "Session.Read: %s — bytes are lost, duplicated or reordered when the application's buffer is smaller than a segment", strings.Join(problems, "; "))
		}
	})
	if ncopy < 2 {
		c.Undecided("read-consume", fn.Pos(), "expected a copy from unreadBuf and one from the dequeued payload, found %d", ncopy)
	}
	// the queue is consulted only when nothing older is pending, and under rLock
	instrs(fn, func(b *ssa.BasicBlock, _ int, in ssa.Instruction) {
		cl, ok := in.(*ssa.Call)
		if !ok || calleeName(cl) != "DeleteMin" || !sameField(fieldOrigin(cl.Call.Args[0]), rq) {
			return
		}
		// every segment taken off the queue has its payload handed out:
		// from the ok edge no path reaches the next dequeue or a return
		// without the copy of that segment's payload
		var okSucc *ssa.BasicBlock
		for _, r := range *cl.Referrers() {
			if ex, isEx := r.(*ssa.Extract); isEx && ex.Index == 1 {
				for _, r2 := range *ex.Referrers() {
					if iff, isIf := r2.(*ssa.If); isIf {
						okSucc = iff.Block().Succs[0]
					}
				}
			}
		}
		if okSucc == nil {
			c.Undecided("dequeued-payload-delivered", in.Pos(), "cannot find the ok edge of recvQueue.DeleteMin")
		} else {
			isPayloadCopy := func(x ssa.Instruction) bool {
				xc, ok := x.(*ssa.Call)
				return ok && calleeNameAny(xc) == "copy" && isLoadOf(xc.Call.Args[1], pl)
			}
			var hit ssa.Instruction
			if first := okSucc.Instrs[0]; isPayloadCopy(first) {
				hit = nil
			} else {
				hit = reachableAvoiding(fn, first, func(x ssa.Instruction) bool {
					if isReturn(x) {
						return true
					}
					xc, ok := x.(*ssa.Call)
					return ok && calleeName(xc) == "DeleteMin"
				}, isPayloadCopy)
			}
			if hit == nil {
				c.OKH("dequeued-payload-delivered", in.Pos(), "every path from a successful dequeue to the next dequeue or a return copies that segment's payload")
			} else {
				c.Bad("dequeued-payload-delivered", in.Pos(), "Session.Read can take a segment off the receive queue and move on (%s) without handing its payload to the application: authenticated bytes the peer sent (e.g. the payload piggybacked on an open session response) are silently dropped", p.Pos(hit.Pos()))
			}
		}
		if lockHeldAt(fn, in, rl) {
			c.OKH("dequeue-under-rLock", in.Pos(), "recvQueue.DeleteMin with rLock held")
		} else {
			c.Bad("dequeue-under-rLock", in.Pos(), "Session.Read takes a segment off the receive queue without rLock: two readers can interleave")
		}
		// the first ancestor with several predecessors is the join whose
		// incoming edges we test
		join := b
		for len(join.Preds) == 1 {
			join = join.Preds[0]
		}
		var bad []string
		for _, pred := range join.Preds {
			iff, ok := pred.Instrs[len(pred.Instrs)-1].(*ssa.If)
			okEdge := false
			if ok && pred.Succs[1] == join {
				if bo, ok := iff.Cond.(*ssa.BinOp); ok && bo.Op == token.GTR && isLenOf(bo.X, ub) {
					if k, isK := constInt(bo.Y); isK && k == 0 {
						// no store to unreadBuf between the load and the branch
						okEdge = true
						ld := bo.X.(*ssa.Call).Call.Args[0].(*ssa.UnOp)
						for _, x := range pred.Instrs[instrIndex(ld):] {
							if st, ok := x.(*ssa.Store); ok {
								if g, _ := fieldOfAddr(st.Addr); sameField(g, ub) {
									okEdge = false
								}
							}
						}
						if ld.Block() != pred {
							okEdge = false
						}
					}
				}
			}
			if !okEdge {
				bad = append(bad, "edge from block "+fmtInt(pred.Index))
			}
		}
		if len(join.Preds) == 0 {
			bad = append(bad, "no guard found")
		}
		if len(bad) == 0 {
			c.OKH("older-bytes-first", in.Pos(), "the receive queue is consulted only on edges where len(unreadBuf) > 0 is false (%d edges)", len(join.Preds))
		} else {
			c.Bad("older-bytes-first", in.Pos(), "Session.Read can take a new segment while an older tail is still in unreadBuf (%s): the tail is overwritten or delivered after newer bytes", strings.Join(bad, ", "))
		}
	})
}

// isLenOf: v is len(<load of field f>).
func isLenOf(v ssa.Value, f *types.Var) bool {
	cl, ok := v.(*ssa.Call)
	if !ok {
		return false
	}
	b, ok := cl.Call.Value.(*ssa.Builtin)
	if !ok || b.Name() != "len" {
		return false
	}
	u, ok := cl.Call.Args[0].(*ssa.UnOp)
	if !ok || u.Op != token.MUL {
		return false
	}
	g, _ := fieldOfAddr(u.X)
	return sameField(g, f)
}

// r01_11: the SOCKS5 messages exchanged over a proxy connection before it is
// handed to the application are parsed from the connection itself. A
// buffering reader created for one message (bufio.NewReader(conn)) swallows
// whatever followed it in the same TCP read and is then thrown away with
// those bytes (seed C01c).
func r01_11(c *RC) {
	p := c.P
	for _, fn := range p.Funcs("apis/internal", "apis/client", "apis/server", "apis/common", "pkg/socks5", "pkg/protocol") {
		instrs(fn, func(_ *ssa.BasicBlock, _ int, in ssa.Instruction) {
			cl, ok := in.(ssa.CallInstruction)
			if !ok {
				return
			}
			id := calleeID(cl)
			if strings.HasPrefix(id, "bufio.NewReader") || strings.HasPrefix(id, "bufio.NewReadWriter") || strings.HasPrefix(id, "bufio.NewScanner") {
				// allowed only if the wrapper replaces the connection: it is stored in a struct field or returned
				kept := false
				if v := cl.Value(); v != nil {
					for _, r := range *v.Referrers() {
						switch y := r.(type) {
						case *ssa.Store:
							if _, isField := y.Addr.(*ssa.FieldAddr); isField {
								kept = true
							}
						case *ssa.Return:
							kept = true
						}
					}
				}
				key := "read-ahead-wrapper@" + fnName(fn)
				if kept {
					c.OK(key, in.Pos(), "buffered reader kept as the connection's reader")
				} else {
					c.Bad(key, in.Pos(), "%s wraps a connection in a throw-away %s: bytes the peer sent right after the message being parsed are read into the wrapper's buffer and lost when it is dropped", fnName(fn), strings.TrimPrefix(id, "bufio."))
				}
			}
			// positive inventory: the parsers' reader arguments
			name := calleeName(cl)
			if (name == "ReadFromSocks5" || id == "io.ReadFull" || id == "io.ReadAtLeast") && (relPkg(fn) == "apis/internal" || relPkg(fn) == "apis/client" || relPkg(fn) == "apis/server") {
				args := cl.Common().Args
				var rd ssa.Value
				if name == "ReadFromSocks5" && len(args) >= 2 {
					rd = args[1]
				} else if len(args) >= 1 {
					rd = args[0]
				}
				if rd == nil {
					return
				}
				key := "parser-reads-connection@" + fnName(fn)
				wrapped := false
				for _, l := range Leaves(rd, nil) {
					if wc, ok := l.(*ssa.Call); ok && strings.HasPrefix(calleeID(wc), "bufio.") {
						wrapped = true
					}
				}
				if wrapped {
					c.Bad(key, in.Pos(), "%s parses a handshake message through a buffering wrapper (%s)", fnName(fn), describe(rd))
				} else {
					c.OK(key, in.Pos(), "%s reads from %s", name, describe(rd))
				}
			}
		})
	}
}
