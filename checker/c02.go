package main

import (
	"go/constant"
	"go/token"
	"go/types"
	"sort"
	"strings"

	"golang.org/x/tools/go/ssa"
)

func init() { register("C02", propC02) }

func propC02() *Property {
	return &Property{
		ID:         "C02",
		Decides:    "the structure of the reliable-UDP machinery on every path the compiler can build. R02.1 the sender forgets a segment only under the peer's cumulative ack and inserts it in sendBuf before the first transmission (R13.3); R02.2 the receiver releases segments only at nextRecv, one at a time, and every ack field is a fresh load of nextRecv (R13.1, R13.2); R02.3 the peer's window is learned from every ack and every data segment: in inputAck every successful return of the datagram case is dominated by remoteWindowSize.Store(das.windowSize), in inputData that store is conditional only on the segment being a data/ack segment; R02.4 every data datagram, including duplicates and out-of-window ones, schedules an ack (ackOnDataRecv.Store(true) is unconditional in the datagram case and precedes every drop); R02.5 the ack/heartbeat decision is reached by every invocation of the output step that is not in the output-error state and is gated only by {session opening, ack requested, heartbeat interval} - never by a send or congestion window; the ack carries nextRecv and receiveWindowSize(); R02.6 retransmission: the sendBuf scan is gated only by the retransmission timer, never consults a window, retransmits on timeout, and the duplicate-ack trigger is bounded per segment (an Explorer run shows no path to a transmission with 'dup-ack threshold reached' true, 'within the early-retransmission limit' false and 'timed out' false), so duplicate acks cannot burn the 20-transmission budget; R02.7 only data is deferred while the client waits for the open response (isDataProtocol folded over all 16 protocol numbers is true exactly for the four data protocols; the deferral test returns false unless isClientPacketSessionOpening), and the open response moves the session to established and wakes the sender; R02.9 the congestion window can never reach 0: every write of it is the minimum or is clamped before the function returns, the clamp raises small values, the session's minimum is the positive constant 16, and the send window depends only on congestion window, in-flight count and the peer's window; R02.8 datagram authentication: delivered payloads are AEAD outputs, a bad datagram is discarded without touching the session (R04.1, R04.5).; R02.10 the datagram receive buffer is a constant-size buffer of at least the maximum supported MTU (1500), independent of the local MTU",
		NotDecided: "liveness under a fair-lossy network as such (a temporal property over histories: needs a model, not this family); timer values and RTO arithmetic; cubic's window evolution; the segment tree's ordering; sequence wrap-around.",
		Rules: []Rule{
			{ID: "R02.1", Floor: 2, Text: "sendBuf deletions only under the peer's ack; Insert dominates output (shared with R13.3)", Run: r13_3},
			{ID: "R02.2", Floor: 5, Text: "in-order release at nextRecv; acks carry nextRecv (shared with R13.1, R13.2)", Run: func(c *RC) { r13_1(c); r13_2(c) }},
			{ID: "R02.3", Floor: 3, Text: "peer window learned from every ack and data segment", Run: r02_3},
			{ID: "R02.4", Floor: 1, Text: "every received data datagram schedules an ack", Run: r02_4},
			{ID: "R02.5", Floor: 3, Text: "ack/heartbeat decision always reached, gated only by opening/ack-requested/heartbeat", Run: r02_5},
			{ID: "R02.6", Floor: 6, Text: "retransmission: timer-gated scan, no window, timeout trigger present, duplicate-ack trigger bounded per segment", Run: r02_6},
			{ID: "R02.7", Floor: 5, Text: "only data is deferred during open; open response establishes and wakes the sender", Run: r02_7},
			{ID: "R02.9", Floor: 6, Text: "the congestion window cannot close: every write is the minimum or is clamped by inRange; positive constant minimum; sendWindowSize inputs", Run: r02_9},
			{ID: "R02.11", Floor: 3, Text: "every segment Session.input accepts refreshes lastRXTime before it is dispatched (acks and heartbeats keep an idle direction alive)", Run: r02_11},
			{ID: "R02.10", Floor: 1, Text: "the datagram receive buffer holds the largest datagram a conforming peer may send (the maximum supported MTU), whatever the local MTU", Run: r02_10},
			{ID: "R02.8", Floor: 8, Text: "datagram authentication and discard (shared with R04.1, R04.5)", Run: func(c *RC) { r04_1(c); r04_5(c) }},
		},
	}
}

// packetCaseEdge: the controlling edge "s.transportProtocol == PacketTransport".
func isTransportCase(p *Prog, ce condEdge, name string) bool {
	bo, ok := ce.If.Cond.(*ssa.BinOp)
	if !ok || bo.Op != token.EQL || ce.Idx != 0 {
		return false
	}
	f := fieldOrigin(bo.X)
	if f == nil || f.Name() != "transportProtocol" {
		return false
	}
	k, ok := bo.Y.(*ssa.Const)
	if !ok {
		return false
	}
	obj := p.Const("pkg/common", name)
	if obj == nil {
		return false
	}
	kc, ok := obj.(*types.Const)
	return ok && k.Value != nil && kc.Val().String() == k.Value.String()
}

// isNotTransportCase: the controlling edge "s.transportProtocol != X" (true
// edge) or "== X" (false edge).
func isNotTransportCase(p *Prog, ce condEdge, name string) bool {
	bo, ok := ce.If.Cond.(*ssa.BinOp)
	if !ok {
		return false
	}
	if !((bo.Op == token.NEQ && ce.Idx == 0) || (bo.Op == token.EQL && ce.Idx == 1)) {
		return false
	}
	f := fieldOrigin(bo.X)
	if f == nil || f.Name() != "transportProtocol" {
		return false
	}
	k, ok := bo.Y.(*ssa.Const)
	if !ok {
		return false
	}
	kc, ok := p.Const("pkg/common", name).(*types.Const)
	return ok && k.Value != nil && kc.Val().String() == k.Value.String()
}

func r02_3(c *RC) {
	p := c.P
	rw := p.Field(protoPkg, "Session", "remoteWindowSize")
	ws := p.Field(protoPkg, "dataAckStruct", "windowSize")
	if rw == nil || ws == nil {
		c.Anchor("Session.remoteWindowSize / dataAckStruct.windowSize")
		return
	}
	// helperStores: a Session method that records the window of the segment
	// it is given on every path (the loop that removes acknowledged segments
	// followed by the store, extracted from inputData/inputAck)
	helperStores := func(h *ssa.Function) bool {
		if h == nil || h.Blocks == nil || relPkg(h) != protoPkg {
			return false
		}
		var st ssa.Instruction
		instrs(h, func(_ *ssa.BasicBlock, _ int, in ssa.Instruction) {
			if n, cl := atomicCallOn(in, rw); n == "Store" {
				for _, l := range Leaves(cl.Common().Args[1], nil) {
					if sameField(fieldOrigin(l), ws) {
						st = in
					}
				}
			}
		})
		if st == nil {
			return false
		}
		return reachableAvoiding(h, h.Blocks[0].Instrs[0], isReturn, func(x ssa.Instruction) bool { return x == st }) == nil || st == h.Blocks[0].Instrs[0]
	}
	storeOf := func(fn *ssa.Function) []ssa.Instruction {
		var out []ssa.Instruction
		instrs(fn, func(_ *ssa.BasicBlock, _ int, in ssa.Instruction) {
			if cl, ok := in.(*ssa.Call); ok && fn != cl.Call.StaticCallee() && helperStores(cl.Call.StaticCallee()) {
				out = append(out, in)
				return
			}
			if n, cl := atomicCallOn(in, rw); n == "Store" {
				ok := false
				for _, l := range Leaves(cl.Common().Args[1], nil) {
					if sameField(fieldOrigin(l), ws) {
						ok = true
					}
				}
				if _, isK := cl.Common().Args[1].(*ssa.Const); isK && strings.HasPrefix(fn.Name(), "newSession") {
					c.OK("window-initial@"+fnName(fn), in.Pos(), "initial window of a fresh session is the constant %s", describe(cl.Common().Args[1]))
					return
				}
				if ok {
					out = append(out, in)
				} else {
					c.Bad("window-store-value@"+fnName(fn), in.Pos(), "remoteWindowSize is set from %s, not from the windowSize field of a received segment", describe(cl.Common().Args[1]))
				}
			}
		})
		return out
	}
	// every store anywhere takes the value from a received segment
	for _, fn := range p.Funcs(protoPkg) {
		switch fn.Name() {
		case "inputAck", "inputData":
		default:
			for _, st := range storeOf(fn) {
				c.OK("window-store@"+fnName(fn), st.Pos(), "remoteWindowSize from a received segment's windowSize")
			}
		}
	}
	// inputAck
	ia := p.Fn(protoPkg, "Session.inputAck")
	if ia == nil {
		c.Anchor("Session.inputAck")
	} else {
		sts := storeOf(ia)
		n := 0
		instrs(ia, func(b *ssa.BasicBlock, _ int, in ssa.Instruction) {
			r, ok := in.(*ssa.Return)
			if !ok || !retIsNil(r, 0) {
				return
			}
			stream := false
			for _, ce := range controllingEdges(b) {
				if isTransportCase(p, ce, "StreamTransport") || isNotTransportCase(p, ce, "PacketTransport") {
					stream = true
				}
			}
			if stream {
				return
			}
			n++
			dom := false
			for _, st := range sts {
				if instrDominates(st, in) {
					dom = true
				}
			}
			if dom {
				c.OKH("ack-updates-window", in.Pos(), "successful return of the datagram case is dominated by remoteWindowSize.Store(das.windowSize)")
			} else {
				c.Bad("ack-updates-window", in.Pos(), "inputAck can return successfully for a datagram ack without recording the window it advertises: a sender whose window was closed (and whose sendBuf is therefore empty) never learns that it reopened and stalls")
			}
		})
		if n == 0 {
			c.Undecided("ack-updates-window", ia.Pos(), "no successful return of the datagram case found")
		}
	}
	// inputData
	id := p.Fn(protoPkg, "Session.inputData")
	if id == nil {
		c.Anchor("Session.inputData")
		return
	}
	sts := storeOf(id)
	if len(sts) == 0 {
		c.Bad("data-updates-window", id.Pos(), "inputData no longer records the window advertised on data segments")
	}
	for _, st := range sts {
		var extra []string
		for _, ce := range controlConds(id, st.Block()) {
			if isTransportCase(p, ce, "PacketTransport") {
				continue
			}
			// the comma-ok of the metadata type assertion
			if ex, ok := ce.If.Cond.(*ssa.Extract); ok && ce.Idx == 0 {
				if _, ok := ex.Tuple.(*ssa.TypeAssert); ok {
					continue
				}
			}
			// `switch` lowering: not-StreamTransport edge
			if bo, ok := ce.If.Cond.(*ssa.BinOp); ok && bo.Op == token.EQL && ce.Idx == 1 {
				if f := fieldOrigin(bo.X); f != nil && f.Name() == "transportProtocol" {
					continue
				}
			}
			extra = append(extra, describe(ce.If.Cond))
		}
		if len(extra) == 0 {
			c.OKH("data-updates-window", st.Pos(), "conditional only on the datagram case and on the segment carrying a dataAckStruct")
		} else {
			c.Bad("data-updates-window", st.Pos(), "the window carried by data segments is recorded only under %s", strings.Join(extra, ", "))
		}
	}
}

func r02_4(c *RC) {
	p := c.P
	id := p.Fn(protoPkg, "Session.inputData")
	ao := p.Field(protoPkg, "Session", "ackOnDataRecv")
	if id == nil || ao == nil {
		c.Anchor("Session.inputData / ackOnDataRecv")
		return
	}
	n := 0
	instrs(id, func(b *ssa.BasicBlock, _ int, in ssa.Instruction) {
		name, cl := atomicCallOn(in, ao)
		if name != "Store" {
			return
		}
		if k, ok := cl.Common().Args[1].(*ssa.Const); !ok || k.Value == nil || k.Value.String() != "true" {
			return
		}
		n++
		var extra []string
		for _, ce := range controlConds(id, b) {
			if isTransportCase(p, ce, "PacketTransport") {
				continue
			}
			if bo, ok := ce.If.Cond.(*ssa.BinOp); ok && bo.Op == token.EQL && ce.Idx == 1 {
				if f := fieldOrigin(bo.X); f != nil && f.Name() == "transportProtocol" {
					continue
				}
			}
			extra = append(extra, describe(ce.If.Cond))
		}
		// no return of the datagram case before it
		early := false
		instrs(id, func(rb *ssa.BasicBlock, _ int, x ssa.Instruction) {
			if _, ok := x.(*ssa.Return); !ok {
				return
			}
			pk := false
			for _, ce := range controllingEdges(rb) {
				if isTransportCase(p, ce, "PacketTransport") {
					pk = true
				}
			}
			if pk && !instrDominates(in, x) {
				early = true
			}
		})
		switch {
		case len(extra) > 0:
			c.Bad("data-schedules-ack", in.Pos(), "an ack is requested only under %s: a duplicate or out-of-window datagram is then never acknowledged and the peer retransmits until it gives up", strings.Join(extra, ", "))
		case early:
			c.Bad("data-schedules-ack", in.Pos(), "the datagram case of inputData can return before requesting an ack")
		default:
			c.OKH("data-schedules-ack", in.Pos(), "ackOnDataRecv.Store(true) is unconditional in the datagram case and dominates all its returns")
		}
	})
	if n == 0 {
		c.Bad("data-schedules-ack", id.Pos(), "inputData never requests an ack for received data")
	}
}

// condVocabulary classifies the leaves of a branch condition.
func condVocab(v ssa.Value, classify func(ssa.Value) string) []string {
	set := map[string]bool{}
	var walk func(v ssa.Value, d int)
	walk = func(v ssa.Value, d int) {
		if d > 12 {
			set["?deep"] = true
			return
		}
		if k := classify(v); k != "" {
			set[k] = true
			return
		}
		switch x := v.(type) {
		case *ssa.Const:
		case *ssa.BinOp:
			walk(x.X, d+1)
			walk(x.Y, d+1)
		case *ssa.UnOp:
			walk(x.X, d+1)
		case *ssa.Phi:
			for _, e := range x.Edges {
				walk(e, d+1)
			}
			// a boolean phi (&&, ||) also depends on the conditions that select its edges
			for _, pr := range x.Block().Preds {
				if iff, ok := pr.Instrs[len(pr.Instrs)-1].(*ssa.If); ok {
					walk(iff.Cond, d+1)
				}
			}
		case *ssa.Convert:
			walk(x.X, d+1)
		case *ssa.ChangeType:
			walk(x.X, d+1)
		case *ssa.Extract:
			walk(x.Tuple, d+1)
		default:
			set["?"+describe(v)] = true
		}
	}
	walk(v, 0)
	var out []string
	for k := range set {
		out = append(out, k)
	}
	sort.Strings(out)
	return out
}

func r02_5(c *RC) {
	p := c.P
	fn := p.Fn(protoPkg, "Session.runOutputOncePacket")
	if fn == nil {
		c.Anchor("Session.runOutputOncePacket")
		return
	}
	// the ack segment: a dataAckStruct literal whose protocol is ack*; find the
	// output call that transmits it - in runOutputOncePacket or in a stage
	// helper it calls (then the call sites leading there are part of the gate)
	var ackOut *ssa.Call
	for _, f := range withHelpers(p, fn, 2) {
		instrs(f, func(_ *ssa.BasicBlock, _ int, in ssa.Instruction) {
			cl, ok := in.(*ssa.Call)
			if !ok || calleeName(cl) != "output" {
				return
			}
			if al, ok := cl.Call.Args[1].(*ssa.Alloc); ok && strings.Contains(al.Type().String(), "segment") {
				ackOut = cl
			}
		})
	}
	if ackOut == nil {
		c.Bad("ack-site", fn.Pos(), "runOutputOncePacket no longer builds and transmits an ack segment")
		return
	}
	ackFn := ackOut.Parent()
	chain, okChain := callChain(p, fn, ackFn, 2)
	if !okChain {
		c.Undecided("ack-site", ackOut.Pos(), "the ack is transmitted in %s, which is not reached from runOutputOncePacket through one static call site per level", fnName(ackFn))
		return
	}
	classify := func(v ssa.Value) string {
		if cl, ok := v.(*ssa.Call); ok {
			switch calleeName(cl) {
			case "isClientPacketSessionOpening":
				return "session-opening"
			case "Load":
				if f := fieldOrigin(cl.Call.Args[0]); f != nil {
					switch f.Name() {
					case "ackOnDataRecv":
						return "ack-requested"
					case "lastTXTime":
						return "heartbeat"
					case "outputHasErr":
						return "output-error"
					}
					return "?load:" + f.Name()
				}
			case "UnixMicro", "Now", "Microseconds":
				return "heartbeat"
			case "sendWindowSize", "CongestionWindowSize", "receiveWindowSize", "Len", "Remaining":
				return "?window:" + calleeName(cl)
			}
			return "?call:" + calleeName(cl)
		}
		if u, ok := v.(*ssa.UnOp); ok && u.Op == token.MUL {
			if f := fieldOrigin(u); f != nil && f.Name() == "heartbeatJitter" {
				return "heartbeat"
			}
		}
		return ""
	}
	var vocab []string
	seenV := map[string]bool{}
	gatePoints := append([]ssa.Instruction{}, chain...)
	gatePoints = append(gatePoints, ackOut)
	for _, gp := range gatePoints {
		for _, ce := range controlConds(gp.Parent(), gp.Block()) {
			for _, k := range condVocab(ce.If.Cond, classify) {
				if !seenV[k] {
					seenV[k] = true
					vocab = append(vocab, k)
				}
			}
		}
	}
	sort.Strings(vocab)
	var foreign []string
	for _, k := range vocab {
		if strings.HasPrefix(k, "?") {
			foreign = append(foreign, k[1:])
		}
	}
	if len(foreign) == 0 && seenV["ack-requested"] && seenV["heartbeat"] {
		c.OKH("ack-gate-vocabulary", ackOut.Pos(), "the ack is gated only by {%s}", strings.Join(vocab, ", "))
	} else {
		c.Bad("ack-gate-vocabulary", ackOut.Pos(), "the ack/heartbeat transmission depends on %v (vocabulary %v): acks must not be limited by a window or by pending data, or a closed window is never reopened", foreign, vocab)
	}
	// the decision is reached on every invocation except in the output-error state
	var decision ssa.Instruction
	instrs(ackFn, func(_ *ssa.BasicBlock, _ int, in ssa.Instruction) {
		if _, ok := in.(*ssa.Call); ok && decision == nil {
			if n, _ := atomicCallOn(in, p.Field(protoPkg, "Session", "ackOnDataRecv")); n == "Load" {
				decision = in
			}
		}
	})
	// the first instruction of the decision: walk to the dominating isClientPacketSessionOpening call if present
	instrs(ackFn, func(_ *ssa.BasicBlock, _ int, in ssa.Instruction) {
		if cl, ok := in.(*ssa.Call); ok && calleeName(cl) == "isClientPacketSessionOpening" && decision != nil && instrDominates(in, decision) {
			decision = in
		}
	})
	if decision == nil {
		c.Bad("ack-decision-reached", fn.Pos(), "no ack decision (ackOnDataRecv.Load) in runOutputOncePacket")
	} else {
		// at every level: each path from entry reaches the next point (the
		// call of the stage helper, finally the decision itself)
		bad := ""
		targets := append(append([]ssa.Instruction{}, chain...), decision)
		for _, target := range targets {
			seen := map[*ssa.BasicBlock]bool{}
			var walk func(b *ssa.BasicBlock, from int)
			walk = func(b *ssa.BasicBlock, from int) {
				for _, in := range b.Instrs[from:] {
					if in == target {
						return
					}
					if r, ok := in.(*ssa.Return); ok {
						okRet := false
						for _, ce := range controllingEdges(b) {
							if cl, ok := ce.If.Cond.(*ssa.Call); ok && ce.Idx == 0 {
								if f := fieldOrigin(cl.Call.Args[0]); f != nil && f.Name() == "outputHasErr" {
									okRet = true
								}
							}
						}
						if !okRet {
							bad = p.Pos(r.Pos())
						}
						return
					}
				}
				for _, s := range b.Succs {
					if !seen[s] {
						seen[s] = true
						walk(s, 0)
					}
				}
			}
			walk(target.Parent().Blocks[0], 0)
		}
		if bad == "" {
			c.OKH("ack-decision-reached", decision.Pos(), "every path from entry reaches the ack decision, except the output-error early return")
		} else {
			c.Bad("ack-decision-reached", decision.Pos(), "runOutputOncePacket can return at %s without reaching the ack/heartbeat decision", bad)
		}
	}
	// the ack carries the current receive window
	ws := p.Field(protoPkg, "dataAckStruct", "windowSize")
	found := false
	instrs(ackFn, func(_ *ssa.BasicBlock, _ int, in ssa.Instruction) {
		st, ok := in.(*ssa.Store)
		if !ok {
			return
		}
		if f, _ := fieldOfAddr(st.Addr); !sameField(f, ws) {
			return
		}
		found = true
		good := false
		for _, l := range Leaves(st.Val, nil) {
			if cl, ok := l.(*ssa.Call); ok && calleeName(cl) == "receiveWindowSize" {
				good = true
			}
		}
		if good {
			c.OKH("ack-window-value", in.Pos(), "windowSize = receiveWindowSize()")
		} else {
			c.Bad("ack-window-value", in.Pos(), "the ack advertises %s instead of the current receive window", describe(st.Val))
		}
	})
	if !found {
		c.Bad("ack-window-value", fn.Pos(), "the ack segment does not set windowSize")
	}
}

func r02_6(c *RC) {
	p := c.P
	fn := p.Fn(protoPkg, "Session.runOutputOncePacket")
	sb := p.Field(protoPkg, "Session", "sendBuf")
	if fn == nil || sb == nil {
		c.Anchor("Session.runOutputOncePacket / sendBuf")
		return
	}
	var scan *ssa.Call
	var clo *ssa.Function
	instrs(fn, func(_ *ssa.BasicBlock, _ int, in ssa.Instruction) {
		cl, ok := in.(*ssa.Call)
		if !ok || calleeName(cl) != "Ascend" || !sameField(fieldOrigin(cl.Call.Args[0]), sb) {
			return
		}
		cf, _ := closureOf(cl.Call.Args[1])
		if cf == nil {
			return
		}
		// the visitor: the callback itself, or the method a thin callback
		// hands each segment to
		for _, vf := range withHelpers(p, cf, 1) {
			has := false
			instrs(vf, func(_ *ssa.BasicBlock, _ int, x ssa.Instruction) {
				if xc, ok := x.(*ssa.Call); ok && calleeName(xc) == "output" {
					has = true
				}
			})
			if has && (vf == cf || len(cf.Blocks) <= 2) {
				scan, clo = cl, vf
			}
		}
	})
	if scan == nil {
		c.Bad("retransmission-scan", fn.Pos(), "runOutputOncePacket no longer scans sendBuf to retransmit")
		return
	}
	// gate of the scan
	classify := func(v ssa.Value) string {
		if cl, ok := v.(*ssa.Call); ok {
			switch calleeName(cl) {
			case "Load":
				if f := fieldOrigin(cl.Call.Args[0]); f != nil {
					switch f.Name() {
					case "nextRetransmissionTime":
						return "retransmission-timer"
					case "outputHasErr":
						return "output-error"
					}
					return "?load:" + f.Name()
				}
			case "UnixMicro", "Now":
				return "retransmission-timer"
			}
			return "?call:" + calleeName(cl)
		}
		return ""
	}
	seenV := map[string]bool{}
	for _, ce := range controlConds(fn, scan.Block()) {
		for _, k := range condVocab(ce.If.Cond, classify) {
			seenV[k] = true
		}
	}
	var foreign []string
	for k := range seenV {
		if strings.HasPrefix(k, "?") {
			foreign = append(foreign, k[1:])
		}
	}
	sort.Strings(foreign)
	if len(foreign) == 0 {
		c.OKH("scan-gate-vocabulary", scan.Pos(), "the sendBuf scan is gated only by the retransmission timer (and the output-error state)")
	} else {
		c.Bad("scan-gate-vocabulary", scan.Pos(), "retransmission is gated by %v: retransmission must not be limited by a window, or a lost segment is never repaired while the window is closed", foreign)
	}
	// the closure consults no window
	nwin := 0
	instrs(clo, func(_ *ssa.BasicBlock, _ int, x ssa.Instruction) {
		if xc, ok := x.(ssa.CallInstruction); ok {
			switch calleeName(xc) {
			case "sendWindowSize", "CongestionWindowSize":
				nwin++
				c.Bad("scan-no-window", x.Pos(), "the retransmission closure consults %s", calleeName(xc))
			case "Load":
				if f := fieldOrigin(xc.Common().Args[0]); f != nil && f.Name() == "remoteWindowSize" {
					nwin++
					c.Bad("scan-no-window", x.Pos(), "the retransmission closure consults remoteWindowSize")
				}
			}
		}
	})
	if nwin == 0 {
		c.OK("scan-no-window", clo.Pos(), "no window is consulted inside the retransmission closure")
	}
	// what decides whether a segment is retransmitted is the segment's own
	// state and the clock: no captured variable (a budget computed outside
	// the scan from a window) takes part
	instrs(clo, func(b *ssa.BasicBlock, _ int, x ssa.Instruction) {
		oc, ok := x.(*ssa.Call)
		if !ok || calleeName(oc) != "output" {
			return
		}
		classifyR := func(v ssa.Value) string {
			switch y := v.(type) {
			case *ssa.Call:
				switch calleeName(y) {
				case "Now", "UnixMicro", "Microseconds", "isDataAckProtocol", "Protocol":
					return "clock/segment"
				}
				return "?call:" + calleeName(y)
			case *ssa.UnOp:
				if y.Op == token.MUL {
					if _, isFV := y.X.(*ssa.FreeVar); isFV {
						return "?captured:" + y.X.Name()
					}
					if f := fieldOrigin(y); f != nil {
						switch f.Name() {
						case "ackCount", "txCount", "txTime", "txTimeout":
							return "segment"
						}
						return "?field:" + f.Name()
					}
				}
			case *ssa.FreeVar:
				return "?captured:" + y.Name()
			case *ssa.Parameter:
				return "segment"
			}
			return ""
		}
		seen := map[string]bool{}
		for _, ce := range controlConds(clo, b) {
			for _, k := range condVocab(ce.If.Cond, classifyR) {
				seen[k] = true
			}
		}
		var foreign []string
		for k := range seen {
			if strings.HasPrefix(k, "?") {
				foreign = append(foreign, k[1:])
			}
		}
		sort.Strings(foreign)
		if len(foreign) == 0 {
			c.OKH("retransmit-gate-vocabulary", x.Pos(), "whether a segment in sendBuf is retransmitted depends only on its own counters and timers and the clock")
		} else {
			c.Bad("retransmit-gate-vocabulary", x.Pos(), "the retransmission of a due segment also depends on %v: a budget or window computed outside the scan can stay at 0 while the cumulative ack cannot advance, so a single lost datagram is never repaired", foreign)
		}
	})
	// atoms of the closure
	fld := func(v ssa.Value) string {
		if f := fieldOrigin(v); f != nil {
			return f.Name()
		}
		return ""
	}
	var mentionsD func(v ssa.Value, name string, d int) bool
	mentionsD = func(v ssa.Value, name string, d int) bool {
		if d > 6 {
			return false
		}
		if fld(v) == name {
			return true
		}
		switch x := v.(type) {
		case *ssa.BinOp:
			return mentionsD(x.X, name, d+1) || mentionsD(x.Y, name, d+1)
		case *ssa.Convert:
			return mentionsD(x.X, name, d+1)
		case *ssa.Call:
			for _, a := range x.Call.Args {
				if mentionsD(a, name, d+1) {
					return true
				}
			}
		}
		return false
	}
	mentions := func(v ssa.Value, name string) bool { return mentionsD(v, name, 0) }
	atom := func(cond ssa.Value) (string, int, bool) {
		if _, ok := cond.(*ssa.BinOp); !ok {
			return "", 0, false
		}
		isF := func(name string) func(ssa.Value) bool { return func(v ssa.Value) bool { return fld(v) == name } }
		isK := func(v ssa.Value) bool { _, ok := v.(*ssa.Const); return ok }
		bigK := func(v ssa.Value) bool { k, ok := constInt(v); return ok && k >= 10 }
		smallK := func(v ssa.Value) bool { k, ok := constInt(v); return ok && k < 10 }
		men := func(name string) func(ssa.Value) bool { return func(v ssa.Value) bool { return mentions(v, name) } }
		switch {
		case cmpForm(cond, token.GEQ, isF("ackCount"), isK), cmpForm(cond, token.GTR, isF("ackCount"), isK):
			return "dup-acks", 0, true
		case cmpForm(cond, token.LSS, isF("ackCount"), isK), cmpForm(cond, token.LEQ, isF("ackCount"), isK):
			return "dup-acks", 1, true
		case cmpForm(cond, token.GEQ, isF("txCount"), bigK), cmpForm(cond, token.GTR, isF("txCount"), bigK):
			return "give-up", 0, true
		case cmpForm(cond, token.LSS, isF("txCount"), bigK), cmpForm(cond, token.LEQ, isF("txCount"), bigK):
			return "give-up", 1, true
		case cmpForm(cond, token.LEQ, isF("txCount"), smallK), cmpForm(cond, token.LSS, isF("txCount"), smallK):
			return "within-early-limit", 0, true
		case cmpForm(cond, token.GTR, isF("txCount"), smallK), cmpForm(cond, token.GEQ, isF("txCount"), smallK):
			return "within-early-limit", 1, true
		case cmpForm(cond, token.GTR, men("txTime"), men("txTimeout")), cmpForm(cond, token.GEQ, men("txTime"), men("txTimeout")):
			return "timed-out", 0, true
		case cmpForm(cond, token.LEQ, men("txTime"), men("txTimeout")), cmpForm(cond, token.LSS, men("txTime"), men("txTimeout")):
			return "timed-out", 1, true
		}
		return "", 0, false
	}
	isOut := func(in ssa.Instruction) bool {
		cl, ok := in.(*ssa.Call)
		return ok && calleeName(cl) == "output"
	}
	atoms := map[string]bool{}
	instrs(clo, func(_ *ssa.BasicBlock, _ int, in ssa.Instruction) {
		if bo, ok := in.(*ssa.BinOp); ok {
			if n, _, ok := atom(bo); ok {
				atoms[n] = true
			}
		}
	})
	c.Info("retransmission_atoms", keysOf(atoms))
	run := func(key string, assume map[string]bool, wantReach bool, okMsg, badMsg string) {
		ex := &Explorer{Fn: clo, Atom: atom, Assume: assume}
		hit := ex.Reach(nil, isOut)
		switch {
		case ex.Over:
			c.Undecided(key, clo.Pos(), "exploration budget exceeded")
		case (hit != nil) == wantReach:
			c.OKH(key, clo.Pos(), "%s", okMsg)
		default:
			pos := clo.Pos()
			if hit != nil {
				pos = hit.Pos()
			}
			c.Bad(key, pos, "%s", badMsg)
		}
	}
	run("timeout-retransmits", map[string]bool{"dup-acks": false, "timed-out": true, "give-up": false}, true,
		"a timed-out segment is retransmitted whatever its duplicate-ack count",
		"a segment whose retransmission timer expired is not retransmitted unless duplicate acks arrived: a lost tail segment is never repaired")
	run("dup-ack-retransmits", map[string]bool{"dup-acks": true, "within-early-limit": true, "timed-out": false, "give-up": false}, true,
		"duplicate acks trigger one early retransmission",
		"early retransmission on duplicate acks is gone")
	if !atoms["within-early-limit"] {
		c.Bad("dup-ack-bounded", clo.Pos(), "the duplicate-ack retransmission trigger is not bounded per segment (no txCount limit in the condition): every further 3 duplicate acks retransmit and count towards txCountLimit, so one real loss followed by a burst of duplicate acks makes the sender abandon a healthy session")
	} else {
		run("dup-ack-bounded", map[string]bool{"dup-acks": true, "within-early-limit": false, "timed-out": false, "give-up": false}, false,
			"no transmission with dup-ack threshold reached, early limit exceeded and no timeout",
			"duplicate acks alone retransmit a segment beyond the early-retransmission limit and burn its transmission budget")
	}
	run("give-up-stops", map[string]bool{"give-up": true}, false,
		"a segment at txCountLimit is not transmitted again",
		"a segment that reached txCountLimit is still transmitted")
}

func keysOf(m map[string]bool) []string {
	var out []string
	for k := range m {
		out = append(out, k)
	}
	sort.Strings(out)
	return out
}

func r02_7(c *RC) {
	p := c.P
	// isDataProtocol folded over all protocol numbers
	idp := p.Fn(protoPkg, "isDataProtocol")
	if idp == nil {
		c.Anchor("isDataProtocol")
	} else {
		want := map[string]bool{"dataClientToServer": true, "dataServerToClient": true, "dataClientToServerLowEntropy": true, "dataServerToClientLowEntropy": true}
		wantV := map[int64]string{}
		for n := range want {
			if obj, ok := p.Const(protoPkg, n).(*types.Const); ok {
				v, _ := constant.Int64Val(obj.Val())
				wantV[v] = n
			} else {
				c.Anchor("constant " + n)
			}
		}
		var wrong []string
		for v := int64(0); v < 16; v++ {
			f := &Folder{P: p}
			outs := f.Eval(idp, []cval{{known: true, v: constant.MakeInt64(v)}})
			if f.Over || len(outs) != 1 || !outs[0].Returned || len(outs[0].Results) != 1 || !outs[0].Results[0].known {
				c.Undecided("isDataProtocol", idp.Pos(), "cannot fold isDataProtocol(%d)", v)
				return
			}
			got := constant.BoolVal(outs[0].Results[0].v)
			_, w := wantV[v]
			if got != w {
				wrong = append(wrong, fmtInt(int(v)))
			}
		}
		if len(wrong) == 0 {
			c.OKH("isDataProtocol", idp.Pos(), "true exactly for the four data protocols (folded for 0..15); in particular false for openSessionRequest")
		} else {
			c.Bad("isDataProtocol", idp.Pos(), "isDataProtocol disagrees with the protocol table for values %v: the open request would be deferred (the session never opens) or data would be sent before the session is established", wrong)
		}
	}
	// shouldDeferNextPacketData
	sd := p.Fn(protoPkg, "Session.shouldDeferNextPacketData")
	if sd == nil {
		c.Anchor("Session.shouldDeferNextPacketData")
	} else {
		// returns false on the not-opening edge
		good := false
		instrs(sd, func(b *ssa.BasicBlock, _ int, in ssa.Instruction) {
			r, ok := in.(*ssa.Return)
			if !ok {
				return
			}
			if k, ok := retVal(r, 0).(*ssa.Const); ok && k.Value != nil && k.Value.String() == "false" {
				for _, ce := range controllingEdges(b) {
					if cl, ok := ce.If.Cond.(*ssa.Call); ok && calleeName(cl) == "isClientPacketSessionOpening" && ce.Idx == 1 {
						good = true
					}
				}
			}
		})
		if good {
			c.OKH("defer-only-while-opening", sd.Pos(), "returns false unless isClientPacketSessionOpening()")
		} else {
			c.Bad("defer-only-while-opening", sd.Pos(), "shouldDeferNextPacketData can defer data although the client is not waiting for an open response: an established session stalls")
		}
		// the verdict is isDataProtocol(first queued segment's protocol)
		verdict := false
		for _, af := range sd.AnonFuncs {
			instrs(af, func(_ *ssa.BasicBlock, _ int, in ssa.Instruction) {
				st, ok := in.(*ssa.Store)
				if !ok {
					return
				}
				if cl, ok := st.Val.(*ssa.Call); ok && calleeName(cl) == "isDataProtocol" {
					if pc, ok := cl.Call.Args[0].(*ssa.Call); ok && calleeName(pc) == "Protocol" {
						verdict = true
					}
				}
			})
		}
		if verdict {
			c.OKH("defer-verdict", sd.Pos(), "deferData = isDataProtocol(iter.Protocol()) of the head of the send queue")
		} else {
			c.Bad("defer-verdict", sd.Pos(), "the deferral verdict is no longer isDataProtocol of the head of the send queue")
		}
	}
	// isClientPacketSessionOpening: isClient && Packet && state attached
	op := p.Fn(protoPkg, "Session.isClientPacketSessionOpening")
	if op == nil {
		c.Anchor("Session.isClientPacketSessionOpening")
	} else {
		seen := map[string]bool{}
		instrs(op, func(_ *ssa.BasicBlock, _ int, in ssa.Instruction) {
			switch x := in.(type) {
			case *ssa.UnOp:
				if f := fieldOrigin(x); f != nil {
					seen[f.Name()] = true
				}
			case *ssa.Call:
				if calleeName(x) == "isState" {
					if k, ok := constInt(x.Call.Args[1]); ok {
						if obj, ok2 := p.Const(protoPkg, "sessionAttached").(*types.Const); ok2 {
							if v, _ := constant.Int64Val(obj.Val()); v == k {
								seen["attached"] = true
							}
						}
					}
				}
			}
		})
		if seen["isClient"] && seen["transportProtocol"] && seen["attached"] {
			c.OKH("opening-definition", op.Pos(), "isClient && datagram transport && state == sessionAttached")
		} else {
			c.Bad("opening-definition", op.Pos(), "isClientPacketSessionOpening no longer tests isClient, the transport and state sessionAttached (saw %v)", keysOf(seen))
		}
	}
	// Session.input: open response => established + wake the sender
	inp := p.Fn(protoPkg, "Session.input")
	if inp == nil {
		c.Anchor("Session.input")
		return
	}
	var fwd, wake ssa.Instruction
	instrs(inp, func(b *ssa.BasicBlock, _ int, in ssa.Instruction) {
		cl, ok := in.(*ssa.Call)
		if !ok {
			return
		}
		// under "this is the open response of an opening client datagram
		// session": the wrapper predicate, or its two conjuncts inline
		under, opening, isResp := false, false, false
		orp, _ := constOf(p, protoPkg, "openSessionResponse")
		for _, ce := range controlConds(inp, b) {
			if cc, ok := ce.If.Cond.(*ssa.Call); ok && ce.Idx == 0 {
				switch calleeName(cc) {
				case "isClientPacketSessionOpenResponse":
					under = true
				case "isClientPacketSessionOpening":
					opening = true
				}
			}
			isProto := func(v ssa.Value) bool {
				cl, ok := v.(*ssa.Call)
				return ok && calleeName(cl) == "Protocol"
			}
			isResponse := func(v ssa.Value) bool { k, ok := constInt(v); return ok && k == orp }
			if (ce.Idx == 0 && cmpForm(ce.If.Cond, token.EQL, isProto, isResponse)) || (ce.Idx == 1 && cmpForm(ce.If.Cond, token.NEQ, isProto, isResponse)) {
				isResp = true
			}
		}
		if !under && !(opening && isResp) {
			return
		}
		switch calleeName(cl) {
		case "forwardStateTo":
			if k, ok := constInt(cl.Call.Args[1]); ok {
				if obj, ok2 := p.Const(protoPkg, "sessionEstablished").(*types.Const); ok2 {
					if v, _ := constant.Int64Val(obj.Val()); v == k {
						fwd = in
					}
				}
			}
		case "notifyNotEmpty":
			wake = in
		}
	})
	if fwd != nil && wake != nil {
		c.OKH("open-response-establishes", fwd.Pos(), "on the open response the client moves to sessionEstablished and wakes the sender")
	} else {
		c.Bad("open-response-establishes", inp.Pos(), "receiving the open response no longer establishes the session and wakes the sender (forwardStateTo=%v notify=%v): deferred data is never sent", fwd != nil, wake != nil)
	}
}

// r02_9: the congestion window can never close: every write of
// CubicSendAlgorithm.congestionWindow is the minimum itself or is followed,
// on every path to the return, by the clamp inRange(); the clamp raises a
// value below the minimum; the minimum the session passes is a positive
// constant.
func r02_9(c *RC) {
	p := c.P
	const cg = "pkg/congestion"
	cw := p.Field(cg, "CubicSendAlgorithm", "congestionWindow")
	mn := p.Field(cg, "CubicSendAlgorithm", "minWindowSize")
	if cw == nil || mn == nil {
		c.Anchor("CubicSendAlgorithm.congestionWindow / minWindowSize")
		return
	}
	isClamp := func(in ssa.Instruction) bool {
		cl, ok := in.(ssa.CallInstruction)
		if !ok {
			return false
		}
		if _, d := in.(*ssa.Defer); d {
			return false
		}
		return calleeName(cl) == "inRange"
	}
	for _, s := range p.FieldStores(cw) {
		fn := s.Fn
		key := "cwnd-write@" + fnName(fn)
		st, ok := s.Instr.(*ssa.Store)
		if !ok {
			c.OK(key, s.Pos(), "composite literal initialisation")
			continue
		}
		fromMin := false
		for _, l := range Leaves(st.Val, nil) {
			if sameField(fieldOrigin(l), mn) {
				fromMin = true
			}
			if prm, ok := l.(*ssa.Parameter); ok && prm.Name() == "minWindowSize" {
				fromMin = true
			}
		}
		if vc, ok := st.Val.(*ssa.Call); ok && isClamp(vc) {
			c.OK(key, s.Pos(), "the clamp's own result")
			continue
		}
		switch {
		case fn.Name() == "inRange":
			c.OK(key, s.Pos(), "the clamp itself")
		case fromMin:
			c.OK(key, s.Pos(), "set to the minimum window")
		default:
			// every path from the store to a return passes the clamp, unless overwritten by another store
			hit := reachableAvoiding(fn, s.Instr, isReturn, func(x ssa.Instruction) bool {
				if isClamp(x) {
					return true
				}
				if st2, ok := x.(*ssa.Store); ok && x != s.Instr {
					if f, _ := fieldOfAddr(st2.Addr); sameField(f, cw) {
						return true // judged at that store
					}
				}
				return false
			})
			if hit == nil {
				c.OKH(key, s.Pos(), "followed by inRange() on every path to the return")
			} else {
				c.Bad(key, s.Pos(), "%s writes the congestion window (%s) and can return at %s without clamping it to [min,max]: a window of 0 stops all new transmissions for good", fnName(fn), describe(st.Val), p.Pos(hit.Pos()))
			}
		}
	}
	// the clamp
	ir := p.Fn(cg, "CubicSendAlgorithm.inRange")
	if ir == nil {
		c.Anchor("CubicSendAlgorithm.inRange")
	} else {
		good := false
		instrs(ir, func(b *ssa.BasicBlock, _ int, in ssa.Instruction) {
			st, ok := in.(*ssa.Store)
			if !ok {
				return
			}
			if f, _ := fieldOfAddr(st.Addr); !sameField(f, cw) || !sameField(fieldOrigin(st.Val), mn) {
				return
			}
			for _, ce := range controllingEdges(b) {
				bo, ok := ce.If.Cond.(*ssa.BinOp)
				if !ok {
					continue
				}
				x, y := fieldOrigin(bo.X), fieldOrigin(bo.Y)
				if ((bo.Op == token.LSS || bo.Op == token.LEQ) && ce.Idx == 0 && sameField(x, cw) && sameField(y, mn)) ||
					((bo.Op == token.GTR || bo.Op == token.GEQ) && ce.Idx == 0 && sameField(x, mn) && sameField(y, cw)) ||
					((bo.Op == token.GEQ) && ce.Idx == 1 && sameField(x, cw) && sameField(y, mn)) {
					good = true
				}
			}
		})
		if good {
			c.OKH("clamp-raises-to-min", ir.Pos(), "inRange sets congestionWindow = minWindowSize when it is below")
		} else {
			c.Bad("clamp-raises-to-min", ir.Pos(), "inRange no longer raises a congestion window below the minimum")
		}
	}
	// the session's minimum is a positive constant
	for _, s := range p.CallsToFn(p.Fn(cg, "NewCubicSendAlgorithm")) {
		if strings.HasSuffix(strings.SplitN(p.Pos(s.Pos()), ":", 2)[0], "_test.go") {
			continue
		}
		cl := s.Instr.(ssa.CallInstruction)
		k, ok := constInt(cl.Common().Args[0])
		key := "min-window-positive@" + fnName(s.Fn)
		if ok && k >= 1 {
			c.OKH(key, s.Pos(), "minimum congestion window is the constant %d", k)
		} else {
			c.Bad(key, s.Pos(), "the minimum congestion window passed by %s is %s, not a positive constant", fnName(s.Fn), describe(cl.Common().Args[0]))
		}
	}
	// sendWindowSize = max(0, min(cwnd - inflight, remote))
	sw := p.Fn(protoPkg, "Session.sendWindowSize")
	if sw == nil {
		c.Anchor("Session.sendWindowSize")
		return
	}
	seen := map[string]bool{}
	instrs(sw, func(_ *ssa.BasicBlock, _ int, in ssa.Instruction) {
		if cl, ok := in.(*ssa.Call); ok {
			n := calleeName(cl)
			if n == "Load" || n == "Len" {
				if f := fieldOrigin(cl.Call.Args[0]); f != nil {
					n = f.Name() + "." + n
				}
			}
			seen[n] = true
		}
	})
	if seen["CongestionWindowSize"] && seen["sendBuf.Len"] && seen["remoteWindowSize.Load"] && len(seen) <= 5 {
		c.OKH("send-window-inputs", sw.Pos(), "sendWindowSize depends only on the congestion window, the in-flight count and the peer's window")
	} else {
		c.Bad("send-window-inputs", sw.Pos(), "sendWindowSize consults %v", keysOf(seen))
	}
}

// r02_10: MTUs are configured per side (1280..1500). The buffer handed to
// ReadFrom must hold a full datagram of a peer that uses the largest
// supported MTU; a buffer sized by the local MTU truncates the peer's
// full-size datagrams, every retransmission fails authentication and the
// transfer stalls (seed C02f).
func r02_10(c *RC) {
	p := c.P
	fn := p.Fn(protoPkg, "PacketUnderlay.readOneSegment")
	if fn == nil {
		c.Anchor("PacketUnderlay.readOneSegment")
		return
	}
	const maxMTU = 1500
	n := 0
	instrs(fn, func(_ *ssa.BasicBlock, _ int, in ssa.Instruction) {
		cl, ok := in.(ssa.CallInstruction)
		if !ok || !cl.Common().IsInvoke() || cl.Common().Method.Name() != "ReadFrom" {
			return
		}
		if f := fieldOrigin(cl.Common().Value); f == nil || f.Name() != "conn" {
			return
		}
		n++
		root := sliceRoot(cl.Common().Args[0])
		size := int64(-1)
		switch x := root.(type) {
		case *ssa.MakeSlice:
			if k, ok := constInt(x.Len); ok {
				size = k
			}
		case *ssa.Alloc:
			if pt, ok := x.Type().Underlying().(*types.Pointer); ok {
				if at, ok := pt.Elem().Underlying().(*types.Array); ok {
					size = at.Len()
				}
			}
		}
		key := "receive-buffer-covers-max-mtu"
		if size >= maxMTU {
			c.OKH(key, in.Pos(), "ReadFrom into a %d-byte buffer (>= the maximum MTU %d)", size, maxMTU)
		} else if size >= 0 {
			c.Bad(key, in.Pos(), "the datagram receive buffer has %d bytes, less than the largest MTU a peer may be configured with (%d): that peer's full-size datagrams are truncated and never authenticate", size, maxMTU)
		} else {
			c.Bad(key, in.Pos(), "the datagram receive buffer is sized by %s, not by a constant covering the largest MTU a peer may use (%d): with a smaller local MTU the peer's full-size datagrams are truncated, no retransmission can succeed and the transfer stalls", describe(root), maxMTU)
		}
	})
	if n == 0 {
		c.Undecided("receive-buffer-covers-max-mtu", fn.Pos(), "no ReadFrom on the datagram socket found")
	}
}


// r02_11: liveness of an idle direction. The datagram underlay sweeps a
// session whose lastRXTime is older than idleSessionTimeout; acks and
// heartbeats exist so that an end that only sends (a one-way upload, an idle
// connection) still hears from its peer. Every segment Session.input accepts
// must therefore refresh lastRXTime, whatever its kind: the refresh precedes
// each dispatch (inputData / inputAck / inputClose) on every path.
func r02_11(c *RC) {
	p := c.P
	fn := p.Fn(protoPkg, "Session.input")
	lr := p.Field(protoPkg, "Session", "lastRXTime")
	if fn == nil || lr == nil {
		c.Anchor("Session.input / Session.lastRXTime")
		return
	}
	// the refresh: lastRXTime.Store(..) in input itself, or a call of a helper
	// that performs it on every one of its paths (noteReceived())
	var stores []ssa.Instruction
	isStore := func(in ssa.Instruction) bool {
		n, _ := atomicCallOn(in, lr)
		return n == "Store"
	}
	instrs(fn, func(_ *ssa.BasicBlock, _ int, in ssa.Instruction) {
		if isStore(in) {
			stores = append(stores, in)
			return
		}
		if cl, ok := in.(*ssa.Call); ok {
			sc := cl.Common().StaticCallee()
			if sc == nil || sc.Blocks == nil || pkgOfFn(sc) != pkgOfFn(fn) || sc.Object() == nil || sc.Object().Exported() || anchorNames[sc.Name()] {
				return
			}
			has := false
			instrs(sc, func(_ *ssa.BasicBlock, _ int, y ssa.Instruction) {
				if isStore(y) {
					has = true
				}
			})
			if has && reachableAvoiding(sc, sc.Blocks[0].Instrs[0], isReturn, isStore) == nil {
				stores = append(stores, in)
			}
		}
	})
	n := 0
	instrs(fn, func(_ *ssa.BasicBlock, _ int, in ssa.Instruction) {
		cl, ok := in.(*ssa.Call)
		if !ok {
			return
		}
		name := calleeName(cl)
		if name != "inputData" && name != "inputAck" && name != "inputClose" {
			return
		}
		n++
		key := "rx-time-refreshed-before:" + name
		good := false
		for _, st := range stores {
			if instrDominates(st, in) {
				good = true
			}
		}
		if good {
			c.OKH(key, in.Pos(), "lastRXTime.Store(now) dominates the dispatch")
		} else {
			c.Bad(key, in.Pos(), "a segment handed to %s does not refresh lastRXTime on every path: an end that receives only this kind of segment (acks and heartbeats during a one-way transfer, or an idle connection) is swept as idle after %s although its peer is alive, and the transfer is cut", name, "idleSessionTimeout")
		}
	})
	if n == 0 {
		c.Undecided("rx-time-refreshed-before", fn.Pos(), "Session.input dispatches to none of inputData / inputAck / inputClose")
	}
}
