package main

import (
	"fmt"
	"go/constant"
	"go/token"
	"go/types"
	"strings"

	"golang.org/x/tools/go/ssa"
)

func init() { register("C05", propC05) }

func propC05() *Property {
	return &Property{
		ID:          "C05",
		NeedCG:      true,
		Decides:     "choke-point structure: R05.1 every write to an underlay's network connection is gated by the send-cipher initialisation (stream) / uses a cipher obtained from an authenticated decrypt (packet); R05.2 the stream send cipher derives only from the receive cipher, which is set only from a successful Registry.Discover (server) or the client's own key; R05.3 on the packet server path no segment is returned unless a decrypt succeeded, and segment/session ciphers are only ever copies of authenticated ciphers; R05.4 server sessions are created only by onOpenSessionRequest, called only from the event loops, after validateNewServerSessionSegment, and readySessions is fed only there; R05.5 the failure branches (crypto/replay error, undecryptable datagram) call nothing that can write to the connection.; R05.8 every SetUsers call publishes the new users: a retired credential does not survive a reload (shared with R07.8); R05.9 every datagram and every first stream segment is looked up in (and recorded by) the replay cache before any decryption, and a replay yields no segment (shared with R06.1, R06.2): observed traffic re-sent by a party without a credential creates nothing; R05.11 a user entry with an empty password never becomes a credential (its key would be a function of the public name alone)",
		NotDecided:  "timing side channels, the drain's length distribution, TCP-level behaviour (RST vs FIN), strength of the AEAD itself.",
		Assumptions: []string{"VTA call graph is sound for the interface calls on the analysed paths"},
		Rules: []Rule{
			{ID: "R05.1", Floor: 5, Text: "every conn.Write (StreamUnderlay) / conn.WriteTo (PacketUnderlay) site is preceded on all paths by maybeInitSendBlockCipher()==nil (stream), or encrypts with a cipher from {client key, seg.block, Session.block} (packet)", Run: r05_1},
			{ID: "R05.2", Floor: 4, Text: "stores to StreamUnderlay.send / .recv have authenticated provenance: send = Clone(block) under isClient or Clone(recv); recv = Clone(block) under isClient, Discover(..) result on its nil-error edge, or nil; maybeInitSendBlockCipher returns nil on a server only with send or recv set", Run: r05_2},
			{ID: "R05.3", Floor: 6, Text: "packet server path: no non-nil segment is returned unless decrypted==true, decrypted is only set from an existing session's cipher or Discover's nil-error edge; segment.block and Session.block are only copies of authenticated ciphers", Run: r05_3},
			{ID: "R05.4", Floor: 6, Text: "server sessions: newSessionWithServerUserPolicy(isClient=false) and sends on readySessions only in onOpenSessionRequest; onOpenSessionRequest only called from RunEventLoop; a failed validateNewServerSessionSegment never reaches session creation or a returned segment", Run: r05_4},
			{ID: "R05.6", Floor: 12, Text: "direction gate: validateServerSegmentDirection (applied to every datagram authenticated by discovery) returns nil only for protocols a client sends (openSessionRequest, closeSession*, *ClientToServer*); Session.input on a server passes only those, on a client only the server-to-client ones — evaluated by constant propagation for every protocol number 0..15", Run: r05_6},
			{ID: "R05.7", Floor: 1, Text: "a TCP first segment authenticated against a user generation is accepted only if that generation is still the published one after discovery (a credential removed by a completed reload no longer opens a session)", Run: func(c *RC) { ruleRecheckGeneration(c) }},
			{ID: "R05.8", Floor: 2, Text: "every SetUsers call publishes the new users: a retired credential does not survive a reload (shared with R07.8)", Run: ruleSetUsersPublishes},
			{ID: "R05.10", Floor: 2, Text: "the datagram parsers accept a datagram only at exactly its announced size", Run: r05_10},
			{ID: "R05.11", Floor: 1, Text: "no server credential is derived from an empty secret: in the user registry, HashPassword(user password, user name) is unreachable when the password is empty (tested in the function or at every call of the helper)", Run: r05_11},
			{ID: "R05.9", Floor: 4, Text: "every datagram and every first stream segment is looked up in (and recorded by) the replay cache before any decryption, and a replay yields no segment (shared with R06.1, R06.2): observed traffic re-sent by a party without a credential creates nothing", Run: func(c *RC) { r06_1(c); r06_2(c) }},
			{ID: "R05.5", Floor: 3, Text: "failure branches (stream: readOneSegment error in RunEventLoop; packet: undecryptable datagram, replay) call nothing that may write to the underlay connection before the next read", Run: r05_5},
		},
	}
}

const protoPkg = "pkg/protocol"

func isConnWrite(p *Prog, in ssa.Instruction) (string, bool) {
	c, ok := in.(ssa.CallInstruction)
	if !ok {
		return "", false
	}
	cc := c.Common()
	if !cc.IsInvoke() {
		return "", false
	}
	name := cc.Method.Name()
	if name != "Write" && name != "WriteTo" {
		return "", false
	}
	f := fieldOrigin(cc.Value)
	if f == nil || f.Name() != "conn" {
		return "", false
	}
	su := p.Field(protoPkg, "StreamUnderlay", "conn")
	pu := p.Field(protoPkg, "PacketUnderlay", "conn")
	if sameField(f, su) {
		return "StreamUnderlay", true
	}
	if sameField(f, pu) {
		return "PacketUnderlay", true
	}
	return "", false
}

// gatedBySendInit: the instruction is reachable only through the nil-error
// edge of a call to maybeInitSendBlockCipher in its own function.
func gatedBySendInit(fn *ssa.Function, in ssa.Instruction) bool {
	var gate ssa.Instruction
	instrs(fn, func(_ *ssa.BasicBlock, _ int, x ssa.Instruction) {
		if c, ok := x.(*ssa.Call); ok {
			if sc := c.Common().StaticCallee(); sc != nil && sc.Name() == "maybeInitSendBlockCipher" {
				gate = x
			}
		}
	})
	if gate == nil || !instrDominates(gate, in) {
		return false
	}
	// the non-nil edge must not reach in: find the If on (gate != nil)
	call := gate.(*ssa.Call)
	okEdge := false
	// the error of the gate: the call's value, or its last result when the
	// gate also reports something else (created bool, err error)
	var errRefs []ssa.Instruction
	if tup, ok := call.Type().(*types.Tuple); ok {
		for _, r := range *call.Referrers() {
			if ex, ok := r.(*ssa.Extract); ok && ex.Index == tup.Len()-1 {
				errRefs = append(errRefs, *ex.Referrers()...)
			}
		}
	} else {
		errRefs = *call.Referrers()
	}
	for _, r := range errRefs {
		bo, ok := r.(*ssa.BinOp)
		if !ok || !(isNilConst(bo.X) || isNilConst(bo.Y)) {
			continue
		}
		for _, u := range *bo.Referrers() {
			iff, ok := u.(*ssa.If)
			if !ok {
				continue
			}
			errIdx := 0
			if bo.Op.String() == "==" {
				errIdx = 1
			}
			// in must be unreachable from the error successor
			errSucc := iff.Block().Succs[errIdx]
			reach := blockReach(errSucc, nil)
			if !reach[in.Block()] {
				okEdge = true
			}
		}
	}
	return okEdge
}

func r05_1(c *RC) {
	p := c.P
	if p.Field(protoPkg, "StreamUnderlay", "conn") == nil || p.Field(protoPkg, "PacketUnderlay", "conn") == nil {
		c.Anchor("pkg/protocol.{Stream,Packet}Underlay.conn")
		return
	}
	for _, fn := range p.Funcs(protoPkg) {
		instrs(fn, func(_ *ssa.BasicBlock, _ int, in ssa.Instruction) {
			kind, ok := isConnWrite(p, in)
			if !ok {
				return
			}
			key := "connwrite:" + kind + "@" + fnName(fn)
			if kind == "StreamUnderlay" {
				if gatedBySendInit(fn, in) {
					c.OKH(key, in.Pos(), "dominated by maybeInitSendBlockCipher() on its nil edge in the same function")
					return
				}
				callers := p.CallsToFn(fn)
				if len(callers) == 0 {
					c.Bad(key, in.Pos(), "write to the TCP connection in %s is not gated by maybeInitSendBlockCipher and the function has no gated caller: an unauthenticated peer could be answered", fnName(fn))
					return
				}
				for _, cs := range callers {
					if !gatedBySendInit(cs.Fn, cs.Instr) {
						c.Bad(key, in.Pos(), "write to the TCP connection in %s: caller %s (%s) does not pass the maybeInitSendBlockCipher()==nil gate", fnName(fn), fnName(cs.Fn), p.Pos(cs.Instr.Pos()))
						return
					}
				}
				c.OKH(key, in.Pos(), "every caller (%d) reaches it only through maybeInitSendBlockCipher()==nil", len(callers))
				return
			}
			// packet: the buffer written must have been filled by Encrypt on a
			// cipher whose provenance is authenticated. We check the ciphers
			// used by every Encrypt/EncryptWithNonce in this function.
			bad := ""
			n := 0
			instrs(fn, func(_ *ssa.BasicBlock, _ int, x ssa.Instruction) {
				cl, ok := x.(ssa.CallInstruction)
				if !ok || !cl.Common().IsInvoke() {
					return
				}
				m := cl.Common().Method.Name()
				if m != "Encrypt" && m != "EncryptWithNonce" {
					return
				}
				n++
				for _, l := range LeavesX(p, fn, cl.Common().Value, 0) {
					if !authCipherLeaf(p, l) {
						bad = describe(l)
					}
				}
			})
			if n == 0 {
				c.Bad(key, in.Pos(), "datagram written in %s without any Encrypt in the function", fnName(fn))
			} else if bad != "" {
				c.Bad(key, in.Pos(), "datagram written in %s is encrypted with a cipher of unauthenticated provenance: %s", fnName(fn), bad)
			} else {
				c.OKH(key, in.Pos(), "all %d Encrypt calls in the writer use a cipher from {PacketUnderlay.block (client key), segment.block, Session.block}", n)
			}
		})
	}
}

// authCipherLeaf: provenance leaves allowed for a cipher that encrypts an
// outgoing datagram on the packet underlay.
func authCipherLeaf(p *Prog, l ssa.Value) bool {
	if isNilConst(l) {
		return true
	}
	if f := fieldOrigin(l); f != nil {
		switch {
		case sameField(f, p.Field(protoPkg, "PacketUnderlay", "block")),
			sameField(f, p.Field(protoPkg, "segment", "block")):
			return true
		}
	}
	// *s.block.Load()
	if u, ok := l.(*ssa.UnOp); ok {
		if call, ok := u.X.(*ssa.Call); ok && strings.HasSuffix(calleeID(call), "atomic.Pointer[T]).Load") {
			if f := fieldOrigin(callArgs(call)[0]); sameField(f, p.Field(protoPkg, "Session", "block")) {
				return true
			}
		}
	}
	return false
}

func r05_2(c *RC) {
	p := c.P
	send := p.Field(protoPkg, "StreamUnderlay", "send")
	recv := p.Field(protoPkg, "StreamUnderlay", "recv")
	block := p.Field(protoPkg, "StreamUnderlay", "block")
	isClient := p.Field(protoPkg, "baseUnderlay", "isClient")
	if send == nil || recv == nil || block == nil || isClient == nil {
		c.Anchor("pkg/protocol.StreamUnderlay.{send,recv,block}, baseUnderlay.isClient")
		return
	}
	underIsClient := func(in ssa.Instruction) bool {
		for _, e := range controllingEdges(in.Block()) {
			if e.Idx == 0 && sameField(fieldOrigin(e.If.Cond), isClient) {
				return true
			}
			// t.recv == nil && t.isClient: short-circuit produces nested ifs; the
			// isClient test is then its own If.
		}
		return false
	}
	cloneOf := func(v ssa.Value) *types.Var {
		call, ok := v.(*ssa.Call)
		if !ok || !call.Common().IsInvoke() || call.Common().Method.Name() != "Clone" {
			return nil
		}
		return fieldOrigin(call.Common().Value)
	}
	for _, s := range p.FieldStores(send) {
		key := "store:StreamUnderlay.send@" + fnName(s.Fn)
		src := cloneOf(s.Val)
		switch {
		case s.Fn.Name() != "maybeInitSendBlockCipher":
			c.Bad(key, s.Pos(), "StreamUnderlay.send is assigned outside maybeInitSendBlockCipher (in %s): the send cipher must derive only from the authenticated receive cipher", fnName(s.Fn))
		case sameField(src, recv):
			c.OKH(key, s.Pos(), "send = recv.Clone()")
		case sameField(src, block) && underIsClient(s.Instr):
			c.OKH(key, s.Pos(), "send = block.Clone() under isClient")
		default:
			c.Bad(key, s.Pos(), "StreamUnderlay.send is set from %s, not from recv.Clone() (server) / block.Clone() under isClient", describe(s.Val))
		}
	}
	for _, s := range p.FieldStores(recv) {
		key := "store:StreamUnderlay.recv@" + fnName(s.Fn)
		src := cloneOf(s.Val)
		switch {
		case isNilConst(s.Val):
			c.OK(key, s.Pos(), "recv = nil (undo)")
		case sameField(src, block) && underIsClient(s.Instr):
			c.OKH(key, s.Pos(), "recv = block.Clone() under isClient")
		default:
			// Extract #0 of Registry.Discover on nil-error edge
			ok := false
			if ex, isEx := s.Val.(*ssa.Extract); isEx && ex.Index == 0 {
				if call, isCall := ex.Tuple.(*ssa.Call); isCall && strings.HasSuffix(calleeID(call), "serveruser.Registry).Discover") {
					for _, nc := range nilErrCalls(s.Instr) {
						if nc == call {
							ok = true
						}
					}
				}
			}
			if ok {
				c.OKH(key, s.Pos(), "recv = cipher returned by Registry.Discover, on its err==nil edge")
			} else {
				c.Bad(key, s.Pos(), "StreamUnderlay.recv is set from %s: the receive cipher of a server must be the result of a successful Registry.Discover", describe(s.Val))
			}
		}
	}
	// the undo: in serverInitRecvBlockCipherAndDecryptMetadata, the error edge of
	// the stateful Decrypt passes through "recv = nil" before returning.
	if fn := p.Fn(protoPkg, "StreamUnderlay.serverInitRecvBlockCipherAndDecryptMetadata"); fn == nil {
		c.Anchor("StreamUnderlay.serverInitRecvBlockCipherAndDecryptMetadata")
	} else {
		var setSite ssa.Instruction
		for _, s := range p.FieldStores(recv) {
			if s.Fn == fn && !isNilConst(s.Val) {
				setSite = s.Instr
			}
		}
		if setSite != nil {
			// every return with non-nil error after setSite must be preceded by recv=nil
			bad := reachableAvoiding(fn, setSite, func(in ssa.Instruction) bool {
				r, ok := in.(*ssa.Return)
				return ok && len(r.Results) == 3 && !retIsNil(r, 2)
			}, func(in ssa.Instruction) bool {
				st, ok := in.(*ssa.Store)
				if !ok {
					return false
				}
				f, _ := fieldOfAddr(st.Addr)
				return sameField(f, recv) && isNilConst(st.Val)
			})
			if bad != nil {
				c.Bad("undo:recv@serverInit", bad.Pos(), "an error return after recv was set does not reset recv to nil: a failed handshake would leave an authenticated-looking receive cipher behind")
			} else {
				c.OKH("undo:recv@serverInit", setSite.Pos(), "every error return after the store passes recv = nil")
			}
		}
	}
	// maybeInitSendBlockCipher: on the server (isClient false edge) a nil
	// return needs send != nil or a store send = recv.Clone() under recv != nil.
	fn := p.Fn(protoPkg, "StreamUnderlay.maybeInitSendBlockCipher")
	if fn == nil {
		c.Anchor("StreamUnderlay.maybeInitSendBlockCipher")
		return
	}
	cut := func(from *ssa.BasicBlock, idx int) bool {
		iff, ok := from.Instrs[len(from.Instrs)-1].(*ssa.If)
		if !ok {
			return false
		}
		// assume server: cut the isClient true edge
		if sameField(fieldOrigin(iff.Cond), isClient) && idx == 0 {
			return true
		}
		if bo, ok := iff.Cond.(*ssa.BinOp); ok {
			var fld *types.Var
			if isNilConst(bo.Y) {
				fld = fieldOrigin(bo.X)
			}
			// cut "send != nil" true edge and "recv != nil" true edge: what remains
			// are the paths where neither is set.
			if (sameField(fld, send) || sameField(fld, recv)) && ((bo.Op.String() == "!=" && idx == 0) || (bo.Op.String() == "==" && idx == 1)) {
				return true
			}
		}
		return false
	}
	reach := blockReach(fn.Blocks[0], cut)
	badRet := false
	for b := range reach {
		for _, in := range b.Instrs {
			if r, ok := in.(*ssa.Return); ok && len(r.Results) >= 1 && retIsNil(r, len(r.Results)-1) {
				badRet = true
				c.Bad("gate:maybeInitSendBlockCipher", r.Pos(), "maybeInitSendBlockCipher can return nil on a server although neither send nor recv is set: the write gate is open for unauthenticated peers")
			}
		}
	}
	if !badRet {
		c.OKH("gate:maybeInitSendBlockCipher", fn.Pos(), "with isClient=false, send==nil and recv==nil no `return nil` is reachable (%d blocks explored)", len(reach))
	}
}

func r05_3(c *RC) {
	p := c.P
	isClient := p.Field(protoPkg, "baseUnderlay", "isClient")
	fn := p.Fn(protoPkg, "PacketUnderlay.readOneSegment")
	if fn == nil || isClient == nil {
		c.Anchor("PacketUnderlay.readOneSegment")
		return
	}
	// locate the If on !decrypted / decrypted
	var decPhi ssa.Value
	var decIfs []*ssa.If
	instrs(fn, func(_ *ssa.BasicBlock, _ int, in ssa.Instruction) {
		iff, ok := in.(*ssa.If)
		if !ok {
			return
		}
		v := iff.Cond
		if u, ok := v.(*ssa.UnOp); ok && u.Op.String() == "!" {
			v = u.X
		}
		if isDecryptedValue(v) {
			decIfs = append(decIfs, iff)
			decPhi = v
		}
	})
	if len(decIfs) == 0 {
		c.Undecided("decrypted-flag", fn.Pos(), "cannot find the branch on the decrypted flag (result #3 of tryDecryptExistingSession) in PacketUnderlay.readOneSegment")
		return
	}
	cut := func(from *ssa.BasicBlock, idx int) bool {
		iff, ok := from.Instrs[len(from.Instrs)-1].(*ssa.If)
		if !ok {
			return false
		}
		if sameField(fieldOrigin(iff.Cond), isClient) && idx == 0 {
			return true // assume server
		}
		for _, d := range decIfs {
			if iff == d {
				neg := false
				if u, ok := iff.Cond.(*ssa.UnOp); ok && u.Op.String() == "!" {
					neg = true
				}
				// cut the edge on which decrypted is true
				if (neg && idx == 1) || (!neg && idx == 0) {
					return true
				}
			}
		}
		return false
	}
	reach := blockReach(fn.Blocks[0], cut)
	bad := false
	nret := 0
	instrs(fn, func(b *ssa.BasicBlock, _ int, in ssa.Instruction) {
		r, ok := in.(*ssa.Return)
		if !ok || len(r.Results) != 3 || retIsNil(r, 0) {
			return
		}
		nret++
		if reach[b] {
			bad = true
			c.Bad("return-seg:undecrypted", r.Pos(), "PacketUnderlay.readOneSegment can return a segment on the server path although no decrypt succeeded (decrypted==false)")
		}
	})
	if !bad {
		c.OKH("return-seg:undecrypted", fn.Pos(), "server path, decrypted==false: none of the %d segment returns is reachable", nret)
	}
	// provenance of the flag
	for _, l := range Leaves(decPhi, nil) {
		key := "decrypted-src:" + leafKind(l)
		switch x := l.(type) {
		case *ssa.Extract:
			if call, ok := x.Tuple.(*ssa.Call); ok && strings.HasSuffix(calleeID(call), "tryDecryptExistingSession") {
				c.OK(key, x.Pos(), "flag from tryDecryptExistingSession (cipher of an existing authenticated session)")
				continue
			}
			c.Bad(key, x.Pos(), "decrypted flag derives from %s", describe(l))
		case *ssa.Const:
			if x.Value != nil && x.Value.String() == "false" {
				c.OK(key, fn.Pos(), "constant false")
				continue
			}
			// constant true must enter the phi from a block on the nil-error edge of the discovery call
			ok := false
			if phi, isPhi := decPhi.(*ssa.Phi); isPhi {
				for i, e := range phi.Edges {
					if e == l {
						pred := phi.Block().Preds[i]
						for _, nc := range nilErrCallsBlock(pred) {
							if strings.HasSuffix(calleeID(nc), "serverTryDecryptMetadataForNewSession") {
								ok = true
							}
						}
					}
				}
			}
			if ok {
				c.OKH(key, fn.Pos(), "decrypted=true only on the err==nil edge of serverTryDecryptMetadataForNewSession")
			} else {
				c.Bad(key, fn.Pos(), "decrypted is set to true outside the err==nil edge of serverTryDecryptMetadataForNewSession")
			}
		default:
			c.Bad(key, fn.Pos(), "decrypted flag derives from %s", describe(l))
		}
	}
	// serverTryDecryptMetadataForNewSession: non-nil cipher only from Discover on nil-error edge
	if f2 := p.Fn(protoPkg, "PacketUnderlay.serverTryDecryptMetadataForNewSession"); f2 == nil {
		c.Anchor("PacketUnderlay.serverTryDecryptMetadataForNewSession")
	} else {
		instrs(f2, func(_ *ssa.BasicBlock, _ int, in ssa.Instruction) {
			r, ok := in.(*ssa.Return)
			if !ok || len(r.Results) != 4 {
				return
			}
			key := "discover-result@serverTryDecryptMetadataForNewSession"
			if retIsNil(r, 3) {
				// success return: cipher must be Discover's result and on nil edge
				good := false
				if ex, ok := r.Results[0].(*ssa.Extract); ok {
					if call, ok := ex.Tuple.(*ssa.Call); ok && strings.HasSuffix(calleeID(call), "serveruser.Registry).Discover") {
						for _, nc := range nilErrCalls(r) {
							if nc == call {
								good = true
							}
						}
					}
				}
				if good {
					c.OKH(key, r.Pos(), "success return carries Discover's cipher on its err==nil edge")
				} else {
					c.Bad(key, r.Pos(), "serverTryDecryptMetadataForNewSession returns nil error with a cipher that is not Registry.Discover's result on its nil-error edge: %s", describe(r.Results[0]))
				}
			} else if !retIsNil(r, 0) {
				c.Bad(key, r.Pos(), "error return carries a non-nil cipher")
			} else {
				c.OK(key, r.Pos(), "error return carries no cipher")
			}
		})
	}
	// who writes segment.block / Session.block
	segBlock := p.Field(protoPkg, "segment", "block")
	recv := p.Field(protoPkg, "StreamUnderlay", "recv")
	if segBlock == nil {
		c.Anchor("segment.block")
		return
	}
	for _, s := range p.FieldStores(segBlock) {
		key := "store:segment.block@" + fnName(s.Fn)
		ok := true
		why := ""
		for _, l := range LeavesIP(p, s.Fn, s.Val, 0) {
			switch {
			case isNilConst(l):
			case sameField(fieldOrigin(l), recv), sameField(fieldOrigin(l), segBlock):
			default:
				if ex, isEx := l.(*ssa.Extract); isEx {
					if call, isCall := ex.Tuple.(*ssa.Call); isCall {
						id := calleeID(call)
						if strings.HasSuffix(id, "tryDecryptExistingSession") || strings.HasSuffix(id, "serverTryDecryptMetadataForNewSession") {
							continue
						}
					}
				}
				ok = false
				why = describe(l)
			}
		}
		if ok {
			c.OKH(key, s.Pos(), "segment.block is a copy of an authenticated cipher (recv / seg.block / decrypt result)")
		} else {
			c.Bad(key, s.Pos(), "segment.block is set from %s, which is not the result of an authenticated decrypt", why)
		}
	}
	sb := p.Field(protoPkg, "Session", "block")
	for _, s := range p.FieldMethodCalls(sb, "Store", "Swap", "CompareAndSwap") {
		key := "store:Session.block@" + fnName(s.Fn)
		args := callArgs(s.Instr.(ssa.CallInstruction))
		src := args[len(args)-1]
		if fa, ok := src.(*ssa.FieldAddr); ok {
			if f, _ := fieldOfAddr(fa); sameField(f, segBlock) && ownerName(p, s.Fn) == "input" {
				c.OKH(key, s.Pos(), "Session.block.Store(&seg.block) in Session.input")
				continue
			}
		}
		c.Bad(key, s.Pos(), "Session.block is stored from %s in %s (only Session.input may store &seg.block)", describe(src), fnName(s.Fn))
	}
	// tryDecryptExistingSession: blockCipher result only from *session.block.Load() on err==nil
	if f3 := p.Fn(protoPkg, "PacketUnderlay.tryDecryptExistingSession"); f3 == nil {
		c.Anchor("PacketUnderlay.tryDecryptExistingSession")
	} else {
		// Whatever shape the scan has (closure over named results, a visitor
		// method on a scan struct, a per-session helper returning the four
		// results): every store of a block cipher and every store of `true`
		// in the scan's code sits on the err==nil edge of the session
		// cipher's Decrypt; results merely handed on from a scan helper are
		// judged where the helper makes them.
		family := withHelpers(p, f3, 3)
		inFamily := map[*ssa.Function]bool{}
		for _, f := range family {
			inFamily[f] = true
		}
		bcT := p.Named("pkg/cipher", "BlockCipher")
		n := 0
		for _, f := range family {
			instrs(f, func(_ *ssa.BasicBlock, _ int, in ssa.Instruction) {
				st, ok := in.(*ssa.Store)
				if !ok {
					return
				}
				what := ""
				switch {
				case bcT != nil && types.Identical(st.Val.Type(), bcT):
					what = "blockCipher"
				case isBoolType(st.Val.Type()):
					what = "decrypted"
				default:
					return
				}
				// zero values and handed-on helper results are not makers
				maker := false
				for _, l := range Leaves(st.Val, nil) {
					switch x := l.(type) {
					case *ssa.Const:
						if what == "decrypted" && x.Value != nil && x.Value.String() == "true" {
							maker = true
						}
					case *ssa.Extract:
						if cl, ok := x.Tuple.(*ssa.Call); !ok || cl.Common().StaticCallee() == nil || !inFamily[cl.Common().StaticCallee()] {
							maker = true
						}
					default:
						maker = true
					}
				}
				if !maker {
					return
				}
				n++
				key := "existing-session:" + what
				good := false
				for _, nc := range nilErrCalls(in) {
					if nc.Common().IsInvoke() && nc.Common().Method.Name() == "Decrypt" {
						good = true
					}
				}
				if good {
					c.OKH(key, in.Pos(), "%s set only on the err==nil edge of the session cipher's Decrypt", what)
				} else {
					c.Bad(key, in.Pos(), "%s is set in tryDecryptExistingSession outside the err==nil edge of Decrypt", what)
				}
			})
		}
		// ... and the same for results a scan helper returns from registers
		// (named results that no closure captures are not stored anywhere)
		for _, f := range family {
			if f == f3 {
				continue
			}
			instrs(f, func(_ *ssa.BasicBlock, _ int, in ssa.Instruction) {
				ret, ok := in.(*ssa.Return)
				if !ok {
					return
				}
				for i := range ret.Results {
					v := retVal(ret, i)
					what := ""
					switch {
					case bcT != nil && types.Identical(v.Type(), bcT):
						what = "blockCipher"
					case isBoolType(v.Type()) && len(ret.Results) > 1:
						what = "decrypted"
					default:
						continue
					}
					type src struct {
						v ssa.Value
						b *ssa.BasicBlock
					}
					var srcs []src
					var walk func(v ssa.Value, b *ssa.BasicBlock, d int)
					walk = func(v ssa.Value, b *ssa.BasicBlock, d int) {
						if phi, ok := v.(*ssa.Phi); ok && d < 6 {
							for k, e := range phi.Edges {
								walk(e, phi.Block().Preds[k], d+1)
							}
							return
						}
						srcs = append(srcs, src{v, b})
					}
					walk(v, ret.Block(), 0)
					for _, sv := range srcs {
						if k, isK := sv.v.(*ssa.Const); isK && (k.Value == nil || k.Value.String() == "false") {
							continue
						}
						if ex, isEx := sv.v.(*ssa.Extract); isEx {
							if cl, ok := ex.Tuple.(*ssa.Call); ok && cl.Common().StaticCallee() != nil && inFamily[cl.Common().StaticCallee()] {
								continue
							}
						}
						n++
						key := "existing-session:" + what
						good := false
						for _, nc := range nilErrCallsBlock(sv.b) {
							if nc.Common().IsInvoke() && nc.Common().Method.Name() == "Decrypt" {
								good = true
							}
						}
						if good {
							c.OKH(key, ret.Pos(), "%s returned non-zero only from the err==nil edge of the session cipher's Decrypt", what)
						} else {
							c.Bad(key, ret.Pos(), "%s returns a %s (%s) that was not made on the err==nil edge of Decrypt", fnName(f), what, describe(sv.v))
						}
					}
				}
			})
		}
		if n < 2 {
			c.Undecided("existing-session:results", f3.Pos(), "expected the scan to set a block cipher and a success flag, found %d such stores", n)
		}
	}
}

func isBoolType(t types.Type) bool {
	bt, ok := t.Underlying().(*types.Basic)
	return ok && bt.Kind() == types.Bool
}

func isDecryptedValue(v ssa.Value) bool {
	for _, l := range Leaves(v, nil) {
		if ex, ok := l.(*ssa.Extract); ok && ex.Index == 3 {
			if call, ok := ex.Tuple.(*ssa.Call); ok && strings.HasSuffix(calleeID(call), "tryDecryptExistingSession") {
				return true
			}
		}
	}
	return false
}

// nilErrCallsBlock: calls whose error is nil whenever block b executes
// (b itself may be the successor of the test).
func nilErrCallsBlock(b *ssa.BasicBlock) []*ssa.Call {
	if len(b.Instrs) == 0 {
		return nil
	}
	return nilErrCalls(b.Instrs[0])
}

func r05_4(c *RC) {
	p := c.P
	ctor := p.Fn(protoPkg, "newSessionWithServerUserPolicy")
	if ctor == nil {
		c.Anchor("newSessionWithServerUserPolicy")
		return
	}
	var worklist []Site
	worklist = append(worklist, p.CallsToFn(ctor)...)
	seenFn := map[*ssa.Function]bool{}
	for len(worklist) > 0 {
		cs := worklist[0]
		worklist = worklist[1:]
		args := cs.Instr.(ssa.CallInstruction).Common().Args
		// find the isClient argument: the bool parameter
		var isCl ssa.Value
		callee := cs.Instr.(ssa.CallInstruction).Common().StaticCallee()
		for i, prm := range callee.Params {
			if prm.Name() == "isClient" && i < len(args) {
				isCl = args[i]
			}
		}
		key := "newsession@" + fnName(cs.Fn)
		if isCl == nil {
			c.Undecided(key, cs.Pos(), "cannot identify the isClient argument")
			continue
		}
		if cst, ok := isCl.(*ssa.Const); ok {
			if cst.Value.String() == "true" {
				c.OK(key, cs.Pos(), "client session (isClient=true)")
			} else if cs.Fn.Name() == "onOpenSessionRequest" {
				c.OK(key, cs.Pos(), "server session created in onOpenSessionRequest")
			} else {
				c.Bad(key, cs.Pos(), "a server session (isClient=false) is created in %s; only onOpenSessionRequest may create one", fnName(cs.Fn))
			}
			continue
		}
		if prm, ok := isCl.(*ssa.Parameter); ok && prm.Parent() == cs.Fn {
			// pass-through wrapper: check its callers instead
			if !seenFn[cs.Fn] {
				seenFn[cs.Fn] = true
				callers := p.CallsToFn(cs.Fn)
				c.OK(key, cs.Pos(), "wrapper passes isClient through; %d product callers checked", len(callers))
				worklist = append(worklist, callers...)
			}
			continue
		}
		c.Bad(key, cs.Pos(), "isClient argument %s is not a constant nor a pass-through parameter", describe(isCl))
	}
	// sends on readySessions
	rs := p.Field(protoPkg, "baseUnderlay", "readySessions")
	for _, fn := range p.Funcs(protoPkg) {
		instrs(fn, func(_ *ssa.BasicBlock, _ int, in ssa.Instruction) {
			var ch ssa.Value
			switch x := in.(type) {
			case *ssa.Send:
				ch = x.Chan
			case *ssa.Select:
				for _, st := range x.States {
					if st.Dir == types.SendOnly && sameField(fieldOrigin(st.Chan), rs) {
						ch = st.Chan
					}
				}
			}
			if ch == nil || !sameField(fieldOrigin(ch), rs) {
				return
			}
			key := "readySessions<-@" + fnName(fn)
			if fn.Name() == "onOpenSessionRequest" {
				c.OK(key, in.Pos(), "session handed to Accept only in onOpenSessionRequest")
			} else {
				c.Bad(key, in.Pos(), "a session is handed to the application (readySessions) in %s, outside onOpenSessionRequest", fnName(fn))
			}
		})
	}
	// callers of onOpenSessionRequest + validation
	for _, tn := range []string{"StreamUnderlay", "PacketUnderlay"} {
		oo := p.Fn(protoPkg, tn+".onOpenSessionRequest")
		if oo == nil {
			c.Anchor(tn + ".onOpenSessionRequest")
			continue
		}
		for _, cs := range p.CallsToFn(oo) {
			key := "call:onOpenSessionRequest@" + fnName(cs.Fn)
			if cs.Fn.Name() != "RunEventLoop" {
				c.Bad(key, cs.Pos(), "onOpenSessionRequest called from %s, not from the event loop", fnName(cs.Fn))
				continue
			}
			// the call must be control dependent on Protocol()==openSessionRequest (value 2)
			if protoGuard(cs.Instr, 2) {
				c.OKH(key, cs.Pos(), "called in the event loop under Protocol()==openSessionRequest")
			} else {
				c.Bad(key, cs.Pos(), "onOpenSessionRequest call is not guarded by Protocol()==openSessionRequest")
			}
		}
	}
	val := p.Fn(protoPkg, "validateNewServerSessionSegment")
	if val == nil {
		c.Anchor("validateNewServerSessionSegment")
		return
	}
	for _, cs := range p.CallsToFn(val) {
		key := "validate@" + fnName(cs.Fn)
		call := cs.Instr.(*ssa.Call)
		// find error successor
		var errSucc *ssa.BasicBlock
		for _, r := range *call.Referrers() {
			if bo, ok := r.(*ssa.BinOp); ok && (isNilConst(bo.X) || isNilConst(bo.Y)) {
				for _, u := range *bo.Referrers() {
					if iff, ok := u.(*ssa.If); ok {
						if bo.Op.String() == "!=" {
							errSucc = iff.Block().Succs[0]
						} else {
							errSucc = iff.Block().Succs[1]
						}
					}
				}
			}
		}
		if errSucc == nil {
			c.Bad(key, cs.Pos(), "result of validateNewServerSessionSegment is not tested")
			continue
		}
		hit := reachableAvoiding(cs.Fn, errSucc.Instrs[0], func(in ssa.Instruction) bool {
			if r, ok := in.(*ssa.Return); ok && len(r.Results) == 3 && !retIsNil(r, 0) {
				return true
			}
			if cl, ok := in.(ssa.CallInstruction); ok {
				if sc := cl.Common().StaticCallee(); sc != nil && (sc.Name() == "onOpenSessionRequest" || sc.Name() == "deliverSegmentToSession") {
					return true
				}
			}
			return false
		}, nextInput)
		if first := errSucc.Instrs[0]; hit == nil {
			// also check first instruction itself
			_ = first
			c.OKH(key, cs.Pos(), "the error edge of validateNewServerSessionSegment reaches neither session creation, dispatch nor a returned segment before the next read")
		} else {
			c.Bad(key, cs.Pos(), "after validateNewServerSessionSegment failed, %s is still reachable at %s", describeInstr(hit), p.Pos(hit.Pos()))
		}
	}
}

// nextInput marks the instructions that begin processing of the next input
// (loop boundary for "before the next read" arguments).
func nextInput(in ssa.Instruction) bool {
	cl, ok := in.(ssa.CallInstruction)
	if !ok {
		return false
	}
	if cl.Common().IsInvoke() && cl.Common().Method.Name() == "ReadFrom" {
		return true
	}
	if sc := cl.Common().StaticCallee(); sc != nil && sc.Name() == "readOneSegment" {
		return true
	}
	return false
}

func describeInstr(in ssa.Instruction) string {
	if v, ok := in.(ssa.Value); ok {
		return describe(v)
	}
	return strings.TrimSpace(in.String())
}

// protoGuard: the instruction is reachable only when a Protocol() value was
// compared equal to the given constant (switch case / if).
func protoGuard(in ssa.Instruction, val int64) bool {
	for _, e := range controllingEdges(in.Block()) {
		bo, ok := e.If.Cond.(*ssa.BinOp)
		if !ok || bo.Op.String() != "==" || e.Idx != 0 {
			continue
		}
		for _, pair := range [][2]ssa.Value{{bo.X, bo.Y}, {bo.Y, bo.X}} {
			if k, ok := constInt(pair[1]); ok && k == val {
				for _, l := range Leaves(pair[0], nil) {
					if call, ok := l.(*ssa.Call); ok && strings.HasSuffix(calleeID(call), ".Protocol") {
						return true
					}
				}
			}
		}
	}
	return false
}

// mayWriteConn computes the set of product functions that may (transitively,
// through the VTA call graph) write to an underlay connection.
func mayWriteConn(p *Prog) map[*ssa.Function]bool {
	set := map[*ssa.Function]bool{}
	for _, fn := range p.Funcs(protoPkg) {
		instrs(fn, func(_ *ssa.BasicBlock, _ int, in ssa.Instruction) {
			if _, ok := isConnWrite(p, in); ok {
				set[fn] = true
			}
		})
	}
	cg := p.CallGraph()
	changed := true
	for changed {
		changed = false
		for fn, node := range cg.Nodes {
			if fn == nil || set[fn] || !inProductFn(fn) {
				continue
			}
			for _, e := range node.Out {
				if set[e.Callee.Func] {
					set[fn] = true
					changed = true
					break
				}
			}
		}
	}
	return set
}

func inProductFn(f *ssa.Function) bool {
	f = outermost(f)
	if f.Pkg != nil {
		return inProduct(f.Pkg.Pkg.Path())
	}
	if o := f.Origin(); o != nil && o.Pkg != nil {
		return inProduct(o.Pkg.Pkg.Path())
	}
	return false
}

// callsInto reports the first call instruction at or after the start of block
// region (reachable from start without passing stop) whose possible callees
// intersect set.
func callsInto(p *Prog, fn *ssa.Function, start ssa.Instruction, set map[*ssa.Function]bool, stop func(ssa.Instruction) bool) ssa.Instruction {
	cg := p.CallGraph()
	node := cg.Nodes[fn]
	hitsSet := func(in ssa.Instruction) bool {
		if _, direct := isConnWrite(p, in); direct {
			return true
		}
		cl, ok := in.(ssa.CallInstruction)
		if !ok {
			return false
		}
		if sc := cl.Common().StaticCallee(); sc != nil {
			return set[sc]
		}
		if node != nil {
			for _, e := range node.Out {
				if e.Site == cl && set[e.Callee.Func] {
					return true
				}
			}
		}
		return false
	}
	if hitsSet(start) {
		return start
	}
	return reachableAvoiding(fn, start, hitsSet, stop)
}

func r05_5(c *RC) {
	p := c.P
	w := mayWriteConn(p)
	c.Info("may_write_conn_functions", len(w))
	// stream: RunEventLoop, err != nil edge of readOneSegment
	if fn := p.Fn(protoPkg, "StreamUnderlay.RunEventLoop"); fn == nil {
		c.Anchor("StreamUnderlay.RunEventLoop")
	} else {
		found := false
		instrs(fn, func(_ *ssa.BasicBlock, _ int, in ssa.Instruction) {
			call, ok := in.(*ssa.Call)
			if !ok {
				return
			}
			if sc := call.Common().StaticCallee(); sc == nil || sc.Name() != "readOneSegment" {
				return
			}
			errSucc := errSuccessorOfTuple(call, 1)
			if errSucc == nil {
				c.Undecided("stream-fail-branch", call.Pos(), "cannot find the err != nil branch after readOneSegment")
				return
			}
			found = true
			hit := callsInto(p, fn, errSucc.Instrs[0], w, nextInput)
			if hit != nil {
				c.Bad("stream-fail-branch", hit.Pos(), "after readOneSegment failed (crypto/replay/protocol error) the event loop calls %s, which may write to the TCP connection: the server must stay silent", describeInstr(hit))
			} else {
				c.OKH("stream-fail-branch", call.Pos(), "no call reachable from the err!=nil edge may write to the connection (checked against %d may-write functions)", len(w))
			}
		})
		if !found {
			c.Undecided("stream-fail-branch", fn.Pos(), "no readOneSegment call in StreamUnderlay.RunEventLoop")
		}
	}
	if dr := p.Fn(protoPkg, "StreamUnderlay.drainAfterError"); dr != nil {
		if w[dr] {
			c.Bad("drainAfterError", dr.Pos(), "drainAfterError may write to the connection")
		} else {
			c.OKH("drainAfterError", dr.Pos(), "drainAfterError is not in the may-write set")
		}
	}
	// packet: readOneSegment, every failure edge up to "decrypted" (blocks
	// reachable on server path with decrypted false) must not call writers.
	fn := p.Fn(protoPkg, "PacketUnderlay.readOneSegment")
	if fn == nil {
		c.Anchor("PacketUnderlay.readOneSegment")
		return
	}
	var bad ssa.Instruction
	ncalls := 0
	instrs(fn, func(_ *ssa.BasicBlock, _ int, in ssa.Instruction) {
		cl, ok := in.(ssa.CallInstruction)
		if !ok {
			return
		}
		ncalls++
		if sc := cl.Common().StaticCallee(); sc != nil && w[sc] {
			bad = in
		}
		if node := p.CallGraph().Nodes[fn]; node != nil {
			for _, e := range node.Out {
				if e.Site == cl && w[e.Callee.Func] {
					bad = in
				}
			}
		}
	})
	if bad != nil {
		c.Bad("packet-read-silent", bad.Pos(), "PacketUnderlay.readOneSegment calls %s, which may write to the UDP socket: a probe could draw a reply", describeInstr(bad))
	} else {
		c.OKH("packet-read-silent", fn.Pos(), "none of the %d calls in PacketUnderlay.readOneSegment (any branch) may write to the socket", ncalls)
	}
}

// errSuccessorOfTuple: for v = call(...) returning a tuple whose element idx
// is an error, find the successor block taken when that error is non-nil.
func errSuccessorOfTuple(call *ssa.Call, idx int) *ssa.BasicBlock {
	for _, r := range *call.Referrers() {
		ex, ok := r.(*ssa.Extract)
		if !ok || ex.Index != idx {
			continue
		}
		for _, u := range *ex.Referrers() {
			bo, ok := u.(*ssa.BinOp)
			if !ok || !(isNilConst(bo.X) || isNilConst(bo.Y)) {
				continue
			}
			for _, uu := range *bo.Referrers() {
				if iff, ok := uu.(*ssa.If); ok {
					if bo.Op.String() == "!=" {
						return iff.Block().Succs[0]
					}
					return iff.Block().Succs[1]
				}
			}
		}
	}
	return nil
}

func leafKind(l ssa.Value) string {
	switch x := l.(type) {
	case *ssa.Extract:
		if call, ok := x.Tuple.(*ssa.Call); ok {
			id := calleeID(call)
			if i := strings.LastIndex(id, "."); i >= 0 {
				id = id[i+1:]
			}
			return id + "#" + strings.TrimSpace(strings.Repeat(" ", 0)) + itoa(x.Index)
		}
	case *ssa.Const:
		return describe(l)
	case *ssa.Call:
		id := calleeID(x)
		if i := strings.LastIndex(id, "."); i >= 0 {
			id = id[i+1:]
		}
		return id + "()"
	}
	if f := fieldOrigin(l); f != nil {
		return "field:" + f.Name()
	}
	return strings.TrimPrefix(strings.TrimPrefix(fmtT(l), "*ssa."), "ssa.")
}

func itoa(i int) string {
	return strings.TrimSpace(strings.Replace(strings.Repeat("x", 0)+fmtInt(i), " ", "", -1))
}

// clientSends reports whether a protocol constant (by name) is one a client
// sends to a server.
func clientSends(name string) bool {
	switch {
	case strings.Contains(name, "ClientToServer"):
		return true
	case name == "openSessionRequest", name == "closeSessionRequest", name == "closeSessionResponse":
		return true
	}
	return false
}

func serverSends(name string) bool {
	switch {
	case strings.Contains(name, "ServerToClient"):
		return true
	case name == "openSessionResponse", name == "closeSessionRequest", name == "closeSessionResponse":
		return true
	}
	return false
}

func r05_6(c *RC) {
	p := c.P
	consts := protocolConsts(p)
	if len(consts) < 10 {
		c.Anchor("pkg/protocol protocolType constants")
		return
	}
	byVal := map[int64]string{}
	for n, v := range consts {
		byVal[v] = n
	}
	vd := p.Fn(protoPkg, "validateServerSegmentDirection")
	if vd == nil {
		c.Anchor("validateServerSegmentDirection")
	} else {
		for k := int64(0); k < 16; k++ {
			f := &Folder{P: p, Assume: assumeProtocol(k, nil)}
			outs := f.Eval(vd, []cval{{nonNil: true}})
			acc, _ := acceptsNil(outs)
			name := byVal[k]
			if name == "" {
				name = "undefined"
			}
			key := fmt.Sprintf("direction:server-new-session:%d(%s)", k, name)
			want := clientSends(name)
			switch {
			case f.Over:
				c.Undecided(key, vd.Pos(), "constant propagation budget exceeded")
			case acc && !want:
				c.Bad(key, vd.Pos(), "validateServerSegmentDirection accepts protocol %d (%s), which only a server sends: a recorded server datagram reflected from any address would be processed (and answered) as if it came from an authenticated client", k, name)
			case !acc && want:
				c.Bad(key, vd.Pos(), "validateServerSegmentDirection rejects protocol %d (%s), which clients legitimately send", k, name)
			default:
				c.OKH(key, vd.Pos(), "protocol %d (%s): accepted=%v as required", k, name, acc)
			}
		}
	}
	in := p.Fn(protoPkg, "Session.input")
	if in == nil {
		c.Anchor("Session.input")
		return
	}
	stop := func(x ssa.Instruction) bool {
		// the whitelist is over once the function looks at seg.block
		if u, ok := x.(*ssa.UnOp); ok && u.Op == token.MUL {
			if f := fieldOrigin(u); f != nil && f.Name() == "block" {
				return true
			}
		}
		return false
	}
	for _, isClient := range []bool{false, true} {
		for k := int64(0); k < 16; k++ {
			f := &Folder{P: p, Assume: assumeProtocol(k, map[string]bool{"isClient": isClient}), Stop: stop}
			outs := f.Eval(in, []cval{{nonNil: true}, {nonNil: true}})
			// "passes the whitelist" = evaluation gets past it (reaches the
			// first look at seg.block); returning before that - with an
			// error (stream) or nil (datagram dropped) - is a refusal.
			acc := false
			for _, o := range outs {
				if o.Stopped != nil {
					acc = true
				}
			}
			name := byVal[k]
			if name == "" {
				name = "undefined"
			}
			role := "server"
			want := clientSends(name)
			if isClient {
				role = "client"
				want = serverSends(name)
			}
			key := fmt.Sprintf("direction:input-%s:%d(%s)", role, k, name)
			switch {
			case f.Over:
				c.Undecided(key, in.Pos(), "constant propagation budget exceeded")
			case acc && !want:
				c.Bad(key, in.Pos(), "Session.input of a %s session lets protocol %d (%s) through its direction whitelist: a segment of its own sending direction (reflected or forged by a registered user) reaches session state", role, k, name)
			case !acc && want:
				c.Bad(key, in.Pos(), "Session.input of a %s session rejects protocol %d (%s), which its peer legitimately sends", role, k, name)
			default:
				c.OKH(key, in.Pos(), "%s session, protocol %d (%s): passes whitelist=%v as required", role, k, name, acc)
			}
		}
	}
}

// r05_10: a datagram is accepted only at exactly its announced size. The two
// packet parsers return a segment only on a path that passed the test
// "announced payload (+ overhead) + padding == what was received"; a one-sided
// test (>, <) lets a truncated copy of a genuine first datagram through, which
// then creates a session and is answered.
func r05_10(c *RC) {
	p := c.P
	for _, fname := range []string{"PacketUnderlay.parseSessionSegment", "PacketUnderlay.parseDataAckSegment"} {
		fn := p.Fn(protoPkg, fname)
		if fn == nil {
			c.Anchor(fname)
			continue
		}
		var mentionsSuffix func(v ssa.Value, d int) bool
		mentionsSuffix = func(v ssa.Value, d int) bool {
			if d > 8 || v == nil {
				return false
			}
			if f := fieldOrigin(v); f != nil && f.Name() == "suffixLen" {
				return true
			}
			switch x := v.(type) {
			case *ssa.BinOp:
				return mentionsSuffix(x.X, d+1) || mentionsSuffix(x.Y, d+1)
			case *ssa.Convert:
				return mentionsSuffix(x.X, d+1)
			case *ssa.Phi:
				for _, e := range x.Edges {
					if mentionsSuffix(e, d+1) {
						return true
					}
				}
			}
			return false
		}
		isLenParam := func(v ssa.Value) bool {
			cl, ok := v.(*ssa.Call)
			if !ok || calleeNameAny(cl) != "len" {
				return false
			}
			// the received bytes: the parameter itself or what is left of it
			// after the prefix padding was cut off (remaining = remaining[k:])
			var fromParam func(v ssa.Value, d int) bool
			fromParam = func(v ssa.Value, d int) bool {
				if d > 6 {
					return false
				}
				switch x := v.(type) {
				case *ssa.Parameter:
					return true
				case *ssa.Slice:
					return fromParam(x.X, d+1)
				case *ssa.Phi:
					for _, e := range x.Edges {
						if fromParam(e, d+1) {
							return true
						}
					}
				}
				return false
			}
			return fromParam(cl.Common().Args[0], 0)
		}
		isSum := func(v ssa.Value) bool { return mentionsSuffix(v, 0) }
		atom := func(cond ssa.Value) (string, int, bool) {
			v, neg := condAtom(cond)
			ti := 0
			if neg {
				ti = 1
			}
			switch {
			case cmpForm(v, token.EQL, isLenParam, isSum):
				return "size-exact", ti, true
			case cmpForm(v, token.NEQ, isLenParam, isSum):
				return "size-exact", 1 - ti, true
			}
			return "", 0, false
		}
		ex := &Explorer{Fn: fn, Atom: atom, Assume: map[string]bool{"size-exact": false}}
		hit := ex.Reach(nil, func(in ssa.Instruction) bool {
			r, ok := in.(*ssa.Return)
			return ok && len(r.Results) == 2 && retIsNil(r, 1) && !retIsNil(r, 0)
		})
		key := "exact-size@" + fname
		switch {
		case ex.Over:
			c.Undecided(key, fn.Pos(), "exploration budget exceeded")
		case hit != nil:
			c.Bad(key, hit.Pos(), "%s can return a segment for a datagram whose size is not exactly the announced payload plus padding (no equality test on that path): a truncated or extended copy of a genuine datagram is accepted, and for a first datagram a session is created and answered", fname)
		default:
			c.OKH(key, fn.Pos(), "a segment is returned only after len(received) == announced payload + padding (%d states explored with the equality assumed false)", ex.States)
		}
	}
}

// r05_11: no server credential is derived from an empty secret. The registry
// turns a configured user into a credential with cipher.HashPassword(password,
// name); the name is public, so a user entry without a password must never get
// that far (a key that is a function of the name alone is no credential).
// Every HashPassword call in the server user registry whose secret is the
// user's Password must be unreachable when that password is empty — in the
// function itself or, when the function is a helper, at every call of it.
func r05_11(c *RC) {
	p := c.P
	var isPw func(v ssa.Value, d int) bool
	isPw = func(v ssa.Value, d int) bool {
		if d > 6 || v == nil {
			return false
		}
		switch x := v.(type) {
		case *ssa.Call:
			return calleeName(x) == "GetPassword"
		case *ssa.Convert:
			return isPw(x.X, d+1)
		case *ssa.ChangeType:
			return isPw(x.X, d+1)
		case *ssa.Phi:
			for _, e := range x.Edges {
				if isPw(e, d+1) {
					return true
				}
			}
			return false
		}
		if f := fieldOrigin(v); f != nil && f.Name() == "Password" {
			return true
		}
		return false
	}
	pw := func(v ssa.Value) bool { return isPw(v, 0) }
	emptyStr := func(v ssa.Value) bool {
		k, ok := v.(*ssa.Const)
		return ok && k.Value != nil && k.Value.Kind() == constant.String && constant.StringVal(k.Value) == ""
	}
	lenPw := func(v ssa.Value) bool {
		cl, ok := v.(*ssa.Call)
		return ok && calleeNameAny(cl) == "len" && len(cl.Common().Args) == 1 && pw(cl.Common().Args[0])
	}
	atom := func(cond ssa.Value) (string, int, bool) {
		v, neg := condAtom(cond)
		ti := 0
		if neg {
			ti = 1
		}
		switch {
		case cmpForm(v, token.EQL, pw, emptyStr), cmpForm(v, token.EQL, lenPw, isZero), cmpForm(v, token.LEQ, lenPw, isZero):
			return "password-empty", ti, true
		case cmpForm(v, token.NEQ, pw, emptyStr), cmpForm(v, token.NEQ, lenPw, isZero), cmpForm(v, token.GTR, lenPw, isZero):
			return "password-empty", 1 - ti, true
		}
		return "", 0, false
	}
	reachableEmpty := func(fn *ssa.Function, target ssa.Instruction) (bool, bool, int) {
		ex := &Explorer{Fn: fn, Atom: atom, Assume: map[string]bool{"password-empty": true}}
		hit := ex.Reach(nil, func(in ssa.Instruction) bool { return in == target })
		return hit != nil, ex.Over, ex.States
	}
	// testedBefore: the caller tests the password for emptiness somewhere
	// that can reach the call (a compound guard such as "no hash && no
	// password => skip" is not path-correlated with the helper's own early
	// return for hashed entries, so it is accepted as is rather than explored).
	testedBefore := func(fn *ssa.Function, site ssa.Instruction) bool {
		found := false
		for _, b := range fn.Blocks {
			if len(b.Instrs) == 0 {
				continue
			}
			iff, ok := b.Instrs[len(b.Instrs)-1].(*ssa.If)
			if !ok {
				continue
			}
			if _, _, ok := atom(iff.Cond); !ok {
				continue
			}
			seen := map[*ssa.BasicBlock]bool{}
			var walk func(x *ssa.BasicBlock)
			walk = func(x *ssa.BasicBlock) {
				if seen[x] || found {
					return
				}
				seen[x] = true
				if x == site.Block() {
					found = true
					return
				}
				for _, s := range x.Succs {
					walk(s)
				}
			}
			for _, s := range b.Succs {
				walk(s)
			}
		}
		return found
	}
	pkgOf := func(fn *ssa.Function) string {
		for fn != nil && fn.Pkg == nil {
			fn = fn.Parent()
		}
		if fn == nil || fn.Pkg == nil {
			return ""
		}
		return fn.Pkg.Pkg.Path()
	}
	n := 0
	for _, s := range p.CallsTo("MOD/pkg/cipher.HashPassword") {
		if !strings.HasSuffix(pkgOf(s.Fn), "pkg/protocol/serveruser") {
			continue
		}
		call := s.Instr.(ssa.CallInstruction)
		args := call.Common().Args
		if len(args) == 0 {
			continue
		}
		n++
		key := "nonempty-secret@" + ownerName(p, s.Fn)
		if n > 1 {
			key += "#" + fmtInt(n)
		}
		if !pw(args[0]) {
			c.Undecided(key, s.Pos(), "the secret hashed into a server credential is not the user's Password (%s): its emptiness test could not be located", fmtT(args[0]))
			continue
		}
		hit, over, states := reachableEmpty(s.Fn, s.Instr)
		if over {
			c.Undecided(key, s.Pos(), "exploration budget exceeded")
			continue
		}
		if !hit {
			c.OKH(key, s.Pos(), "HashPassword(user password, name) is unreachable in %s when the password is empty (%d states explored with the emptiness test assumed true)", s.Fn.Name(), states)
			continue
		}
		// the test may sit in the callers of a helper
		callers := p.CallsToFn(s.Fn)
		bad := ""
		for _, cs := range callers {
			h, o, _ := reachableEmpty(cs.Fn, cs.Instr)
			if (h || o) && !testedBefore(cs.Fn, cs.Instr) {
				bad = cs.Fn.Name()
				break
			}
		}
		if len(callers) > 0 && bad == "" {
			c.OKH(key, s.Pos(), "%s is called only where the user's password was tested non-empty (%d call sites)", s.Fn.Name(), len(callers))
			continue
		}
		c.Bad(key, s.Pos(), "%s derives a credential with HashPassword from a user entry whose password is empty (no emptiness test on that path%s): the key is then a function of the public user name alone, and a party that knows only the name authenticates, gets a session and is answered", s.Fn.Name(), map[bool]string{true: ", nor in caller " + bad, false: ""}[bad != ""])
	}
	if n == 0 {
		c.Anchor("cipher.HashPassword call in pkg/protocol/serveruser")
	}
}
