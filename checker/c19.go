package main

import (
	"sort"
	"fmt"
	"go/token"
	"strings"

	"golang.org/x/tools/go/ssa"
)

func init() { register("C19", propC19) }

func propC19() *Property {
	return &Property{
		ID:         "C19",
		Decides:    "R19.1 on a server session every successful return of Read/Write that can hand over bytes passes the per-user upload/download counter with the returned count (path-sensitive, all return paths incl. the left-over buffer path); R19.2 the per-user counters are registered under the user name of the cipher that authenticated the session; R19.3 the quota gate: the open response is queued only on the quota-OK edge, the refusal edge records statusQuotaExhausted and closes, checkQuota reads this session's policy and the metric group of the same user; R19.4 roll-up: in doRollUp each history record contributes to exactly one sink on every path through the loop body (kept as is / starts a new bucket / added to the open bucket), the open bucket is flushed after the loop, and roll-up writes only into records it allocated itself (records shared with snapshots are never mutated); R19.5 loading a dump adds max(0, stored - current) and never stores the value.; R19.6 every server session is created with its per-user upload/download counters attached (constructor, from the policy's user name; both creation sites pass the authenticated user's policy), so bytes an application writes before the session's first segment is processed are counted and the fields are not written concurrently with Read/Write (finding F8, repaired in /repo 8af67b3); R19.7 RegisterMetric uses the metric group that metricMap returned (LoadOrStore/Load), so concurrent first registrations of a user end in one shared set of counters",
		NotDecided: "totals over arbitrary timestamp histories, ordering after truncation, window sums, concurrent sessions racing with accounting (F8: the counters are attached by the input goroutine; bytes written before that are not counted — a timing fact), partial multi-chunk writes that fail midway (F10).",
		Rules: []Rule{
			{ID: "R19.1", Floor: 2, Text: "Session.Read/Write: server session, counter attached: no successful return with a possibly positive count is reachable without counter.Add(n)", Run: r19_1},
			{ID: "R19.2", Floor: 2, Text: "RegisterMetric group = UserMetricGroupFormat of (*s.block.Load()).BlockContext().UserName", Run: r19_2},
			{ID: "R19.3", Floor: 3, Text: "quota gate in inputData / checkQuota", Run: r19_3},
			{ID: "R19.4", Floor: 3, Text: "doRollUp linear use, final flush, no mutation of existing records", Run: r19_4},
			{ID: "R19.6", Floor: 6, Text: "the per-user counters are attached when a server session is created (before Accept can hand it out); other stores are the nil-guarded lazy path; creation sites pass the authenticated user's policy", Run: r19_6},
			{ID: "R19.8", Floor: 1, Text: "every datagram segment that carries an authenticated cipher also carries that user's policy (a session created from a datagram decrypted by an existing session of the same user is still bound to the user's quota)", Run: r19_8},
			{ID: "R19.7", Floor: 1, Text: "RegisterMetric registers in the group the registry returned, never in one it allocated itself", Run: r19_7},
			{ID: "R19.5", Floor: 1, Text: "loadCounterFromMetricPB: Add(max(0, src-dst))", Run: r19_5},
		},
	}
}

func r19_1(c *RC) {
	p := c.P
	for _, m := range []struct{ fn, counter string }{{"Session.Read", "uploadBytes"}, {"Session.Write", "downloadBytes"}} {
		fn := p.Fn(protoPkg, m.fn)
		cf := p.Field(protoPkg, "Session", m.counter)
		if fn == nil || cf == nil {
			c.Anchor(m.fn + " / Session." + m.counter)
			continue
		}
		isDirectAdd := func(in ssa.Instruction) bool {
			cl, ok := in.(ssa.CallInstruction)
			if !ok || !cl.Common().IsInvoke() || cl.Common().Method.Name() != "Add" {
				return false
			}
			if !sameField(fieldOrigin(cl.Common().Value), cf) {
				return false
			}
			return true
		}
		var atom func(cond ssa.Value) (string, int, bool)
		// countingHelper: a Session method that, for a server session with
		// the counter attached, adds its parameter to the counter on every
		// path (the accounting lines extracted from Read/Write); returns
		// the parameter index
		countingHelper := func(h *ssa.Function) (int, bool) {
			if h == nil || h.Blocks == nil || relPkg(h) != protoPkg || h == fn {
				return 0, false
			}
			idx := -1
			n := 0
			instrs(h, func(_ *ssa.BasicBlock, _ int, in ssa.Instruction) {
				if !isDirectAdd(in) {
					return
				}
				n++
				for _, l := range Leaves(in.(ssa.CallInstruction).Common().Args[0], nil) {
					for i, prm := range h.Params {
						if ssa.Value(prm) == l {
							idx = i
						}
					}
				}
			})
			if n == 0 || idx < 0 {
				return 0, false
			}
			ex := &Explorer{Fn: h, Atom: func(c ssa.Value) (string, int, bool) { return atom(c) }, Assume: map[string]bool{"isClient": false, "counter-attached": true}, Avoid: isDirectAdd}
			if ex.Reach(nil, isReturn) != nil || ex.Over {
				return 0, false
			}
			return idx, true
		}
		isAdd := func(in ssa.Instruction) bool {
			if isDirectAdd(in) {
				return true
			}
			if cl, ok := in.(*ssa.Call); ok {
				if _, ok := countingHelper(cl.Call.StaticCallee()); ok {
					return true
				}
			}
			return false
		}
		atom = func(cond ssa.Value) (string, int, bool) {
			if f := fieldOrigin(cond); f != nil && f.Name() == "isClient" {
				return "isClient", 0, true
			}
			if bo, ok := cond.(*ssa.BinOp); ok && (bo.Op == token.NEQ || bo.Op == token.EQL) && isNilConst(bo.Y) {
				if sameField(fieldOrigin(bo.X), cf) {
					if bo.Op == token.NEQ {
						return "counter-attached", 0, true
					}
					return "counter-attached", 1, true
				}
			}
			return "", 0, false
		}
		nAdd := 0
		instrs(fn, func(_ *ssa.BasicBlock, _ int, in ssa.Instruction) {
			if isAdd(in) {
				nAdd++
			}
		})
		key := "counted@" + m.fn
		if nAdd == 0 {
			c.Bad(key, fn.Pos(), "%s never adds to Session.%s: traffic of server sessions is not accounted", m.fn, m.counter)
			continue
		}
		ex := &Explorer{Fn: fn, Atom: atom, Assume: map[string]bool{"isClient": false, "counter-attached": true}, Avoid: isAdd}
		hit := ex.Reach(nil, func(in ssa.Instruction) bool {
			r, ok := in.(*ssa.Return)
			if !ok || len(r.Results) != 2 || !retIsNil(r, 1) {
				return false
			}
			if k, ok := constInt(retVal(r, 0)); ok && k == 0 {
				return false
			}
			return true
		})
		switch {
		case ex.Over:
			c.Undecided(key, fn.Pos(), "state budget exceeded")
		case hit != nil:
			c.Bad(key, hit.Pos(), "a server session's %s can return a byte count with a nil error without adding it to the user's %s counter: bytes handed to/accepted from the application on this path are never charged, so a quota cannot bind", strings.TrimPrefix(m.fn, "Session."), m.counter)
		default:
			c.OKH(key, fn.Pos(), "every successful return that can carry a positive count passes %s.Add (%d path states)", m.counter, ex.States)
		}
		// the argument of Add is the returned n
		instrs(fn, func(_ *ssa.BasicBlock, _ int, in ssa.Instruction) {
			if !isAdd(in) {
				return
			}
			arg := in.(ssa.CallInstruction).Common().Args[0]
			if cl, ok := in.(*ssa.Call); ok && !isDirectAdd(in) {
				if idx, ok := countingHelper(cl.Call.StaticCallee()); ok && idx < len(cl.Call.Args) {
					arg = cl.Call.Args[idx]
				}
			}
			named := false
			for _, l := range Leaves(arg, nil) {
				if u, ok := l.(*ssa.UnOp); ok {
					if a, ok := u.X.(*ssa.Alloc); ok && a.Comment == "n" {
						named = true
					}
				}
				if phi, ok := l.(*ssa.Phi); ok && phi.Comment == "n" {
					named = true
				}
				if bo, ok := l.(*ssa.BinOp); ok {
					_ = bo
					named = true
				}
			}
			if named {
				c.OK("counted-value@"+m.fn, in.Pos(), "adds the byte count n")
			} else {
				c.Bad("counted-value@"+m.fn, in.Pos(), "the counter is increased by %s, not by the returned byte count", describe(arg))
			}
		})
	}
}

func r19_2(c *RC) {
	p := c.P
	fn := p.Fn(protoPkg, "Session.input")
	if fn == nil {
		c.Anchor("Session.input")
		return
	}
	sb := p.Field(protoPkg, "Session", "block")
	instrs(fn, func(_ *ssa.BasicBlock, _ int, in ssa.Instruction) {
		call, ok := in.(*ssa.Call)
		if !ok || calleeName(call) != "RegisterMetric" {
			return
		}
		key := "metric-owner@input"
		good := false
		for _, l := range Leaves(call.Common().Args[0], func(v ssa.Value) bool { _, ok := v.(*ssa.Call); return ok }) {
			sp, ok := l.(*ssa.Call)
			if !ok || calleeID(sp) != "fmt.Sprintf" {
				continue
			}
			// variadic element: (*s.block.Load()).BlockContext().UserName
			for _, l2 := range Leaves(sp.Common().Args[1], nil) {
				a, ok := l2.(*ssa.Alloc)
				if !ok {
					continue
				}
				for _, r := range *a.Referrers() {
					ia, ok := r.(*ssa.IndexAddr)
					if !ok {
						continue
					}
					for _, u := range *ia.Referrers() {
						st, ok := u.(*ssa.Store)
						if !ok {
							continue
						}
						for _, l3 := range Leaves(st.Val, nil) {
							fld, ok := l3.(*ssa.Field)
							if !ok {
								continue
							}
							if f := fieldOrigin(fld); f == nil || f.Name() != "UserName" {
								continue
							}
							bc, ok := fld.X.(*ssa.Call)
							if !ok || !bc.Common().IsInvoke() || bc.Common().Method.Name() != "BlockContext" {
								continue
							}
							for _, l4 := range Leaves(bc.Common().Value, nil) {
								if uu, ok := l4.(*ssa.UnOp); ok {
									if ld, ok := uu.X.(*ssa.Call); ok && calleeName(ld) == "Load" && sameField(fieldOrigin(ld.Common().Args[0]), sb) {
										good = true
									}
								}
							}
						}
					}
				}
			}
		}
		if good {
			c.OKH(key, call.Pos(), "group name built from the session cipher's BlockContext().UserName")
		} else {
			c.Bad(key, call.Pos(), "the per-user metric group is not named after the user of the session's authenticating cipher: traffic would be charged to the wrong user")
		}
	})
}

func r19_3(c *RC) {
	p := c.P
	fn := p.Fn(protoPkg, "Session.inputData")
	cq := p.Fn(protoPkg, "Session.checkQuota")
	if fn == nil || cq == nil {
		c.Anchor("Session.inputData / checkQuota")
		return
	}
	var call *ssa.Call
	instrs(fn, func(_ *ssa.BasicBlock, _ int, in ssa.Instruction) {
		if cl, ok := in.(*ssa.Call); ok && cl.Common().StaticCallee() == cq {
			call = cl
		}
	})
	if call == nil {
		c.Bad("quota-gate", fn.Pos(), "inputData no longer calls checkQuota before answering an open-session request")
		return
	}
	// the If on quotaOK (Extract #0)
	var okIf *ssa.If
	denyIdx := 0
	for _, r := range *call.Referrers() {
		if ex, ok := r.(*ssa.Extract); ok && ex.Index == 0 {
			for _, u := range *ex.Referrers() {
				switch x := u.(type) {
				case *ssa.If:
					okIf, denyIdx = x, 1
				case *ssa.UnOp:
					for _, uu := range *x.Referrers() {
						if iff, ok := uu.(*ssa.If); ok {
							okIf, denyIdx = iff, 0
						}
					}
				}
			}
		}
	}
	if okIf == nil {
		c.Bad("quota-gate", call.Pos(), "the result of checkQuota is not branched on")
		return
	}
	deny := okIf.Block().Succs[denyIdx]
	sq := p.Field(protoPkg, "Session", "sendQueue")
	hit := reachableAvoiding(fn, deny.Instrs[0], func(in ssa.Instruction) bool {
		cl, ok := in.(*ssa.Call)
		return ok && calleeName(cl) == "Insert" && sameField(fieldOrigin(cl.Common().Args[0]), sq)
	}, nil)
	if hit != nil {
		c.Bad("quota-gate", hit.Pos(), "after checkQuota reported the quota exhausted, the open-session response can still be queued: an over-quota user gets a working session")
	} else {
		c.OKH("quota-gate", call.Pos(), "on the quota-exhausted edge the open response is never queued")
	}
	st := p.Field(protoPkg, "Session", "status")
	stored, closed := false, false
	for _, in := range deny.Instrs {
		if s, ok := in.(*ssa.Store); ok {
			if f, _ := fieldOfAddr(s.Addr); sameField(f, st) {
				if k, ok := constInt(s.Val); ok && k == 1 {
					stored = true
				}
			}
		}
		if cl, ok := in.(*ssa.Call); ok && calleeName(cl) == "Close" {
			closed = true
		}
	}
	if stored && closed {
		c.OKH("quota-refusal", deny.Instrs[0].Pos(), "refusal records statusQuotaExhausted and closes the session")
	} else {
		c.Bad("quota-refusal", okIf.Pos(), "the refusal edge does not both record statusQuotaExhausted (%v) and close the session (%v)", stored, closed)
	}
	// checkQuota: policy of this session, group of the same user, comparison present
	up := p.Field(protoPkg, "Session", "userPolicy")
	pol, grp, cmp := false, false, false
	// (the metric lookup may live in a helper that receives the user name)
	for _, qf := range withHelpers(p, cq, 2) {
		qf := qf
		instrs(qf, func(_ *ssa.BasicBlock, _ int, in ssa.Instruction) {
			switch x := in.(type) {
			case *ssa.Call:
				if calleeName(x) == "Load" && sameField(fieldOrigin(x.Common().Args[0]), up) {
					pol = true
				}
				if calleeID(x) == "fmt.Sprintf" {
					for _, l := range Leaves(x.Common().Args[1], nil) {
						if a, ok := l.(*ssa.Alloc); ok {
							for _, r := range *a.Referrers() {
								if ia, ok := r.(*ssa.IndexAddr); ok {
									for _, u := range *ia.Referrers() {
										if s, ok := u.(*ssa.Store); ok {
											liftDepth := 1 // one level: helper parameter -> checkQuota's argument
											if qf == cq {
												liftDepth = 2 // none
											}
											for _, l2 := range LeavesIP(p, qf, s.Val, liftDepth) {
												if prm, ok := l2.(*ssa.Parameter); ok && prm.Name() == "userName" && prm.Parent() == cq {
													grp = true
												}
											}
										}
									}
								}
							}
						}
					}
				}
			case *ssa.BinOp:
				// used megabytes > allowance, in any spelling (allowance < used,
				// through a local): one side is bytes / 1048576, the other derives
				// from quota.Megabytes()
				isUsedMB := func(v ssa.Value) bool {
					for _, l := range Leaves(v, nil) {
						if q, ok := l.(*ssa.BinOp); ok && q.Op == token.QUO {
							if k, ok := constInt(q.Y); ok && k == 1048576 {
								return true
							}
						}
					}
					return false
				}
				isAllowance := func(v ssa.Value) bool {
					for _, l := range Leaves(v, nil) {
						if cl, ok := l.(*ssa.Call); ok && calleeName(cl) == "Megabytes" {
							return true
						}
					}
					return false
				}
				if cmpForm(x, token.GTR, isUsedMB, isAllowance) {
					cmp = true
				}
			}
		})
	}
	if pol && grp && cmp {
		c.OKH("check-quota", cq.Pos(), "reads s.userPolicy, the metric group of the same userName, and compares used megabytes with the allowance")
	} else {
		c.Bad("check-quota", cq.Pos(), "checkQuota structure changed: session policy=%v group from userName=%v megabyte comparison=%v", pol, grp, cmp)
	}
}

func r19_4(c *RC) {
	p := c.P
	fn := p.Fn("pkg/metrics", "Counter.doRollUp")
	if fn == nil {
		c.Anchor("metrics.Counter.doRollUp")
		return
	}
	// the loop over c.history, in either form (range, or index with i++):
	// h is the element loaded as history[i] with i the loop's induction
	// variable; the header is the block of that variable's phi, the body
	// starts at the block that loads h.
	var header, body *ssa.BasicBlock
	var h ssa.Value
	instrs(fn, func(b *ssa.BasicBlock, _ int, in ssa.Instruction) {
		u, ok := in.(*ssa.UnOp)
		if !ok || u.Op != token.MUL || h != nil {
			return
		}
		ia, ok := u.X.(*ssa.IndexAddr)
		if !ok {
			return
		}
		if f := fieldOrigin(ia.X); f == nil || f.Name() != "history" {
			return
		}
		var phi *ssa.Phi
		switch x := ia.Index.(type) {
		case *ssa.Phi:
			phi = x
		case *ssa.BinOp:
			if pp, ok := x.X.(*ssa.Phi); ok && x.Op == token.ADD {
				phi = pp
			}
		}
		if phi == nil {
			return
		}
		header, body, h = phi.Block(), b, u
	})
	if header == nil {
		c.Undecided("linear-use", fn.Pos(), "cannot find the loop over c.history")
		return
	}
	if _, isIf := header.Instrs[len(header.Instrs)-1].(*ssa.If); !isIf || len(header.Succs) != 2 {
		c.Undecided("linear-use", fn.Pos(), "the loop over c.history has no recognisable header")
		return
	}
	uses := func(in ssa.Instruction) int {
		cl, ok := in.(*ssa.Call)
		if !ok {
			return 0
		}
		if calleeNameAny(cl) == "append" {
			// append(newHistory, h)
			for _, l := range Leaves(cl.Common().Args[1], nil) {
				if a, ok := l.(*ssa.Alloc); ok {
					for _, r := range *a.Referrers() {
						if ia, ok := r.(*ssa.IndexAddr); ok {
							for _, u := range *ia.Referrers() {
								if s, ok := u.(*ssa.Store); ok && s.Val == h {
									return 1
								}
							}
						}
					}
				}
			}
			return 0
		}
		if calleeName(cl) == "GetDelta" && cl.Common().Args[0] == h {
			return 1
		}
		return 0
	}
	// enumerate paths body -> header
	bad := ""
	npaths := 0
	var walk func(b *ssa.BasicBlock, count int, seen map[*ssa.BasicBlock]bool)
	walk = func(b *ssa.BasicBlock, count int, seen map[*ssa.BasicBlock]bool) {
		if npaths > 5000 {
			return
		}
		for _, in := range b.Instrs {
			count += uses(in)
		}
		for _, s := range b.Succs {
			if s == header {
				npaths++
				if count != 1 && bad == "" {
					bad = "a path through the loop body uses the record " + map[bool]string{true: "not at all (its delta is dropped)", false: "more than once (its delta is counted twice)"}[count == 0]
				}
				continue
			}
			if seen[s] || !header.Dominates(s) {
				continue
			}
			seen[s] = true
			walk(s, count, seen)
			delete(seen, s)
		}
	}
	walk(body, 0, map[*ssa.BasicBlock]bool{body: true})
	if bad == "" && npaths > 0 {
		c.OKH("linear-use", body.Instrs[0].Pos(), "each of the %d paths through the loop body consumes the record exactly once (kept / new bucket / added to the open bucket)", npaths)
	} else {
		c.Bad("linear-use", body.Instrs[0].Pos(), "doRollUp: %s — compaction would change the counter's total", bad)
	}
	// flush after the loop
	flushed := false
	exit := header.Succs[1]
	reach := blockReach(exit, nil)
	for b := range reach {
		for _, in := range b.Instrs {
			if cl, ok := in.(*ssa.Call); ok && calleeNameAny(cl) == "append" {
				flushed = true
			}
		}
	}
	if flushed {
		c.OK("final-flush", exit.Instrs[0].Pos(), "the open bucket is appended after the loop")
	} else {
		c.Bad("final-flush", exit.Instrs[0].Pos(), "the last open bucket is not appended after the loop: its total is lost")
	}
	// no mutation of existing records: every store through a History pointer targets a record allocated here
	mut := ""
	instrs(fn, func(_ *ssa.BasicBlock, _ int, in ssa.Instruction) {
		st, ok := in.(*ssa.Store)
		if !ok {
			return
		}
		var rec ssa.Value
		switch a := st.Addr.(type) {
		case *ssa.FieldAddr:
			f, base := fieldOfAddr(a)
			if f == nil || !strings.HasSuffix(base.Type().String(), "metricspb.History") {
				return
			}
			rec = base
		case *ssa.UnOp:
			// *last.Delta = ...
			if fa, ok := a.X.(*ssa.FieldAddr); ok {
				f, base := fieldOfAddr(fa)
				if f == nil || !strings.HasSuffix(base.Type().String(), "metricspb.History") {
					return
				}
				rec = base
			} else {
				return
			}
		default:
			return
		}
		for _, l0 := range Leaves(rec, nil) {
			// a record made by a local constructor helper is as fresh as a literal
			for _, l := range helperResultLeaves(p, l0) {
				switch l.(type) {
				case *ssa.Alloc:
				case *ssa.Const:
				default:
					mut = describe(l)
				}
			}
		}
	})
	if mut == "" {
		c.OKH("no-shared-mutation", fn.Pos(), "roll-up writes only into History records it allocated itself")
	} else {
		c.Bad("no-shared-mutation", fn.Pos(), "doRollUp writes into an existing history record (%s): snapshots taken for a dump or for GetUsers share these records, so a dumped series can add up to more than its total and a reloaded window exceeds the counter value", mut)
	}
}

func r19_5(c *RC) {
	p := c.P
	fn := p.Fn("pkg/metrics", "loadCounterFromMetricPB")
	if fn == nil {
		c.Anchor("metrics.loadCounterFromMetricPB")
		return
	}
	good := false
	valueStore := false
	instrs(fn, func(_ *ssa.BasicBlock, _ int, in ssa.Instruction) {
		switch x := in.(type) {
		case *ssa.Call:
			if calleeName(x) == "Add" {
				for _, l := range Leaves(callArgs(x)[len(callArgs(x))-1], nil) {
					if mx, ok := l.(*ssa.Call); ok && calleeName(mx) == "Max" {
						zero := false
						sub := false
						for _, a := range mx.Common().Args {
							if k, ok := constInt(a); ok && k == 0 {
								zero = true
							}
							if bo, ok := a.(*ssa.BinOp); ok && bo.Op == token.SUB {
								sub = true
							}
						}
						if zero && sub {
							good = true
						}
					}
				}
			}
		case *ssa.Store:
			if f, _ := fieldOfAddr(x.Addr); f != nil && f.Name() == "value" {
				valueStore = true
			}
		}
	})
	if good && !valueStore {
		c.OKH("load-monotone", fn.Pos(), "dst.Add(max(0, src.value - dst.value)); the value field is never stored")
	} else {
		c.Bad("load-monotone", fn.Pos(), "loading a dump is not Add(max(0, stored-current)) (max form=%v, direct store to value=%v): a reload can decrease or double a counter", good, valueStore)
	}
}

// r19_6: the per-user counters of a server session are attached before the
// session can be used by the application (finding F8): the constructor stores
// both counters when the authenticated user is known, the group name is that
// user's, and every server-side creation site passes the authenticated
// user's policy. Every other store of the two fields is the nil-guarded lazy
// registration in Session.input.
func r19_6(c *RC) {
	p := c.P
	ctor := p.Fn(protoPkg, "newSessionWithServerUserPolicy")
	if ctor == nil {
		c.Anchor("newSessionWithServerUserPolicy")
		return
	}
	for _, fname := range []string{"uploadBytes", "downloadBytes"} {
		f := p.Field(protoPkg, "Session", fname)
		if f == nil {
			c.Anchor("Session." + fname)
			continue
		}
		inCtor := false
		for _, s := range p.FieldStores(f) {
			st, ok := s.Instr.(*ssa.Store)
			if !ok {
				continue
			}
			key := fname + "-store@" + fnName(s.Fn)
			switch {
			case s.Fn == ctor:
				// value: RegisterMetric(Sprintf(UserMetricGroupFormat, policy.Name()), ...)
				good := false
				if call, ok := st.Val.(*ssa.Call); ok && calleeName(call) == "RegisterMetric" {
					for _, l := range Leaves(call.Call.Args[0], func(v ssa.Value) bool { _, ok := v.(*ssa.Call); return ok }) {
						if sp, ok := l.(*ssa.Call); ok && calleeID(sp) == "fmt.Sprintf" {
							if usesPolicyName(sp, ctor) {
								good = true
							}
						}
					}
				}
				// guarded by !isClient and policy.Name() != ""
				var conds []string
				for _, ce := range controlConds(ctor, st.Block()) {
					conds = append(conds, describe(ce.If.Cond))
				}
				if good {
					inCtor = true
					c.OKH(key, s.Pos(), "attached in the constructor from the policy's user name (under %v)", conds)
				} else {
					c.Bad(key, s.Pos(), "the constructor attaches %s to a group that is not derived from the policy's user name", fname)
				}
			case ownerName(p, s.Fn) == "input":
				// lazy path: guarded by field == nil
				guarded := false
				for _, ce := range controllingEdges(st.Block()) {
					if bo, ok := ce.If.Cond.(*ssa.BinOp); ok && bo.Op == token.EQL && ce.Idx == 0 && isNilConst(bo.Y) && sameField(fieldOrigin(bo.X), f) {
						guarded = true
					}
				}
				if guarded {
					c.OK(key, s.Pos(), "lazy registration, only when the constructor did not know the user")
				} else {
					c.Bad(key, s.Pos(), "Session.input overwrites %s without the nil guard: a counter attached at creation is replaced while the application may be using it", fname)
				}
			default:
				c.Bad(key, s.Pos(), "%s stores Session.%s: the field is read without a lock by Read/Write, so only the constructor (before publication) and the nil-guarded first segment may set it", fnName(s.Fn), fname)
			}
		}
		if !inCtor {
			c.Bad(fname+"-attached-at-creation", ctor.Pos(), "server sessions are created without their per-user %s counter: the session is handed to the application (Accept) before its first segment is processed, so an application that writes first races with the input goroutine on the field and its bytes are not counted against the user", fname)
		}
	}
	// every server-side creation passes the authenticated user's policy
	for _, s := range p.CallsToFn(ctor) {
		cl := s.Instr.(ssa.CallInstruction)
		if k, ok := cl.Common().Args[1].(*ssa.Const); !ok || k.Value == nil || k.Value.String() != "false" {
			continue // client sessions / generic wrapper
		}
		key := "creation-knows-user@" + fnName(s.Fn)
		// Where does each transport learn the user of a new session?
		//  - datagrams: every datagram that opens a session was authenticated by
		//    discovery, which stores the user's policy in that segment;
		//  - a TCP connection authenticates once: only its first segment
		//    carries a policy, later sessions multiplexed on the connection
		//    must take the policy remembered by the underlay.
		recvT := ""
		if s.Fn.Signature.Recv() != nil {
			recvT = s.Fn.Signature.Recv().Type().String()
		}
		stream := strings.HasSuffix(recvT, "StreamUnderlay")
		var how []string
		fromUnderlay, fromSegment, fromAuth := false, false, false
		for _, l := range Leaves(cl.Common().Args[3], nil) {
			if x, ok := l.(*ssa.Call); ok && calleeName(x) == "Policy" {
				fromAuth = true
				how = append(how, "authentication.Policy()")
			}
			if f := fieldOrigin(l); f != nil && f.Name() == "serverUserPolicy" {
				owner := ""
				if u, ok := l.(*ssa.UnOp); ok {
					if fa, ok := u.X.(*ssa.FieldAddr); ok {
						owner = fa.X.Type().String()
					}
				}
				if strings.HasSuffix(owner, "segment") {
					fromSegment = true
					how = append(how, "segment.serverUserPolicy")
				} else {
					fromUnderlay = true
					how = append(how, "underlay.serverUserPolicy")
				}
			}
		}
		switch {
		case stream && fromUnderlay:
			c.OKH(key, s.Pos(), "stream: the policy remembered by the connection (%s)", strings.Join(how, ", "))
		case stream:
			c.Bad(key, s.Pos(), "a TCP connection is authenticated once, on its first segment; %s creates later sessions of the same connection from %v only, i.e. without a user: their quota is not checked and their traffic is not attributed", fnName(s.Fn), how)
		case fromSegment || fromAuth:
			c.OKH(key, s.Pos(), "datagram: the policy discovery stored in the authenticated segment (%s)", strings.Join(how, ", "))
		default:
			c.Bad(key, s.Pos(), "%s creates a server session with policy %s, which is not the authenticated user's", fnName(s.Fn), describe(cl.Common().Args[3]))
		}
	}
}

// usesPolicyName: a fmt.Sprintf call whose variadic slice holds policy.Name() of the constructor's policy parameter.
func usesPolicyName(sp *ssa.Call, ctor *ssa.Function) bool {
	if len(sp.Call.Args) < 2 {
		return false
	}
	found := false
	for _, l2 := range Leaves(sp.Call.Args[1], nil) {
		a, ok := l2.(*ssa.Alloc)
		if !ok {
			continue
		}
		for _, r := range *a.Referrers() {
			ia, ok := r.(*ssa.IndexAddr)
			if !ok {
				continue
			}
			for _, u := range *ia.Referrers() {
				st, ok := u.(*ssa.Store)
				if !ok {
					continue
				}
				for _, l3 := range Leaves(st.Val, nil) {
					if nc, ok := l3.(*ssa.Call); ok && calleeName(nc) == "Name" {
						for _, l4 := range Leaves(nc.Call.Args[0], nil) {
							if prm, ok := l4.(*ssa.Parameter); ok && prm.Name() == "policy" {
								found = true
							}
							if u2, ok := l4.(*ssa.UnOp); ok {
								if al, ok := u2.X.(*ssa.Alloc); ok && al.Comment == "policy" {
									found = true
								}
							}
						}
					}
				}
			}
		}
	}
	return found
}

// r19_7: RegisterMetric hands out the one registered object. The group in
// which a metric is looked up / stored is the value that metricMap returned
// (LoadOrStore result or a Load), never a group this call allocated itself:
// a freshly allocated group used after a lost LoadOrStore race is invisible
// to the quota check and the dump, so traffic counted there is not counted
// against the user (seed C19f).
func r19_7(c *RC) {
	p := c.P
	fn := p.Fn("pkg/metrics", "RegisterMetric")
	if fn == nil {
		c.Anchor("metrics.RegisterMetric")
		return
	}
	n := 0
	instrs(fn, func(_ *ssa.BasicBlock, _ int, in ssa.Instruction) {
		cl, ok := in.(*ssa.Call)
		if !ok || calleeID(cl) != "(*sync.Map).LoadOrStore" {
			return
		}
		f := fieldOrigin(cl.Call.Args[0])
		if f == nil || f.Name() != "metrics" {
			return
		}
		// the group: base of &group.metrics
		fa, ok := cl.Call.Args[0].(*ssa.FieldAddr)
		if !ok {
			return
		}
		n++
		var fresh []string
		canonical := false
		for _, l := range Leaves(fa.X, nil) {
			switch x := l.(type) {
			case *ssa.Alloc:
				fresh = append(fresh, "a MetricGroup allocated by this call")
			case *ssa.Extract:
				if mc, ok := x.Tuple.(*ssa.Call); ok && (calleeID(mc) == "(*sync.Map).LoadOrStore" || calleeID(mc) == "(*sync.Map).Load") {
					canonical = true
				}
			case *ssa.TypeAssert:
				canonical = true
			case *ssa.Call:
				if calleeName(x) == "GetMetricGroupByName" {
					canonical = true
				}
			}
		}
		if len(fresh) == 0 && canonical {
			c.OKH("metric-in-registered-group", in.Pos(), "the metric is registered in the group that the registry returned")
		} else {
			c.Bad("metric-in-registered-group", in.Pos(), "RegisterMetric can register a metric in %v instead of the group the registry holds: when two first sessions of a user race, the loser's counters live in an unpublished group that neither the quota check nor the dump reads", fresh)
		}
	})
	if n == 0 {
		c.Undecided("metric-in-registered-group", fn.Pos(), "no group.metrics.LoadOrStore found in RegisterMetric")
	}
}


// r19_8: on the datagram transport a new session can be created from a
// segment that was decrypted with the cipher of an existing session of the
// same client address, without going through user discovery. Its quota is
// enforced only if the segment carries the matched user's policy. Decided: in
// PacketUnderlay.readOneSegment every store seg.block = <matched cipher> has
// a store seg.serverUserPolicy = <matched policy> under exactly the same
// conditions.
func r19_8(c *RC) {
	p := c.P
	fn := p.Fn(protoPkg, "PacketUnderlay.readOneSegment")
	blk := p.Field(protoPkg, "segment", "block")
	pol := p.Field(protoPkg, "segment", "serverUserPolicy")
	if fn == nil || blk == nil || pol == nil {
		c.Anchor("PacketUnderlay.readOneSegment / segment.block / segment.serverUserPolicy")
		return
	}
	edgeKey := func(b *ssa.BasicBlock) string {
		var ks []string
		for _, e := range controllingEdges(b) {
			ks = append(ks, fmt.Sprintf("%d/%d", e.If.Block().Index, e.Idx))
		}
		sort.Strings(ks)
		return strings.Join(ks, ",")
	}
	type st struct {
		in   *ssa.Store
		base ssa.Value
	}
	var blocks, pols []st
	for _, f := range withHelpers(p, fn, 1) {
		instrs(f, func(_ *ssa.BasicBlock, _ int, in ssa.Instruction) {
			s, ok := in.(*ssa.Store)
			if !ok {
				return
			}
			fld, base := fieldOfAddr(s.Addr)
			switch {
			case sameField(fld, blk) && !isNilConst(s.Val):
				blocks = append(blocks, st{s, base})
			case sameField(fld, pol):
				pols = append(pols, st{s, base})
			}
		})
	}
	if len(blocks) == 0 {
		c.Undecided("policy-travels-with-cipher", fn.Pos(), "readOneSegment sets no segment.block")
		return
	}
	for _, b := range blocks {
		key := "policy-travels-with-cipher"
		good := false
		for _, q := range pols {
			if q.in.Parent() == b.in.Parent() && q.base == b.base && (q.in.Block() == b.in.Block() || edgeKey(q.in.Block()) == edgeKey(b.in.Block())) {
				good = true
			}
		}
		if good {
			c.OKH(key, b.in.Pos(), "seg.serverUserPolicy is set wherever seg.block is")
		} else {
			c.Bad(key, b.in.Pos(), "a datagram segment gets the authenticated cipher without the matched user's policy under the same conditions: a session opened by a datagram that an existing session of the same address decrypted is created without a policy, checkQuota finds no user, and an over-quota user is served")
		}
	}
}
