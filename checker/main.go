// mverif: repository-specific static analyser for enfein/mieru.
//
//	mverif check -prop C05 -tier quick      decide one property on /repo
//	mverif explain <report.json>            re-evaluate the rule of a report
//	mverif sweep [-prop C05] [-dir mutants] apply each mutant patch to a scratch copy and check detection
//	mverif list                             list properties and rules
package main

import (
	"encoding/json"
	"flag"
	"fmt"
	"os"
	"path/filepath"
	"sort"
	"strconv"
)

var registry = map[string]func() *Property{}

func register(id string, f func() *Property) { registry[id] = f }

func verifDir() string {
	if d := os.Getenv("VERIF_DIR"); d != "" {
		return d
	}
	exe, err := os.Executable()
	if err == nil {
		d := filepath.Dir(filepath.Dir(exe))
		if _, err := os.Stat(filepath.Join(d, "properties.jsonl")); err == nil {
			return d
		}
	}
	return "/verif"
}

func main() {
	if len(os.Args) < 2 {
		fmt.Fprintln(os.Stderr, "usage: mverif check|explain|sweep|list ...")
		os.Exit(2)
	}
	switch os.Args[1] {
	case "check":
		os.Exit(cmdCheck(os.Args[2:]))
	case "explain":
		os.Exit(cmdExplain(os.Args[2:]))
	case "sweep":
		os.Exit(cmdSweep(os.Args[2:]))
	case "checkall":
		os.Exit(cmdCheckAll(os.Args[2:]))
	case "negsweep":
		os.Exit(cmdNegSweep(os.Args[2:]))
	case "list":
		var ids []string
		for id := range registry {
			ids = append(ids, id)
		}
		sort.Strings(ids)
		for _, id := range ids {
			p := registry[id]()
			fmt.Printf("%s (%d rules)\n", id, len(p.Rules))
			for _, r := range p.Rules {
				fmt.Printf("  %s floor=%d %s\n", r.ID, r.Floor, r.Text)
			}
		}
	default:
		fmt.Fprintln(os.Stderr, "unknown command", os.Args[1])
		os.Exit(2)
	}
}

func cmdCheck(args []string) int {
	fs := flag.NewFlagSet("check", flag.ExitOnError)
	prop := fs.String("prop", "", "property id")
	tier := fs.String("tier", "quick", "quick|thorough")
	repo := fs.String("repo", "/repo", "repository working tree")
	noev := fs.Bool("no-evidence", false, "do not write evidence/report files")
	result := fs.String("result", "", "write failed obligations as JSON to this file")
	verbose := fs.Bool("v", false, "print every obligation")
	goos := fs.String("goos", "", "GOOS of the analysed configuration")
	goarch := fs.String("goarch", "", "GOARCH of the analysed configuration")
	fs.Parse(args)
	if t := os.Getenv("VERIF_TIER"); t != "" && *tier == "" {
		*tier = t
	}
	mk, ok := registry[*prop]
	if !ok {
		fmt.Fprintf(os.Stderr, "unknown property %q\n", *prop)
		return 2
	}
	seed, _ := strconv.ParseInt(os.Getenv("VERIF_SEED"), 10, 64)
	o := RunOpts{VerifDir: verifDir(), RepoDir: *repo, Tier: *tier, Seed: seed, NoEvidence: *noev, Result: *result, GOOS: *goos, GOARCH: *goarch, Verbose: *verbose}
	if *result != "" {
		o.Quiet = true
	}
	return checkOne(mk(), o)
}

// checkOne loads the tree and decides one property. Load failures are
// failures of the check (never a silent pass).
func checkOne(pr *Property, o RunOpts) int {
	known := loadKnown(o.VerifDir)
	p, err := LoadProg(o.RepoDir, o.GOOS, o.GOARCH, nil)
	if err != nil {
		if o.Result != "" {
			b, _ := json.Marshal(map[string]any{"load_error": err.Error()})
			os.WriteFile(o.Result, b, 0o644)
		}
		res := &RunResult{Info: map[string]any{}}
		res.Failed = []Obligation{{Rule: "LOAD", Key: "load", Pos: "-", Status: Violation, Why: err.Error()}}
		res.Obs = res.Failed
		return emit(pr, res, o, nil)
	}
	res := runProperty(p, pr, known)
	if o.Result != "" {
		b, _ := json.Marshal(map[string]any{"failed": res.Failed, "obligations": len(res.Obs)})
		os.WriteFile(o.Result, b, 0o644)
	}
	extra := map[string]any{"configs": []string{"linux/amd64"}}
	code := emit(pr, res, o, nil)
	if o.Tier == "thorough" && !o.NoEvidence {
		// Thorough: additional build configurations + mutant sweep.
		tx := thoroughExtras(pr, o, known)
		for k, v := range tx.extra {
			extra[k] = v
		}
		if tx.code != 0 {
			code = 1
		}
		// rewrite evidence with the extras
		writeEvidence(pr, res, o, extra)
	}
	return code
}

func cmdExplain(args []string) int {
	if len(args) < 1 {
		fmt.Fprintln(os.Stderr, "usage: mverif explain <report.json> [-repo dir]")
		return 2
	}
	b, err := os.ReadFile(args[0])
	if err != nil {
		fmt.Fprintln(os.Stderr, err)
		return 2
	}
	var rep struct {
		Property, Rule, Key, Pos, Message, RuleText string
	}
	json.Unmarshal(b, &rep)
	var m map[string]any
	json.Unmarshal(b, &m)
	rep.RuleText, _ = m["rule_text"].(string)
	repo := "/repo"
	if len(args) >= 3 && args[1] == "-repo" {
		repo = args[2]
	}
	mk, ok := registry[rep.Property]
	if !ok {
		fmt.Fprintln(os.Stderr, "unknown property in report")
		return 2
	}
	pr := mk()
	p, err := LoadProg(repo, "", "", nil)
	if err != nil {
		fmt.Println("load failed:", err)
		return 1
	}
	// run only the reported rule
	var rules []Rule
	for _, r := range pr.Rules {
		if r.ID == rep.Rule {
			rules = append(rules, r)
		}
	}
	pr.Rules = rules
	res := runProperty(p, pr, KnownFile{})
	fmt.Printf("report: property=%s rule=%s key=%s\nrule text: %s\nrecorded at %s: %s\n\n", rep.Property, rep.Rule, rep.Key, rep.RuleText, rep.Pos, rep.Message)
	found := false
	for _, ob := range res.Obs {
		if ob.Key == rep.Key {
			found = true
			fmt.Printf("on the current tree: %s at %s: %s\n", ob.Status, ob.Pos, ob.Why)
			if ob.Status == Violation || ob.Status == Undecided {
				fmt.Printf("VIOLATION property=%s replay=%s\n", rep.Property, args[0])
				return 1
			}
		}
	}
	if !found {
		fmt.Println("on the current tree: this rule instance no longer exists (construct removed or repaired)")
	}
	return 0
}
