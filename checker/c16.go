package main

import (
	"fmt"
	"go/constant"
	"go/token"
	"go/types"
	"sort"
	"strings"

	"golang.org/x/tools/go/ssa"
)

func init() { register("C16", propC16) }

const tpPkg = "apis/trafficpattern"

func propC16() *Property {
	return &Property{
		ID:         "C16",
		Decides:    "R16.1 explicit values are never overwritten by implicit generation: every store into the effective pattern in the generate* functions is unreachable when the same field of the original pattern is set; R16.2 implicit values are a function of (seed, unlockAll, explicit fields) only: the generators call no randomness/time source other than rng.FixedInt with a seed-scoped hint (FixedIntVH only to pick a default seed), every generated field has its own hint key, and rng.FixedInt's cache stores a value that does not depend on n (so the same hint with a different range cannot return a stale value); R16.3 generated extremes satisfy the validator: each generator is folded with FixedInt at 0 and at n-1 for both unlockAll values and the resulting field values are fed to the corresponding validate* function; the generated minLen is capped by an explicit maxLen; no generated enum value is outside its name table and NONCE_TYPE_FIXED is never generated; R16.4 consumers: the padding budget stored into prefixLen comes from the middle-padding cap and the one stored into suffixLen from the end-padding cap, maxPaddingSizeWithTrafficPattern folds to min(budget, configured) and 0 for negative, a server sends low entropy only after the client did (folded), clientUseLowEntropy is set only on receipt of dataClientToServerLowEntropy; R16.5 Encode/Decode marshal the whole message with one base64 alphabet.",
		NotDecided: "that emitted bytes have the configured statistical shape; distributions of rng; nonce rewriting content; TCP fragmentation timing.",
		Rules: []Rule{
			{ID: "R16.1", Floor: 10, Text: "no store to effective.X.Y is reachable when original.X != nil && original.X.Y != nil", Run: r16_1},
			{ID: "R16.2", Floor: 12, Text: "determinism: allowed calls only, distinct hint keys, FixedInt cache independent of n", Run: r16_2},
			{ID: "R16.3", Floor: 7, Text: "generated extremes pass validation; minLen capped by explicit maxLen; enum draws inside the tables", Run: r16_3},
			{ID: "R16.4", Floor: 8, Text: "consumers use the effective pattern through the right door", Run: r16_4},
			{ID: "R16.5", Floor: 2, Text: "Encode/Decode: proto.Marshal/Unmarshal of the whole message + base64.StdEncoding on both sides", Run: r16_5},
		},
	}
}

func generators(p *Prog) []*ssa.Function {
	var out []*ssa.Function
	for _, n := range []string{"generateTCPFragment", "generateNoncePattern", "generatePaddingPattern", "generateLowEntropyPattern"} {
		if fn := p.Fn(tpPkg, "Config."+n); fn != nil {
			out = append(out, fn)
		}
	}
	return out
}

// accessPath renders x.f.g chains of loads as a dotted path, e.g.
// "c.original.Nonce.MinLen".
func accessPath(v ssa.Value) string {
	switch x := v.(type) {
	case *ssa.Parameter:
		return x.Name()
	case *ssa.UnOp:
		if x.Op == token.MUL {
			return accessPath(x.X)
		}
	case *ssa.FieldAddr:
		f, base := fieldOfAddr(x)
		if f != nil {
			return accessPath(base) + "." + f.Name()
		}
	}
	return "?"
}

func r16_1(c *RC) {
	p := c.P
	gens := generators(p)
	if len(gens) != 4 {
		c.Anchor("trafficpattern.Config.generate{TCPFragment,NoncePattern,PaddingPattern,LowEntropyPattern}")
		return
	}
	for _, fn := range gens {
		instrs(fn, func(_ *ssa.BasicBlock, _ int, in ssa.Instruction) {
			st, ok := in.(*ssa.Store)
			if !ok {
				return
			}
			fa, ok := st.Addr.(*ssa.FieldAddr)
			if !ok {
				return
			}
			path := accessPath(fa)
			if !strings.Contains(path, ".effective.") {
				return
			}
			parts := strings.Split(path, ".") // c effective Sub [Field]
			key := "implicit-store:" + strings.Join(parts[2:], ".")
			if len(parts) == 3 {
				// sub-message creation: allowed when effective.Sub == nil
				okGuard := false
				for _, e := range controllingEdges(in.Block()) {
					if bo, ok := e.If.Cond.(*ssa.BinOp); ok && bo.Op == token.EQL && e.Idx == 0 && isNilConst(bo.Y) && accessPath(bo.X) == path {
						okGuard = true
					}
				}
				if okGuard {
					c.OK(key, st.Pos(), "empty sub-message created only when it is absent")
				} else {
					c.Bad(key, st.Pos(), "the whole %s sub-message of the effective pattern is replaced although it may be explicitly configured", parts[2])
				}
				return
			}
			origSub := parts[0] + ".original." + parts[2]
			origFld := origSub + "." + parts[3]
			atom := func(cond ssa.Value) (string, int, bool) {
				bo, ok := cond.(*ssa.BinOp)
				if !ok || (bo.Op != token.EQL && bo.Op != token.NEQ) || !isNilConst(bo.Y) {
					return "", 0, false
				}
				ap := accessPath(bo.X)
				ti := 0
				if bo.Op == token.NEQ {
					ti = 1
				}
				if ap == origSub {
					return "sub-nil", ti, true
				}
				if ap == origFld {
					return "field-nil", ti, true
				}
				return "", 0, false
			}
			ex := &Explorer{Fn: fn, Atom: atom, Assume: map[string]bool{"sub-nil": false, "field-nil": false}}
			hit := ex.Reach(nil, func(x ssa.Instruction) bool { return x == in })
			if hit != nil {
				c.Bad(key, st.Pos(), "effective.%s.%s is overwritten although original.%s.%s is set: an explicitly configured value is replaced by implicit generation", parts[2], parts[3], parts[2], parts[3])
			} else {
				c.OKH(key, st.Pos(), "unreachable when original.%s.%s is set (%d path states)", parts[2], parts[3], ex.States)
			}
		})
	}
}

func r16_2(c *RC) {
	p := c.P
	gens := generators(p)
	top := p.Fn(tpPkg, "Config.generateImplicitTrafficPattern")
	if len(gens) != 4 || top == nil {
		c.Anchor("trafficpattern generators")
		return
	}
	allowed := func(id string) bool {
		switch {
		case id == "fmt.Sprintf", strings.HasPrefix(id, "builtin:"),
			strings.HasSuffix(id, "pkg/rng.FixedInt"),
			strings.Contains(id, "google.golang.org/protobuf/proto."),
			strings.Contains(id, "appctlpb."):
			return true
		}
		return false
	}
	hints := map[string]string{}
	for _, fn := range gens {
		instrs(fn, func(_ *ssa.BasicBlock, _ int, in ssa.Instruction) {
			cl, ok := in.(*ssa.Call)
			if !ok {
				return
			}
			id := calleeID(cl)
			key := "generator-call@" + fn.Name()
			if _, _, isHint := hintHelper(cl.Common().StaticCallee()); isHint {
				return // judged where its result is handed to FixedInt
			}
			if !allowed(id) {
				c.Bad(key, cl.Pos(), "%s calls %s: implicit values must depend on the seed, unlockAll and the explicit fields only", fn.Name(), strings.ReplaceAll(id, modPath+"/", ""))
				return
			}
			if strings.HasSuffix(id, "rng.FixedInt") {
				// hint = Sprintf("%d:<key>", seed)
				hk := ""
				// the hint may be built by a local helper: func implicitHint(seed int, field string) string { return fmt.Sprintf("%d:%s", seed, field) }
				for _, hl := range Leaves(cl.Common().Args[1], nil) {
					hc, ok := hl.(*ssa.Call)
					if !ok {
						continue
					}
					if seedIdx, fieldIdx, isHint := hintHelper(hc.Common().StaticCallee()); isHint {
						seedOK := false
						for _, l2 := range Leaves(hc.Common().Args[seedIdx], nil) {
							if prm, ok := l2.(*ssa.Parameter); ok && prm.Name() == "seed" {
								seedOK = true
							}
						}
						if k, ok := hc.Common().Args[fieldIdx].(*ssa.Const); ok && seedOK && k.Value != nil {
							hk = "%d:" + constant.StringVal(k.Value)
						}
					}
				}
				if hk != "" {
					hints[p.Pos(cl.Pos())] = hk
					c.OK(key, cl.Pos(), "rng.FixedInt(n, hint(seed, %q))", strings.TrimPrefix(hk, "%d:"))
					return
				}
				if sp, ok := cl.Common().Args[1].(*ssa.Call); ok && calleeID(sp) == "fmt.Sprintf" {
					if k, ok := sp.Common().Args[0].(*ssa.Const); ok {
						hk = constant.StringVal(k.Value)
					}
					// the variadic must carry the seed parameter
					seedOK := false
					for _, l := range Leaves(sp.Common().Args[1], nil) {
						if a, ok := l.(*ssa.Alloc); ok {
							for _, r := range *a.Referrers() {
								if ia, ok := r.(*ssa.IndexAddr); ok {
									for _, u := range *ia.Referrers() {
										if st, ok := u.(*ssa.Store); ok {
											for _, l2 := range Leaves(st.Val, nil) {
												if prm, ok := l2.(*ssa.Parameter); ok && prm.Name() == "seed" {
													seedOK = true
												}
											}
										}
									}
								}
							}
						}
					}
					if !seedOK {
						c.Bad(key, cl.Pos(), "the FixedInt hint %q is not built from the seed", hk)
						return
					}
				}
				if hk == "" || !strings.HasPrefix(hk, "%d:") {
					c.Bad(key, cl.Pos(), "FixedInt hint is not a constant \"%%d:<field>\" format")
					return
				}
				// which field does this draw feed? (the store it flows to)
				hints[p.Pos(cl.Pos())] = hk
				c.OK(key, cl.Pos(), "rng.FixedInt(n, Sprintf(%q, seed))", hk)
			}
		})
	}
	// distinct keys per generated field: group by key; the same key may be used in the two arms of one unlockAll branch only
	byKey := map[string][]string{}
	for pos, k := range hints {
		byKey[k] = append(byKey[k], pos)
	}
	var ks []string
	for k := range byKey {
		ks = append(ks, k)
	}
	sort.Strings(ks)
	c.Info("hint_keys", ks)
	if len(ks) >= 10 {
		c.OKH("distinct-hints", top.Pos(), "%d distinct per-field hint keys: %s", len(ks), strings.Join(ks, " "))
	} else {
		c.Bad("distinct-hints", top.Pos(), "only %d distinct hint keys for 10 generated fields: two fields would always draw correlated values", len(ks))
	}
	// default seed
	instrs(top, func(_ *ssa.BasicBlock, _ int, in ssa.Instruction) {
		if cl, ok := in.(*ssa.Call); ok {
			id := calleeID(cl)
			if strings.Contains(id, "math/rand") || strings.Contains(id, "time.Now") || strings.Contains(id, "crypto/rand") {
				c.Bad("default-seed", cl.Pos(), "generateImplicitTrafficPattern uses %s", id)
			}
			if strings.HasSuffix(id, "rng.FixedIntVH") {
				// "unset" is decided by presence (the optional field's
				// pointer), never by the value: an explicit seed of 0 is a seed
				presence := false
				var other []string
				for _, ce := range controllingEdges(cl.Block()) {
					bo, ok := ce.If.Cond.(*ssa.BinOp)
					if ok && isNilConst(bo.Y) && ((bo.Op == token.EQL && ce.Idx == 0) || (bo.Op == token.NEQ && ce.Idx == 1)) {
						if f := fieldOrigin(bo.X); f != nil && f.Name() == "Seed" {
							presence = true
							continue
						}
					}
					other = append(other, describe(ce.If.Cond))
				}
				if presence && len(other) == 0 {
					c.OKH("default-seed", cl.Pos(), "the host-and-version seed is used exactly when original.Seed == nil")
				} else {
					c.Bad("default-seed", cl.Pos(), "the host-derived default seed is selected by %v instead of the absence of the seed field: an explicitly configured seed value is then overridden and two hosts sharing the pattern emit different traffic", other)
				}
			}
		}
	})
	// rng.FixedInt purity with respect to n
	fi := p.Fn("pkg/rng", "FixedInt")
	if fi == nil {
		c.Anchor("rng.FixedInt")
		return
	}
	nParam := fi.Params[0]
	bad := false
	instrs(fi, func(_ *ssa.BasicBlock, _ int, in ssa.Instruction) {
		cl, ok := in.(*ssa.Call)
		if !ok || calleeID(cl) != "(*sync.Map).Store" {
			return
		}
		dependsOnN := false
		var walk func(v ssa.Value, d int)
		seen := map[ssa.Value]bool{}
		walk = func(v ssa.Value, d int) {
			if v == nil || seen[v] || d > 12 {
				return
			}
			seen[v] = true
			if v == ssa.Value(nParam) {
				dependsOnN = true
				return
			}
			if in2, ok := v.(ssa.Instruction); ok {
				for _, op := range in2.Operands(nil) {
					walk(*op, d+1)
				}
			}
		}
		walk(cl.Common().Args[2], 0)
		if dependsOnN {
			bad = true
			c.Bad("fixedint-cache", cl.Pos(), "rng.FixedInt caches a value that depends on n under a key that does not: a later call with the same hint and a different range returns the stale value — implicit traffic-pattern values then depend on the process history and can leave their valid range")
		}
	})
	if !bad {
		c.OKH("fixedint-cache", fi.Pos(), "the cached value does not depend on n; the reduction modulo n happens on every call")
	}
}

type genCase struct {
	fn      string
	getter  string // validator getter fed with the generated value
	valid   string // validate* function
	setFld  string // "has" field for the validator (XXX != nil)
	extract string // proto helper whose argument is the generated value
}

// r16_3capOnEveryPath: with an explicit maxLen present, every generated
// minLen (each store into the effective MinLen that the comparison does not
// dominate, i.e. each draw, whatever branch it sits in) must pass through the
// comparison with the explicit maxLen before the generator returns. The
// presence tests (c.original.Nonce != nil, ...MaxLen != nil, also through
// Get* accessors) are the condition atoms and are assumed true.
func r16_3capOnEveryPath(c *RC, gn *ssa.Function, cmps []*ssa.BinOp) {
	var pathOf func(v ssa.Value, d int) string
	pathOf = func(v ssa.Value, d int) string {
		if d > 8 {
			return "?"
		}
		switch x := v.(type) {
		case *ssa.Parameter:
			return x.Name()
		case *ssa.UnOp:
			if x.Op == token.MUL {
				return pathOf(x.X, d+1)
			}
		case *ssa.FieldAddr:
			if f, base := fieldOfAddr(x); f != nil {
				return pathOf(base, d+1) + "." + f.Name()
			}
		case *ssa.Call:
			n := calleeName(x)
			if args := callArgs(x); strings.HasPrefix(n, "Get") && len(args) == 1 {
				return pathOf(args[0], d+1) + "." + strings.TrimPrefix(n, "Get")
			}
		}
		return "?"
	}
	atom := func(cond ssa.Value) (string, int, bool) {
		v, neg := condAtom(cond)
		bo, ok := v.(*ssa.BinOp)
		if !ok || (bo.Op != token.NEQ && bo.Op != token.EQL) {
			return "", 0, false
		}
		var other ssa.Value
		switch {
		case isNilConst(bo.Y):
			other = bo.X
		case isNilConst(bo.X):
			other = bo.Y
		default:
			return "", 0, false
		}
		ap := pathOf(other, 0)
		if !strings.Contains(ap, ".original.") || !(strings.HasSuffix(ap, ".Nonce") || strings.HasSuffix(ap, ".MaxLen")) {
			return "", 0, false
		}
		ti := 0
		if bo.Op == token.EQL {
			ti = 1
		}
		if neg {
			ti = 1 - ti
		}
		return "explicit-maxlen", ti, true
	}
	isCmp := func(in ssa.Instruction) bool {
		for _, b := range cmps {
			if in == ssa.Instruction(b) {
				return true
			}
		}
		return false
	}
	draws := 0
	instrs(gn, func(_ *ssa.BasicBlock, _ int, in ssa.Instruction) {
		st, ok := in.(*ssa.Store)
		if !ok {
			return
		}
		f, _ := fieldOfAddr(st.Addr)
		if f == nil || f.Name() != "MinLen" {
			return
		}
		for _, b := range cmps {
			if b.Block().Dominates(st.Block()) {
				return // the capping store itself
			}
		}
		draws++
		key := "minlen-capped-on-every-path@draw" + fmtInt(draws)
		ex := &Explorer{Fn: gn, Atom: atom, Assume: map[string]bool{"explicit-maxlen": true}}
		hit := ex.ReachFrom(st, func(in ssa.Instruction) bool { _, ok := in.(*ssa.Return); return ok }, isCmp)
		switch {
		case ex.Over:
			c.Undecided(key, st.Pos(), "exploration budget exceeded")
		case hit != nil:
			c.Bad(key, st.Pos(), "a minLen drawn here reaches the end of generateNoncePattern without being compared with an explicitly configured maxLen (the cap covers another branch only): with this draw {nonce:{maxLen:k}} can yield minLen > maxLen and the effective pattern fails Validate")
		default:
			c.OKH(key, st.Pos(), "with an explicit maxLen present every path from this draw to the return passes the comparison that caps it (%d states)", ex.States)
		}
	})
	if draws == 0 {
		c.Undecided("minlen-capped-on-every-path", gn.Pos(), "no store of a generated MinLen found in generateNoncePattern")
	}
}

func r16_3(c *RC) {
	p := c.P
	// (a) minLen capped by explicit maxLen
	gn := p.Fn(tpPkg, "Config.generateNoncePattern")
	if gn == nil {
		c.Anchor("generateNoncePattern")
		return
	}
	capped := false
	var capCmps []*ssa.BinOp
	instrs(gn, func(_ *ssa.BasicBlock, _ int, in ssa.Instruction) {
		bo, ok := in.(*ssa.BinOp)
		if !ok || (bo.Op != token.GTR && bo.Op != token.LSS && bo.Op != token.GEQ && bo.Op != token.LEQ) {
			return
		}
		names := map[string]bool{}
		for _, v := range []ssa.Value{bo.X, bo.Y} {
			if cl, ok := v.(*ssa.Call); ok {
				names[calleeName(cl)+"@"+accessPathOfRecv(cl)] = true
			}
		}
		hasMin, hasMaxOrig := false, false
		for n := range names {
			if strings.HasPrefix(n, "GetMinLen@") {
				hasMin = true
			}
			if strings.HasPrefix(n, "GetMaxLen@") && strings.Contains(n, ".original.") {
				hasMaxOrig = true
			}
		}
		if hasMin && hasMaxOrig {
			capped = true
			capCmps = append(capCmps, bo)
		}
	})
	if capped {
		c.OKH("minlen-vs-explicit-maxlen", gn.Pos(), "the generated minLen is compared with an explicit original maxLen (and capped)")
		r16_3capOnEveryPath(c, gn, capCmps)
	} else {
		c.Bad("minlen-vs-explicit-maxlen", gn.Pos(), "the implicit minLen (6..12, or 0..12 with unlockAll) ignores an explicitly configured maxLen: {nonce:{maxLen:3}} yields minLen > maxLen and the effective pattern fails Validate")
	}
	// (b) fold extremes through the validators
	type drawn struct {
		field string
		vals  map[int64]bool
	}
	for _, g := range []struct {
		fn     string
		fields map[string]string // proto field name -> getter
		valid  string
		msg    string
	}{
		{"generateTCPFragment", map[string]string{"MaxSleepMs": "GetMaxSleepMs"}, "validateTCPFragment", "TCPFragment"},
		{"generateNoncePattern", map[string]string{"MinLen": "GetMinLen", "MaxLen": "GetMaxLen"}, "validateNoncePattern", "NoncePattern"},
		{"generatePaddingPattern", map[string]string{"MaxMiddlePaddingLen": "GetMaxMiddlePaddingLen", "MaxEndPaddingLen": "GetMaxEndPaddingLen"}, "validatePaddingPattern", "PaddingPattern"},
	} {
		fn := p.Fn(tpPkg, "Config."+g.fn)
		vf := p.Fn(tpPkg, g.valid)
		if fn == nil || vf == nil {
			c.Anchor(g.fn + "/" + g.valid)
			continue
		}
		got := map[string]map[int64]bool{}
		for _, unlock := range []bool{false, true} {
			for _, hi := range []bool{false, true} {
				stored := map[string]cval{}
				f := &Folder{P: p, Assume: func(v ssa.Value) (cval, bool) {
					// original.* is entirely unset
					if u, ok := v.(*ssa.UnOp); ok && u.Op == token.MUL {
						ap := accessPath(u.X)
						if strings.Contains(ap, ".original.") && strings.Count(ap, ".") >= 2 {
							return cval{isNil: true}, true
						}
					}
					return cval{}, false
				}}
				f.CallHook = func(call *ssa.Call, args []cval) (cval, bool) {
					id := calleeID(call)
					n := calleeName(call)
					for fld, getter := range g.fields {
						if n == getter {
							if v, ok := stored[fld]; ok {
								return v, true
							}
						}
					}
					if strings.HasSuffix(id, "rng.FixedInt") && args[0].known {
						k, _ := constant.Int64Val(args[0].v)
						if k <= 0 || !hi {
							return cInt(0), true
						}
						return cInt(k - 1), true
					}
					if strings.HasSuffix(id, "proto.Int32") && args[0].known {
						r := cval{known: true, v: args[0].v, nonNil: true}
						for _, ref := range *call.Referrers() {
							if st, isSt := ref.(*ssa.Store); isSt {
								if fv, _ := fieldOfAddr(st.Addr); fv != nil {
									stored[fv.Name()] = r
								}
							}
						}
						return r, true
					}
					return cval{}, false
				}
				f.Eval(fn, []cval{{nonNil: true}, cInt(12345), cBool(unlock)})
				for fld, v := range stored {
					if _, want := g.fields[fld]; !want || !v.known {
						continue
					}
					k, _ := constant.Int64Val(v.v)
					if got[fld] == nil {
						got[fld] = map[int64]bool{}
					}
					got[fld][k] = true
				}
			}
		}
		for fld, getter := range g.fields {
			vals := got[fld]
			key := "extremes:" + g.msg + "." + fld
			if len(vals) == 0 {
				c.Undecided(key, fn.Pos(), "could not fold any generated value for %s", fld)
				continue
			}
			var bad []string
			var ks []int
			for v := range vals {
				ks = append(ks, int(v))
				f := &Folder{P: p, CallHook: func(call *ssa.Call, args []cval) (cval, bool) {
					n := calleeName(call)
					if n == getter {
						return cInt(v), true
					}
					if strings.HasPrefix(n, "Get") {
						return cval{}, false
					}
					return cval{}, false
				}, Assume: func(x ssa.Value) (cval, bool) {
					// only the field under test is "set"
					if u, ok := x.(*ssa.UnOp); ok && u.Op == token.MUL {
						if fa, ok := u.X.(*ssa.FieldAddr); ok {
							if fv, _ := fieldOfAddr(fa); fv != nil {
								if fv.Name() == fld {
									return cval{nonNil: true}, true
								}
								if _, other := g.fields[fv.Name()]; other {
									return cval{isNil: true}, true
								}
							}
						}
					}
					return cval{}, false
				}}
				outs := f.Eval(vf, []cval{{nonNil: true}})
				accepted := false
				for _, o := range outs {
					if o.Returned && len(o.Results) == 1 && o.Results[0].isNil {
						accepted = true
					}
				}
				if !accepted {
					bad = append(bad, fmt.Sprint(v))
				}
			}
			sort.Ints(ks)
			if len(bad) == 0 {
				c.OKH(key, fn.Pos(), "generated extremes %v are all accepted by %s", ks, g.valid)
			} else {
				c.Bad(key, fn.Pos(), "implicit generation can produce %s = %s, which %s rejects", fld, strings.Join(uniq(bad), ","), g.valid)
			}
		}
	}
	// (c) enums
	for _, e := range []struct {
		fn, hint   string
		maxAllowed int64
		what       string
	}{
		{"generateNoncePattern", "nonce.type", 2, "NonceType (3 = FIXED needs customHexStrings and must not be generated)"},
	} {
		fn := p.Fn(tpPkg, "Config."+e.fn)
		if fn == nil {
			continue
		}
		worst := int64(-1)
		for _, unlock := range []bool{false, true} {
			f := &Folder{P: p, Assume: func(v ssa.Value) (cval, bool) {
				if u, ok := v.(*ssa.UnOp); ok && u.Op == token.MUL {
					ap := accessPath(u.X)
					if strings.Contains(ap, ".original.") && strings.Count(ap, ".") >= 2 {
						return cval{isNil: true}, true
					}
				}
				return cval{}, false
			}, CallHook: func(call *ssa.Call, args []cval) (cval, bool) {
				id := calleeID(call)
				if strings.HasSuffix(id, "rng.FixedInt") && args[0].known {
					n, _ := constant.Int64Val(args[0].v)
					return cInt(n - 1), true
				}
				if strings.HasSuffix(id, "NonceType).Enum") && args[0].known {
					k, _ := constant.Int64Val(args[0].v)
					if k > worst {
						worst = k
					}
				}
				return cval{}, false
			}}
			f.Eval(fn, []cval{{nonNil: true}, cInt(1), cBool(unlock)})
		}
		key := "enum:" + e.hint
		switch {
		case worst < 0:
			c.Undecided(key, fn.Pos(), "could not fold the generated enum value")
		case worst > e.maxAllowed:
			c.Bad(key, fn.Pos(), "implicit generation can produce %s value %d", e.what, worst)
		default:
			c.OKH(key, fn.Pos(), "largest generated value is %d (allowed up to %d)", worst, e.maxAllowed)
		}
	}
}

func accessPathOfRecv(cl *ssa.Call) string {
	args := callArgs(cl)
	if len(args) == 0 {
		return ""
	}
	return accessPath(args[0])
}

func r16_4(c *RC) {
	p := c.P
	mp := p.Fn(protoPkg, "maxPaddingSizeWithTrafficPattern")
	if mp == nil {
		c.Anchor("maxPaddingSizeWithTrafficPattern")
		return
	}
	// position mapping at the consumers
	for _, tn := range []string{"StreamUnderlay", "PacketUnderlay"} {
		fn := p.Fn(protoPkg, tn+".writeOneSegment")
		if fn == nil {
			c.Anchor(tn + ".writeOneSegment")
			continue
		}
		instrs(fn, func(_ *ssa.BasicBlock, _ int, in ssa.Instruction) {
			st, ok := in.(*ssa.Store)
			if !ok {
				return
			}
			fv, _ := fieldOfAddr(st.Addr)
			if fv == nil || (fv.Name() != "prefixLen" && fv.Name() != "suffixLen") {
				return
			}
			key := "padding-cap:" + tn + "." + fv.Name()
			// find the budget call feeding this padding
			var pos int64 = -1
			var visit func(v ssa.Value, d int)
			seen := map[ssa.Value]bool{}
			visit = func(v ssa.Value, d int) {
				if v == nil || seen[v] || d > 14 {
					return
				}
				seen[v] = true
				if cl, ok := v.(*ssa.Call); ok {
					if cl.Common().StaticCallee() == mp {
						if k, ok := constInt(cl.Common().Args[5]); ok && pos < 0 {
							pos = k
						}
						return
					}
				}
				if a, ok := v.(*ssa.Alloc); ok {
					for _, r := range *a.Referrers() {
						if fa, ok := r.(*ssa.FieldAddr); ok {
							if f2, _ := fieldOfAddr(fa); f2 != nil && f2.Name() == "maxLen" {
								for _, u := range *fa.Referrers() {
									if s2, ok := u.(*ssa.Store); ok {
										visit(s2.Val, d+1)
									}
								}
							}
						}
					}
				}
				if in2, ok := v.(ssa.Instruction); ok {
					for _, op := range in2.Operands(nil) {
						if _, isPhiOrOther := (*op).(ssa.Value); isPhiOrOther {
							visit(*op, d+1)
						}
					}
				}
			}
			visit(st.Val, 0)
			want := int64(1) // endPadding
			name := "end"
			if fv.Name() == "prefixLen" {
				want, name = 0, "middle"
			}
			switch {
			case pos < 0:
				c.Bad(key, st.Pos(), "%s is not derived from maxPaddingSizeWithTrafficPattern: the configured padding maximum is not honoured", fv.Name())
			case pos != want:
				c.Bad(key, st.Pos(), "%s of %s is capped by the wrong setting (position %d): the %s-padding maximum the user configured is not what limits this padding", fv.Name(), tn, pos, name)
			default:
				c.OKH(key, st.Pos(), "%s is capped by the configured %s-padding maximum", fv.Name(), name)
			}
		})
	}
	// min(budget, configured), 0 for negative
	var wrong []string
	for _, cfg := range []int64{0, 50, 255, -1} {
		for _, pos := range []int64{0, 1} {
			f := &Folder{P: p, CallHook: func(call *ssa.Call, args []cval) (cval, bool) {
				if calleeName(call) == "maxPaddingSize" {
					return cInt(200), true
				}
				return cval{}, false
			}, Assume: func(v ssa.Value) (cval, bool) {
				if u, ok := v.(*ssa.UnOp); ok && u.Op == token.MUL {
					if strings.HasSuffix(u.Type().String(), "int32") {
						if _, isPtr := u.X.Type().Underlying().(interface{ Elem() interface{} }); !isPtr {
							// *configured
						}
						if !strings.HasPrefix(u.X.Type().String(), "**") && strings.HasPrefix(u.X.Type().String(), "*int32") {
							return cInt(cfg), true
						}
					}
					if strings.HasPrefix(u.Type().String(), "*") {
						return cval{nonNil: true}, true
					}
				}
				return cval{}, false
			}}
			outs := f.Eval(mp, []cval{cInt(1400), cInt(2), cInt(100), cInt(0), {nonNil: true}, cInt(pos)})
			want := cfg
			if cfg < 0 {
				want = 0
			}
			if want > 200 {
				want = 200
			}
			ok := len(outs) > 0
			for _, o := range outs {
				if !o.Returned || !o.Results[0].known {
					ok = false
					continue
				}
				g, _ := constant.Int64Val(o.Results[0].v)
				if g != want {
					ok = false
				}
			}
			if !ok {
				wrong = append(wrong, fmt.Sprintf("configured=%d position=%d", cfg, pos))
			}
		}
	}
	if len(wrong) == 0 {
		c.OKH("cap-function", mp.Pos(), "maxPaddingSizeWithTrafficPattern folds to min(budget, configured), 0 for a negative setting, for both positions")
	} else {
		c.Bad("cap-function", mp.Pos(), "maxPaddingSizeWithTrafficPattern does not return min(budget, configured) for: %s", strings.Join(wrong, "; "))
	}
	// low entropy gating
	ls := p.Fn(protoPkg, "Session.lowEntropySendConfig")
	if ls == nil {
		c.Anchor("Session.lowEntropySendConfig")
		return
	}
	for _, sc := range []struct {
		isClient, clientUsed, want bool
	}{{false, false, false}, {false, true, true}, {true, false, true}} {
		f := &Folder{P: p, Assume: assumeBy(nil, map[string]cval{"isClient": cBool(sc.isClient)}), CallHook: func(call *ssa.Call, args []cval) (cval, bool) {
			if calleeName(call) == "Load" {
				if fld := fieldOrigin(call.Common().Args[0]); fld != nil && fld.Name() == "clientUseLowEntropy" {
					return cBool(sc.clientUsed), true
				}
			}
			return cval{}, false
		}}
		f.Assume = func(v ssa.Value) (cval, bool) {
			if ex, ok := v.(*ssa.Extract); ok {
				if cl, ok := ex.Tuple.(*ssa.Call); ok && calleeName(cl) == "extractLowEntropyConfig" {
					switch ex.Index {
					case 2:
						return cBool(true), true
					case 0:
						return cInt(1), true
					case 1:
						return cInt(0), true
					}
				}
			}
			if u, ok := v.(*ssa.UnOp); ok && u.Op == token.MUL {
				if fld := fieldOrigin(u); fld != nil && fld.Name() == "isClient" {
					return cBool(sc.isClient), true
				}
			}
			return cval{}, false
		}
		outs := f.Eval(ls, []cval{{nonNil: true}})
		key := fmt.Sprintf("low-entropy-gate:isClient=%v,clientUsedIt=%v", sc.isClient, sc.clientUsed)
		ok := len(outs) == 1 && outs[0].Returned && outs[0].Results[2].known && constant.BoolVal(outs[0].Results[2].v) == sc.want
		if ok {
			c.OKH(key, ls.Pos(), "send low entropy = %v", sc.want)
		} else {
			c.Bad(key, ls.Pos(), "lowEntropySendConfig does not fold to %v in this situation: a server must use low entropy only toward a client that used it first", sc.want)
		}
	}
	cu := p.Field(protoPkg, "Session", "clientUseLowEntropy")
	for _, s := range p.FieldMethodCalls(cu, "Store", "Swap", "CompareAndSwap") {
		key := "client-used-low-entropy@" + fnName(s.Fn)
		if s.Fn.Name() == "input" && protoGuardConst(s.Instr, 10) {
			// ... and only for a segment that belongs to the session's own
			// user: the drop of a foreign user's segment (the nil return on
			// the user-mismatch edge) must not be reachable after the flag
			// was set
			var drop ssa.Instruction
			instrs(s.Fn, func(b *ssa.BasicBlock, _ int, x ssa.Instruction) {
				r, ok := x.(*ssa.Return)
				if !ok {
					return
				}
				for _, ce := range controllingEdges(b) {
					bo, ok := ce.If.Cond.(*ssa.BinOp)
					if !ok || bo.Op != token.NEQ || ce.Idx != 0 {
						continue
					}
					userName := func(v ssa.Value) bool {
						for _, l := range Leaves(v, nil) {
							if f := fieldOrigin(l); f != nil && f.Name() == "UserName" {
								return true
							}
						}
						return false
					}
					if userName(bo.X) && userName(bo.Y) {
						drop = r
					}
				}
			})
			if drop == nil {
				c.Undecided(key, s.Pos(), "cannot find the foreign-user drop in Session.input")
			} else if reachableAvoiding(s.Fn, s.Instr, func(x ssa.Instruction) bool { return x == drop }, nil) != nil {
				c.Bad(key, s.Pos(), "clientUseLowEntropy is set before the segment's user was compared with the session's: a low-entropy datagram from another user, which is then dropped, still switches this session's downlink to low entropy although its client never used it")
			} else {
				c.OKH(key, s.Pos(), "set only on receipt of dataClientToServerLowEntropy, after the foreign-user drop")
			}
		} else {
			c.Bad(key, s.Pos(), "clientUseLowEntropy is set outside the receipt of a dataClientToServerLowEntropy segment")
		}
	}
}

// protoGuardConst: instruction is control dependent on (protocol == k) where
// protocol is a Protocol() result (possibly combined with && other tests).
func protoGuardConst(in ssa.Instruction, k int64) bool {
	for _, e := range controllingEdges(in.Block()) {
		bo, ok := e.If.Cond.(*ssa.BinOp)
		if !ok || bo.Op != token.EQL || e.Idx != 0 {
			continue
		}
		if v, ok := constInt(bo.Y); ok && v == k {
			return true
		}
	}
	return false
}

func r16_5(c *RC) {
	p := c.P
	enc := p.Fn(tpPkg, "Encode")
	dec := p.Fn(tpPkg, "Decode")
	if enc == nil || dec == nil {
		c.Anchor("trafficpattern.Encode/Decode")
		return
	}
	whole := func(fn *ssa.Function, op string) bool {
		ok := false
		instrs(fn, func(_ *ssa.BasicBlock, _ int, in ssa.Instruction) {
			if cl, isCall := in.(*ssa.Call); isCall && strings.HasSuffix(calleeID(cl), "proto."+op) {
				ok = true
			}
		})
		return ok
	}
	alpha := func(fn *ssa.Function) string {
		out := ""
		instrs(fn, func(_ *ssa.BasicBlock, _ int, in ssa.Instruction) {
			if cl, ok := in.(*ssa.Call); ok && strings.Contains(calleeID(cl), "base64.Encoding)") {
				for _, l := range Leaves(cl.Common().Args[0], nil) {
					if u, ok := l.(*ssa.UnOp); ok {
						if g, ok := u.X.(*ssa.Global); ok {
							out = g.Name()
						}
					}
				}
			}
		})
		return out
	}
	if whole(enc, "Marshal") && whole(dec, "Unmarshal") {
		c.OK("whole-message", enc.Pos(), "proto.Marshal / proto.Unmarshal of the complete TrafficPattern")
	} else {
		c.Bad("whole-message", enc.Pos(), "Encode/Decode no longer marshal the whole message")
	}
	if a, b := alpha(enc), alpha(dec); a != "" && a == b {
		c.OK("alphabet", enc.Pos(), "base64.%s on both sides", a)
	} else {
		c.Bad("alphabet", enc.Pos(), "Encode uses base64.%s, Decode base64.%s", a, b)
	}
}

// hintHelper: fn returns fmt.Sprintf("%d:%s", <int param>, <string param>)
// and nothing else; returns the indices of the seed and the field parameter.
func hintHelper(fn *ssa.Function) (seedIdx, fieldIdx int, ok bool) {
	if fn == nil || fn.Blocks == nil || len(fn.Blocks) != 1 || relPkg(fn) != tpPkg || len(fn.Params) != 2 {
		return 0, 0, false
	}
	var sp *ssa.Call
	for _, in := range fn.Blocks[0].Instrs {
		switch x := in.(type) {
		case *ssa.Call:
			if calleeID(x) == "fmt.Sprintf" && sp == nil {
				sp = x
			} else {
				return 0, 0, false
			}
		case *ssa.Return:
			if sp == nil || len(x.Results) != 1 || x.Results[0] != ssa.Value(sp) {
				return 0, 0, false
			}
		}
	}
	if sp == nil {
		return 0, 0, false
	}
	k, isK := sp.Common().Args[0].(*ssa.Const)
	if !isK || k.Value == nil || constant.StringVal(k.Value) != "%d:%s" {
		return 0, 0, false
	}
	seedIdx, fieldIdx = -1, -1
	for i, prm := range fn.Params {
		if bt, ok := prm.Type().Underlying().(*types.Basic); ok {
			if bt.Info()&types.IsInteger != 0 {
				seedIdx = i
			}
			if bt.Info()&types.IsString != 0 {
				fieldIdx = i
			}
		}
	}
	return seedIdx, fieldIdx, seedIdx >= 0 && fieldIdx >= 0
}
