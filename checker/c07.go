package main

import (
	"go/token"
	"go/types"
	"strings"

	"golang.org/x/tools/go/ssa"
)

func init() { register("C07", propC07) }

const suPkg = "pkg/protocol/serveruser"

func propC07() *Property {
	return &Property{
		ID:         "C07",
		Decides:    "R07.1 a discovery result with a cipher exists only on the success edge of an AEAD open under one user's key, and its id/name/policy are that same user's; R07.2 the candidate order in tryState: four phases (cached hint, registry hint, cached fallback, registry fallback), hint-phase trials only for users whose hint matches, fallback trials only for users whose hint does not match and only when hints are optional, every trial guarded by nothing but the enumerated conditions (so no phase is skipped because of cache contents), the hint-mandatory test placed after both hint phases; R07.4 user generations: the published pointer is only swapped by SetUsers (old cache retired), a result obtained with requireCurrent is returned only after re-checking that the generation is still current, generation state/user records are never written after buildState, the pending generation pointer is only consumed by recordAuthenticated; R07.5 the source cache learns an association only from commitServerUserAuthentication, after the first segment was validated and dispatched; R07.6 a session's user name and policy come only from the authenticating cipher / authentication.; R07.7 tryState returns a failure only after whole phases, never from inside a candidate loop; R07.8 every SetUsers call publishes a generation built from its argument (or skips only after comparing every field of the user message)",
		NotDecided: "independence from every reachable cache content (the 4096x4x16 table with wrapping ticks is value-level), the bounded de-duplication array's exact behaviour beyond 16 users, races between reload and recording beyond the atomic-publication structure.",
		Rules: []Rule{
			{ID: "R07.1", Floor: 4, Text: "discoveryResult.block is only set in tryUser from user.decryptor.TryDecrypt on its err==nil edge; userID, userContext.UserName and policy of that literal are loads from the same user", Run: r07_1},
			{ID: "R07.2", Floor: 5, Text: "tryState: exactly the four phases; tryUser(hintMatch=true) only under CheckUserFromHint(that user)==true; tryUser(hintMatch=false) only under CheckUserFromHint(that user)==false and hintMandatory==false; no other condition guards a trial; the hintMandatory test follows both hint phases; registry phases range over state.users", Run: r07_2},
			{ID: "R07.4", Floor: 8, Text: "Registry.users is written only by Swap in SetUsers with the old cache retired; discoverUser returns a result under requireCurrent only after publisher.Load()==state was re-checked after tryState; fields of state/user are stored only in buildState; Authentication.generation is dereferenced only in recordAuthenticated after being cleared", Run: r07_4},
			{ID: "R07.7", Floor: 2, Text: "tryState returns a failure only after whole phases, never from inside a candidate loop", Run: r07_7},
			{ID: "R07.8", Floor: 2, Text: "every SetUsers call publishes a generation built from its argument (or skips only after comparing every field of the user message)", Run: ruleSetUsersPublishes},
			{ID: "R07.5", Floor: 2, Text: "Authentication.Record is called only from the two commitServerUserAuthentication; the stream commit follows onOpenSessionRequest()==nil, the packet commit follows AddSession, dispatch and the readySessions hand-over", Run: r07_5},
			{ID: "R07.6", Floor: 3, Text: "Session.userName is stored only in Session.input from seg.block.BlockContext().UserName; Session.userPolicy is stored only in the constructor and in Session.input", Run: r07_6},
		},
	}
}

func r07_1(c *RC) {
	p := c.P
	blk := p.Field(suPkg, "discoveryResult", "block")
	if blk == nil {
		c.Anchor("serveruser.discoveryResult.block")
		return
	}
	tu := p.Fn(suPkg, "tryUser")
	if tu == nil {
		c.Anchor("serveruser.tryUser")
		return
	}
	var userParam *ssa.Parameter
	for _, prm := range tu.Params {
		if pt, ok := prm.Type().(*types.Pointer); ok {
			if n, ok := pt.Elem().(*types.Named); ok && n.Obj().Name() == "user" {
				userParam = prm
			}
		}
	}
	if userParam == nil {
		c.Anchor("tryUser(user *user, ...)")
		return
	}
	fromUser := func(v ssa.Value, field string) bool {
		for _, l := range Leaves(v, nil) {
			u, ok := l.(*ssa.UnOp)
			if !ok || u.Op != token.MUL {
				return false
			}
			fa, ok := u.X.(*ssa.FieldAddr)
			if !ok {
				return false
			}
			f, base := fieldOfAddr(fa)
			if f == nil || f.Name() != field || base != ssa.Value(userParam) {
				return false
			}
		}
		return true
	}
	var blockStoreAlloc ssa.Value
	for _, s := range p.FieldStores(blk) {
		key := "store:discoveryResult.block@" + fnName(s.Fn)
		if s.Fn != tu {
			if isNilConst(s.Val) {
				c.OK(key, s.Pos(), "zero value")
				continue
			}
			c.Bad(key, s.Pos(), "discoveryResult.block is set outside tryUser (in %s): a result could name a user whose key did not open the segment", fnName(s.Fn))
			continue
		}
		good := false
		if ex, ok := s.Val.(*ssa.Extract); ok && ex.Index == 0 {
			if call, ok := ex.Tuple.(*ssa.Call); ok && strings.HasSuffix(calleeID(call), "StatelessDecryptor).TryDecrypt") {
				if fromUser(call.Common().Args[0], "decryptor") {
					for _, nc := range nilErrCalls(s.Instr) {
						if nc == call {
							good = true
						}
					}
				}
			}
		}
		if good {
			blockStoreAlloc = storeBase(s.Instr.(*ssa.Store))
			c.OKH(key, s.Pos(), "block = user.decryptor.TryDecrypt(...) result on its err==nil edge")
		} else {
			c.Bad(key, s.Pos(), "discoveryResult.block in tryUser is %s, not the result of user.decryptor.TryDecrypt on its success edge", describe(s.Val))
		}
	}
	if blockStoreAlloc == nil {
		return
	}
	// sibling fields of the same literal
	want := map[string]string{"userID": "id", "policy": "policy"}
	for fname, src := range want {
		f := p.Field(suPkg, "discoveryResult", fname)
		n := 0
		for _, s := range p.FieldStores(f) {
			if s.Fn != tu || storeBase(s.Instr.(*ssa.Store)) != blockStoreAlloc {
				continue
			}
			n++
			key := "literal:" + fname + "@tryUser"
			if fromUser(s.Val, src) {
				c.OKH(key, s.Pos(), "%s = user.%s of the user whose key opened the segment", fname, src)
			} else {
				c.Bad(key, s.Pos(), "discoveryResult.%s is %s, not user.%s of the authenticating user", fname, describe(s.Val), src)
			}
		}
		if n == 0 {
			c.Bad("literal:"+fname+"@tryUser", tu.Pos(), "the successful discoveryResult does not set %s", fname)
		}
	}
	// userContext.UserName
	ucOK := false
	instrs(tu, func(_ *ssa.BasicBlock, _ int, in ssa.Instruction) {
		st, ok := in.(*ssa.Store)
		if !ok {
			return
		}
		f, _ := fieldOfAddr(st.Addr)
		if f == nil || f.Name() != "UserName" {
			return
		}
		if fromUser(st.Val, "name") {
			ucOK = true
			c.OKH("literal:userContext.UserName@tryUser", st.Pos(), "UserName = user.name of the authenticating user")
		} else {
			c.Bad("literal:userContext.UserName@tryUser", st.Pos(), "userContext.UserName is %s, not user.name", describe(st.Val))
		}
	})
	if !ucOK {
		c.Bad("literal:userContext.UserName@tryUser", tu.Pos(), "the successful discoveryResult does not set userContext.UserName from user.name")
	}
}

type trial struct {
	call      *ssa.Call
	hintMatch bool
	origin    int64
	user      ssa.Value
}

func r07_2(c *RC) {
	p := c.P
	ts := p.Fn(suPkg, "tryState")
	tu := p.Fn(suPkg, "tryUser")
	if ts == nil || tu == nil {
		c.Anchor("serveruser.tryState/tryUser")
		return
	}
	var hintMandatory *ssa.Parameter
	var stateParam *ssa.Parameter
	for _, prm := range ts.Params {
		if prm.Name() == "hintMandatory" {
			hintMandatory = prm
		}
		if pt, ok := prm.Type().(*types.Pointer); ok {
			if n, ok := pt.Elem().(*types.Named); ok && n.Obj().Name() == "state" {
				stateParam = prm
			}
		}
	}
	if hintMandatory == nil || stateParam == nil {
		c.Anchor("tryState(state *state, ..., hintMandatory bool)")
		return
	}
	var trials []trial
	instrs(ts, func(_ *ssa.BasicBlock, _ int, in ssa.Instruction) {
		call, ok := in.(*ssa.Call)
		if !ok || call.Common().StaticCallee() != tu {
			return
		}
		a := call.Common().Args
		t := trial{call: call, user: a[0]}
		if k, ok := a[3].(*ssa.Const); ok {
			t.hintMatch = k.Value.String() == "true"
		} else {
			c.Undecided("trial:hintMatch-arg", call.Pos(), "hintMatch argument of tryUser is not a constant")
			return
		}
		if k, ok := constInt(a[4]); ok {
			t.origin = k
		}
		trials = append(trials, t)
	})
	// the mandatory-hint If
	var mandIf *ssa.If
	instrs(ts, func(_ *ssa.BasicBlock, _ int, in ssa.Instruction) {
		if iff, ok := in.(*ssa.If); ok && iff.Cond == ssa.Value(hintMandatory) {
			mandIf = iff
		}
	})
	if mandIf == nil {
		c.Bad("hintMandatory-test", ts.Pos(), "tryState has no branch on hintMandatory: with mandatory hints a segment whose hint names no user would still be tried against every credential")
	}
	usersField := p.Field(suPkg, "state", "users")
	seenPhase := map[[2]int64]bool{}
	for _, t := range trials {
		phase := "fallback"
		if t.hintMatch {
			phase = "hint"
		}
		registry := false
		if ia, ok := t.user.(*ssa.IndexAddr); ok {
			if sameField(fieldOrigin(ia.X), usersField) {
				registry = true
			}
		}
		src := "cached"
		if registry {
			src = "registry"
		}
		key := "trial:" + src + "-" + phase
		hm := int64(0)
		if t.hintMatch {
			hm = 1
		}
		rg := int64(0)
		if registry {
			rg = 1
		}
		seenPhase[[2]int64{hm, rg}] = true
		// enumerate controlling conditions
		var problems []string
		hintSeen := false
		mandSeen := false
		for _, e := range controllingEdges(t.call.Block()) {
			cond := e.If.Cond
			switch x := cond.(type) {
			case *ssa.Call:
				id := calleeID(x)
				switch {
				case strings.HasSuffix(id, "cipher.CheckUserFromHint"):
					sameUser := false
					for _, l := range Leaves(x.Common().Args[0], nil) {
						if u, ok := l.(*ssa.UnOp); ok {
							if fa, ok := u.X.(*ssa.FieldAddr); ok {
								if f, base := fieldOfAddr(fa); f != nil && f.Name() == "name" && base == t.user {
									sameUser = true
								}
							}
						}
					}
					if !sameUser {
						problems = append(problems, "the hint is checked for a different user than the one tried")
					}
					wantIdx := 1
					if t.hintMatch {
						wantIdx = 0
					}
					if e.Idx != wantIdx {
						problems = append(problems, "trial is on the wrong edge of CheckUserFromHint for its hintMatch argument")
					}
					hintSeen = true
				case hintWrapperUserParam(x.Common().StaticCallee()) >= 0:
					// a local wrapper: func userMatchesHint(u *user, nonce []byte) bool { return cipher.CheckUserFromHint([]byte(u.name), nonce) }
					idx := hintWrapperUserParam(x.Common().StaticCallee())
					if idx >= len(x.Common().Args) || x.Common().Args[idx] != t.user {
						problems = append(problems, "the hint is checked for a different user than the one tried")
					}
					wantIdx := 1
					if t.hintMatch {
						wantIdx = 0
					}
					if e.Idx != wantIdx {
						problems = append(problems, "trial is on the wrong edge of the hint check for its hintMatch argument")
					}
					hintSeen = true
				case strings.HasSuffix(id, "userIDWasAttempted") || isAttemptedPredicate(x):
					if e.Idx != 1 {
						problems = append(problems, "trial is on the true edge of userIDWasAttempted")
					}
				default:
					problems = append(problems, "trial guarded by unexpected call "+strings.ReplaceAll(id, modPath+"/", ""))
				}
			case *ssa.Parameter:
				if x == hintMandatory {
					mandSeen = true
					if e.Idx != 1 {
						problems = append(problems, "trial is on the hintMandatory==true edge")
					}
				} else {
					problems = append(problems, "trial guarded by parameter "+x.Name())
				}
			case *ssa.BinOp:
				if allowedTrialGuard(x, tu) {
					continue
				}
				problems = append(problems, "trial guarded by an extra condition "+describe(x)+" — a phase may be skipped depending on state that is not part of the candidate order")
			default:
				problems = append(problems, "trial guarded by "+describe(cond))
			}
		}
		if !hintSeen {
			problems = append(problems, "trial is not control dependent on CheckUserFromHint for the tried user")
		}
		if !t.hintMatch && !mandSeen {
			problems = append(problems, "fallback trial is reachable when hints are mandatory")
		}
		if mandIf != nil {
			if t.hintMatch {
				// the mandatory test must come after: no path from mandIf to this call
				if reachableAvoiding(ts, mandIf, func(in ssa.Instruction) bool { return in == ssa.Instruction(t.call) }, nil) != nil {
					problems = append(problems, "hint phase is reachable after the hintMandatory test (fallback could win over a hint match)")
				}
			}
		}
		if len(problems) == 0 {
			c.OKH(key, t.call.Pos(), "guards are exactly the enumerated ones (loop bounds, user!=nil, not yet attempted, hint %v%s, earlier trials failed)", t.hintMatch, map[bool]string{true: "", false: ", hints optional"}[t.hintMatch])
		} else {
			c.Bad(key, t.call.Pos(), "%s", strings.Join(problems, "; "))
		}
	}
	for _, ph := range [][2]int64{{1, 0}, {1, 1}, {0, 0}, {0, 1}} {
		if !seenPhase[ph] {
			names := map[[2]int64]string{{1, 0}: "cached-hint", {1, 1}: "registry-hint", {0, 0}: "cached-fallback", {0, 1}: "registry-fallback"}
			c.Bad("phase:"+names[ph], ts.Pos(), "tryState has no %s phase (a user that should be tried is never tried, or the order changed)", names[ph])
		}
	}
	// order of first occurrence: cached-hint ≺ registry-hint ≺ (mandatory test) ≺ cached-fallback ≺ registry-fallback
	pos := func(hm, rg int64) *ssa.Call {
		for _, t := range trials {
			h := int64(0)
			if t.hintMatch {
				h = 1
			}
			r := int64(0)
			if ia, ok := t.user.(*ssa.IndexAddr); ok && sameField(fieldOrigin(ia.X), usersField) {
				r = 1
			}
			if h == hm && r == rg {
				return t.call
			}
		}
		return nil
	}
	order := []*ssa.Call{pos(1, 0), pos(1, 1), pos(0, 0), pos(0, 1)}
	okOrder := true
	for i := 0; i+1 < len(order); i++ {
		if order[i] == nil || order[i+1] == nil {
			okOrder = false
			continue
		}
		// later phase must not reach earlier phase
		if reachableAvoiding(ts, order[i+1], func(in ssa.Instruction) bool { return in == ssa.Instruction(order[i]) }, nil) != nil {
			okOrder = false
		}
		if reachableAvoiding(ts, order[i], func(in ssa.Instruction) bool { return in == ssa.Instruction(order[i+1]) }, nil) == nil {
			okOrder = false
		}
	}
	if okOrder {
		c.OKH("phase-order", ts.Pos(), "cached-hint ≺ registry-hint ≺ cached-fallback ≺ registry-fallback (CFG reachability, no back path)")
	} else {
		c.Bad("phase-order", ts.Pos(), "the four discovery phases are not in the order cached-hint, registry-hint, cached-fallback, registry-fallback")
	}
}

// allowedTrialGuard: comparisons that may guard a trial: loop bounds
// (i < n), nil tests of the user pointer, and block != nil tests on earlier
// tryUser results.
func allowedTrialGuard(bo *ssa.BinOp, tryUser *ssa.Function) bool {
	switch bo.Op {
	case token.LSS:
		// loop bound: index phi vs count/len
		_, isPhi := bo.X.(*ssa.Phi)
		if isPhi {
			return true
		}
		if b2, ok := bo.X.(*ssa.BinOp); ok && b2.Op == token.ADD {
			return true
		}
		return false
	case token.EQL, token.NEQ:
		if isNilConst(bo.Y) || isNilConst(bo.X) {
			v := bo.X
			if isNilConst(v) {
				v = bo.Y
			}
			for _, l := range Leaves(v, nil) {
				switch x := l.(type) {
				case *ssa.Call:
					id := calleeID(x)
					if strings.HasSuffix(id, "userByID") {
						return true
					}
				case *ssa.UnOp:
					// result.block of an earlier trial
					if f := fieldOrigin(x); f != nil && f.Name() == "block" {
						return true
					}
				case *ssa.Field:
					if f := fieldOrigin(x); f != nil && f.Name() == "block" {
						return true
					}
				}
			}
		}
	}
	return false
}

func r07_4(c *RC) {
	p := c.P
	uf := p.Field(suPkg, "Registry", "users")
	if uf == nil {
		c.Anchor("serveruser.Registry.users")
		return
	}
	for _, s := range p.FieldMethodCalls(uf, "Store", "Swap", "CompareAndSwap") {
		key := "publish@" + fnName(s.Fn)
		if s.Fn.Name() != "SetUsers" {
			c.Bad(key, s.Pos(), "the published user generation is replaced in %s; only SetUsers may publish", fnName(s.Fn))
			continue
		}
		call, _ := s.Instr.(*ssa.Call)
		name := calleeName(s.Instr.(ssa.CallInstruction))
		if name != "Swap" || call == nil {
			c.Bad(key, s.Pos(), "SetUsers publishes with %s: the old generation is not obtained, so its cache cannot be retired", name)
			continue
		}
		// old.cache.retire() on old != nil edge
		retired := false
		instrs(s.Fn, func(_ *ssa.BasicBlock, _ int, in ssa.Instruction) {
			if cl, ok := in.(*ssa.Call); ok && strings.HasSuffix(calleeID(cl), "sourceUserCache).retire") {
				for _, l := range Leaves(cl.Common().Args[0], nil) {
					if u, ok := l.(*ssa.UnOp); ok {
						if fa, ok := u.X.(*ssa.FieldAddr); ok {
							if _, base := fieldOfAddr(fa); base == ssa.Value(call) {
								retired = true
							}
						}
					}
				}
			}
		})
		if retired {
			c.OKH(key, s.Pos(), "Swap in SetUsers and old.cache.retire()")
		} else {
			c.Bad(key, s.Pos(), "SetUsers does not retire the cache of the generation it replaces: a removed user could still be found through the old cache")
		}
	}
	ruleRecheckGeneration(c)
	// immutability of state / user
	for _, tf := range [][2]string{{"state", "users"}, {"state", "cache"}, {"user", "id"}, {"user", "name"}, {"user", "credential"}, {"user", "decryptor"}, {"user", "policy"}} {
		f := p.Field(suPkg, tf[0], tf[1])
		if f == nil {
			c.Anchor("serveruser." + tf[0] + "." + tf[1])
			continue
		}
		n := 0
		for _, s := range p.FieldStores(f) {
			n++
			key := "store:" + tf[0] + "." + tf[1] + "@" + fnName(s.Fn)
			if outermost(s.Fn).Name() == "buildState" && isFreshAlloc(storeBase(s.Instr.(*ssa.Store))) {
				c.OK(key, s.Pos(), "construction in buildState")
			} else {
				c.Bad(key, s.Pos(), "%s.%s is written outside buildState: a published generation must be immutable", tf[0], tf[1])
			}
		}
	}
	// Authentication.generation
	ag := p.Field(suPkg, "Authentication", "generation")
	if ag == nil {
		c.Anchor("serveruser.Authentication.generation")
		return
	}
	for _, fn := range p.Funcs() {
		instrs(fn, func(_ *ssa.BasicBlock, _ int, in ssa.Instruction) {
			var val ssa.Value
			switch x := in.(type) {
			case *ssa.UnOp:
				if x.Op == token.MUL {
					if f, _ := fieldOfAddr(x.X); sameField(f, ag) {
						val = x
					}
				}
			case *ssa.Field:
				if st, ok := x.X.Type().Underlying().(*types.Struct); ok && sameField(st.Field(x.Field), ag) {
					val = x
				}
			}
			if val == nil {
				return
			}
			key := "read:Authentication.generation@" + fnName(fn)
			onlyNilTests := true
			for _, r := range *val.Referrers() {
				switch u := r.(type) {
				case *ssa.BinOp:
					if !(isNilConst(u.X) || isNilConst(u.Y)) {
						onlyNilTests = false
					}
				case *ssa.DebugRef:
				case *ssa.Store:
					// copying the pointer into another Authentication literal
					if f, _ := fieldOfAddr(u.Addr); f != nil && f.Name() == "generation" {
						continue
					}
					onlyNilTests = false
				default:
					onlyNilTests = false
				}
			}
			if onlyNilTests {
				c.OK(key, in.Pos(), "nil test / copy only")
			} else if fn.Name() == "recordAuthenticated" {
				// must be cleared before use
				cleared := false
				instrs(fn, func(_ *ssa.BasicBlock, _ int, x ssa.Instruction) {
					if st, ok := x.(*ssa.Store); ok {
						if f, _ := fieldOfAddr(st.Addr); sameField(f, ag) && isNilConst(st.Val) {
							cleared = true
						}
					}
				})
				if cleared {
					c.OKH(key, in.Pos(), "consumed once in recordAuthenticated (field cleared)")
				} else {
					c.Bad(key, in.Pos(), "recordAuthenticated uses the generation without clearing it: an established connection would retain a retired generation")
				}
			} else {
				c.Bad(key, in.Pos(), "Authentication.generation is dereferenced in %s; only recordAuthenticated may consume it", fnName(fn))
			}
		})
	}
}

func r07_5(c *RC) {
	p := c.P
	rec := p.Fn(suPkg, "Authentication.Record")
	if rec == nil {
		c.Anchor("serveruser.Authentication.Record")
		return
	}
	// The recording point is found by role, not by name: every call of
	// Authentication.Record, lifted through thin unexported wrappers
	// (commitServerUserAuthentication today) to the place where the decision
	// to record is taken.
	type site struct {
		Fn    *ssa.Function
		Instr ssa.Instruction
	}
	var lift func(fn *ssa.Function, in ssa.Instruction, d int) []site
	lift = func(fn *ssa.Function, in ssa.Instruction, d int) []site {
		name := fn.Name()
		if d >= 2 || name == "onOpenSessionRequest" || name == "RunEventLoop" || fn.Object() == nil || fn.Object().Exported() {
			return []site{{fn, in}}
		}
		callers := p.CallsToFn(fn)
		var prod []Site
		for _, cs := range callers {
			if !strings.HasSuffix(strings.SplitN(p.Pos(cs.Pos()), ":", 2)[0], "_test.go") {
				prod = append(prod, cs)
			}
		}
		if len(prod) == 0 {
			return []site{{fn, in}}
		}
		var out []site
		for _, cs := range prod {
			out = append(out, lift(cs.Fn, cs.Instr, d+1)...)
		}
		return out
	}
	n := 0
	for _, rc := range p.CallsToFn(rec) {
		if strings.HasSuffix(strings.SplitN(p.Pos(rc.Pos()), ":", 2)[0], "_test.go") {
			continue
		}
		for _, cs := range lift(rc.Fn, rc.Instr, 0) {
			n++
			recvT := ""
			if cs.Fn.Signature.Recv() != nil {
				recvT = cs.Fn.Signature.Recv().Type().String()
			}
			key := "commit@" + fnName(cs.Fn)
			switch {
			case strings.HasSuffix(recvT, "StreamUnderlay"):
				ok := false
				// the commit must be unreachable from the err != nil edge of onOpenSessionRequest and dominated by the call
				instrs(cs.Fn, func(_ *ssa.BasicBlock, _ int, in ssa.Instruction) {
					if cl, isCall := in.(*ssa.Call); isCall {
						if sc := cl.Common().StaticCallee(); sc != nil && sc.Name() == "onOpenSessionRequest" && instrDominates(in, cs.Instr) {
							for _, nc := range nilErrCalls(cs.Instr) {
								if nc == cl {
									ok = true
								}
							}
							// "if err := f(); err != nil { return }; commit" : commit is in the fall-through block
							if !ok {
								if es := errSuccessorSingle(cl); es != nil && !blockReach(es, nil)[cs.Instr.Block()] {
									ok = true
								}
							}
						}
					}
				})
				// the handler itself records, immediately before succeeding:
				// no failure return is reachable once the record is made
				if !ok && cs.Fn.Name() == "onOpenSessionRequest" {
					failAfter := reachableAvoiding(cs.Fn, cs.Instr, func(x ssa.Instruction) bool {
						r, isRet := x.(*ssa.Return)
						return isRet && len(r.Results) == 1 && !retIsNil(r, 0)
					}, nil)
					ok = failAfter == nil
				}
				if ok {
					c.OKH(key, cs.Instr.Pos(), "stream: recorded only after onOpenSessionRequest returned nil (validated, session added, dispatched, handed over)")
				} else {
					c.Bad(key, cs.Instr.Pos(), "the stream transport records a source-to-user association without the success of onOpenSessionRequest: an unvalidated first segment could poison the cache")
				}
			case strings.HasSuffix(recvT, "PacketUnderlay"):
				need := map[string]bool{"AddSession": false, "deliverSegmentToSession": false}
				instrs(cs.Fn, func(_ *ssa.BasicBlock, _ int, in ssa.Instruction) {
					if cl, isCall := in.(*ssa.Call); isCall {
						if sc := cl.Common().StaticCallee(); sc != nil {
							if _, w := need[sc.Name()]; w && instrDominates(in, cs.Instr) {
								need[sc.Name()] = true
							}
						}
					}
				})
				sel := false
				instrs(cs.Fn, func(_ *ssa.BasicBlock, _ int, in ssa.Instruction) {
					if s, isSel := in.(*ssa.Select); isSel && instrDominates(in, cs.Instr) {
						for _, st := range s.States {
							if f := fieldOrigin(st.Chan); f != nil && f.Name() == "readySessions" {
								sel = true
							}
						}
					}
				})
				if need["AddSession"] && need["deliverSegmentToSession"] && sel && cs.Fn.Name() == "onOpenSessionRequest" {
					c.OKH(key, cs.Instr.Pos(), "datagram: recorded only after AddSession, dispatch and the readySessions hand-over")
				} else {
					c.Bad(key, cs.Instr.Pos(), "the datagram transport records a source-to-user association in %s without being dominated by AddSession (%v), deliverSegmentToSession (%v) and the readySessions hand-over (%v)", fnName(cs.Fn), need["AddSession"], need["deliverSegmentToSession"], sel)
				}
			default:
				c.Bad(key, cs.Instr.Pos(), "the source-to-user association is recorded in %s, which is neither underlay's accepted-session path", fnName(cs.Fn))
			}
		}
	}
	if n == 0 {
		c.Bad("commit", rec.Pos(), "Authentication.Record is never called: the source cache would never learn")
	}
}

// errSuccessorSingle: for v = call() returning a single error, the successor
// taken when it is non-nil.
func errSuccessorSingle(call *ssa.Call) *ssa.BasicBlock {
	for _, r := range *call.Referrers() {
		bo, ok := r.(*ssa.BinOp)
		if !ok || !(isNilConst(bo.X) || isNilConst(bo.Y)) {
			continue
		}
		for _, u := range *bo.Referrers() {
			if iff, ok := u.(*ssa.If); ok {
				if bo.Op == token.NEQ {
					return iff.Block().Succs[0]
				}
				return iff.Block().Succs[1]
			}
		}
	}
	return nil
}

func r07_6(c *RC) {
	p := c.P
	un := p.Field(protoPkg, "Session", "userName")
	up := p.Field(protoPkg, "Session", "userPolicy")
	if un == nil || up == nil {
		c.Anchor("Session.userName/userPolicy")
		return
	}
	for _, s := range p.FieldMethodCalls(un, "Store", "Swap", "CompareAndSwap") {
		key := "store:Session.userName@" + fnName(s.Fn)
		if ownerName(p, s.Fn) != "input" {
			c.Bad(key, s.Pos(), "Session.userName stored in %s", fnName(s.Fn))
			continue
		}
		args := callArgs(s.Instr.(ssa.CallInstruction))
		good := false
		if a, ok := args[len(args)-1].(*ssa.Alloc); ok {
			for _, v := range allocStores(a) {
				for _, l := range Leaves(v, nil) {
					if fld, ok := l.(*ssa.Field); ok {
						if f := fieldOrigin(fld); f != nil && f.Name() == "UserName" {
							if call, ok := fld.X.(*ssa.Call); ok && call.Common().IsInvoke() && call.Common().Method.Name() == "BlockContext" {
								if f2 := fieldOrigin(call.Common().Value); f2 != nil && f2.Name() == "block" {
									good = true
								}
							}
						}
					}
				}
			}
		}
		if good {
			c.OKH(key, s.Pos(), "userName = seg.block.BlockContext().UserName")
		} else {
			c.Bad(key, s.Pos(), "Session.userName is not taken from the authenticating cipher's BlockContext")
		}
	}
	for _, s := range p.FieldMethodCalls(up, "Store", "Swap", "CompareAndSwap") {
		key := "store:Session.userPolicy@" + fnName(s.Fn)
		switch ownerName(p, s.Fn) {
		case "newSessionWithServerUserPolicy", "input":
			c.OK(key, s.Pos(), "constructor / input")
		default:
			c.Bad(key, s.Pos(), "Session.userPolicy stored in %s", fnName(s.Fn))
		}
	}
}

// ruleRecheckGeneration: shared by C07 (R07.4) and C05 (R05.7).
func ruleRecheckGeneration(c *RC) {
	p := c.P
	// discoverUser re-check
	du := p.Fn(suPkg, "discoverUser")
	if du == nil {
		c.Anchor("serveruser.discoverUser")
	} else {
		var rc *ssa.Parameter
		var pub *ssa.Parameter
		for _, prm := range du.Params {
			if prm.Name() == "requireCurrent" {
				rc = prm
			}
			if prm.Name() == "publisher" {
				pub = prm
			}
		}
		var tsCall *ssa.Call
		instrs(du, func(_ *ssa.BasicBlock, _ int, in ssa.Instruction) {
			if cl, ok := in.(*ssa.Call); ok {
				if sc := cl.Common().StaticCallee(); sc != nil && sc.Name() == "tryState" {
					tsCall = cl
				}
			}
		})
		if rc == nil || pub == nil || tsCall == nil {
			c.Anchor("discoverUser(publisher, ..., requireCurrent, ...) calling tryState")
		} else {
			stateArg := tsCall.Common().Args[0]
			// Path-sensitive: assume requireCurrent, assume the re-check
			// "publisher.Load() == the state that was tried" fails, and ask
			// whether a successful return is still reachable after tryState.
			// (Boolean locals such as `settled := !requireCurrent || ...`
			// are resolved through their phis.)
			isReload := func(a, b ssa.Value) bool {
				cl, ok := a.(*ssa.Call)
				if !ok || !strings.HasSuffix(calleeID(cl), "atomic.Pointer[T]).Load") || cl.Common().Args[0] != ssa.Value(pub) {
					return false
				}
				return b == stateArg && instrDominates(tsCall, cl)
			}
			atom := func(cond ssa.Value) (string, int, bool) {
				v, neg := condAtom(cond)
				ti := 0
				if neg {
					ti = 1
				}
				if v == ssa.Value(rc) {
					return "requireCurrent", ti, true
				}
				if bo, ok := v.(*ssa.BinOp); ok && (bo.Op == token.NEQ || bo.Op == token.EQL) {
					if isReload(bo.X, bo.Y) || isReload(bo.Y, bo.X) {
						if bo.Op == token.NEQ {
							ti = 1 - ti
						}
						return "still-current", ti, true
					}
				}
				return "", 0, false
			}
			ex := &Explorer{Fn: du, Atom: atom, Assume: map[string]bool{"requireCurrent": true, "still-current": false}}
			hit := ex.ReachFrom(tsCall, func(in ssa.Instruction) bool {
				r, ok := in.(*ssa.Return)
				return ok && len(r.Results) == 2 && retIsNil(r, 1)
			}, nil)
			switch {
			case ex.Over:
				c.Undecided("recheck-generation@discoverUser", tsCall.Pos(), "state budget exceeded")
			case hit != nil:
				c.Bad("recheck-generation@discoverUser", hit.Pos(), "with requireCurrent, discoverUser can return a successful result without re-checking publisher.Load()==state after tryState: a credential removed by a completed reload would still authenticate a new connection")
			default:
				c.OKH("recheck-generation@discoverUser", tsCall.Pos(), "requireCurrent: every path from tryState to a successful return takes the publisher.Load()==state edge (%d states explored with the re-check assumed to fail)", ex.States)
			}
			// result.generation = the same state
			gen := p.Field(suPkg, "discoveryResult", "generation")
			for _, s := range p.FieldStores(gen) {
				key := "store:discoveryResult.generation@" + fnName(s.Fn)
				sameState := false
				if s.Fn == du {
					sameState = true
					nonNil := 0
					for _, l := range Leaves(s.Val, nil) {
						if isNilConst(l) {
							continue // the variable's zero value before the first attempt
						}
						nonNil++
						if l != stateArg {
							sameState = false
						}
					}
					sameState = sameState && nonNil > 0
				}
				if sameState {
					c.OKH(key, s.Pos(), "generation = the state that was tried")
				} else if isNilConst(s.Val) {
					c.OK(key, s.Pos(), "nil")
				} else {
					c.Bad(key, s.Pos(), "discoveryResult.generation is %s, not the generation that tryState examined", describe(s.Val))
				}
			}
		}
	}
}

// r07_7: in tryState a failure result (one that does not come from tryUser)
// may be returned only after whole phases, never from inside a candidate
// loop: a failure decided inside a loop depends on which users the source
// cache happened to hold (seed C07d: "the cached user named by the hint
// failed, mandatory hint: give up" rejects a different user whose name shares
// the 4-byte hint, only from that source address).
func r07_7(c *RC) {
	p := c.P
	ts := p.Fn(suPkg, "tryState")
	if ts == nil {
		c.Anchor("serveruser.tryState")
		return
	}
	n := 0
	instrs(ts, func(b *ssa.BasicBlock, _ int, in ssa.Instruction) {
		r, ok := in.(*ssa.Return)
		if !ok || len(r.Results) != 1 {
			return
		}
		success := false
		for _, l := range Leaves(retVal(r, 0), nil) {
			if cl, ok := l.(*ssa.Call); ok && calleeName(cl) == "tryUser" {
				success = true
			}
		}
		if success {
			return
		}
		n++
		// the branch that directly selects this return must not sit in a
		// loop body (the exit edge of a loop's own header condition - the
		// candidates are exhausted - is fine)
		var inLoop []string
		for _, ce := range controllingEdges(b) {
			ib := ce.If.Block()
			if !reachesSelf(ib) {
				break // outside all loops from here outwards
			}
			header := false
			for _, pr := range ib.Preds {
				if ib.Dominates(pr) {
					header = true
				}
			}
			if header && !blockReach(ib.Succs[ce.Idx], nil)[ib] {
				continue
			}
			inLoop = append(inLoop, describe(ce.If.Cond))
		}
		// ... and what selects a failure return outside the loops is the
		// hint-mandatory setting alone, never something computed from the
		// source cache (how many cached users were tried, whether the source
		// is known)
		for _, ce := range controllingEdges(b) {
			ib := ce.If.Block()
			if reachesSelf(ib) {
				continue // loop header exits were judged above
			}
			for _, k := range condVocab(ce.If.Cond, func(v ssa.Value) string {
				if prm, ok := v.(*ssa.Parameter); ok {
					if prm.Name() == "hintMandatory" {
						return "hint-mandatory"
					}
					return "?parameter " + prm.Name()
				}
				return ""
			}) {
				if strings.HasPrefix(k, "?") {
					inLoop = append(inLoop, "outside the loops: "+k[1:])
				}
			}
		}
		key := "failure-return-after-phases"
		if len(inLoop) == 0 {
			c.OKH(key, r.Pos(), "failure result returned outside every candidate loop")
		} else {
			c.Bad(key, r.Pos(), "tryState gives up from inside a candidate loop (depends on %s): whether a credential is accepted then depends on which users the source cache holds, not only on the registry and the segment", strings.Join(inLoop, "; "))
		}
	})
	if n == 0 {
		c.Undecided("failure-return-after-phases", ts.Pos(), "no failure return found in tryState")
	}
}

// ruleSetUsersPublishes: every call of SetUsers publishes a generation built
// from its argument; a path that returns without publishing is acceptable
// only if what it compared covers every field of the user message (or uses
// proto.Equal) - otherwise a reload that changes an uncovered field (seed
// C05c: hashedPassword) keeps the retired credential valid.
func ruleSetUsersPublishes(c *RC) {
	p := c.P
	su := p.Fn(suPkg, "Registry.SetUsers")
	uf := p.Field(suPkg, "Registry", "users")
	if su == nil || uf == nil {
		c.Anchor("serveruser.Registry.SetUsers / users")
		return
	}
	var swaps []ssa.Instruction
	instrs(su, func(_ *ssa.BasicBlock, _ int, in ssa.Instruction) {
		if n, cl := atomicCallOn(in, uf); n == "Swap" || n == "Store" {
			// the value published is buildState(users...)
			for _, l := range Leaves(cl.Common().Args[1], nil) {
				if bc, ok := l.(*ssa.Call); ok && calleeName(bc) == "buildState" {
					if prm, ok := bc.Call.Args[0].(*ssa.Parameter); ok && prm.Name() == "users" {
						swaps = append(swaps, in)
					}
				}
			}
		}
	})
	if len(swaps) == 0 {
		c.Bad("publish", su.Pos(), "SetUsers does not publish buildState(users)")
		return
	}
	c.OK("publish", swaps[0].Pos(), "SetUsers publishes buildState(users) with an atomic swap")
	// getters of the user message
	var need []string
	if up := p.TypesPkg("pkg/appctl/appctlpb"); up != nil {
		if obj := up.Scope().Lookup("User"); obj != nil {
			if st, ok := obj.Type().Underlying().(*types.Struct); ok {
				for i := 0; i < st.NumFields(); i++ {
					f := st.Field(i)
					if f.Exported() {
						need = append(need, "Get"+f.Name())
					}
				}
			}
		}
	}
	instrs(su, func(_ *ssa.BasicBlock, _ int, in ssa.Instruction) {
		r, ok := in.(*ssa.Return)
		if !ok {
			return
		}
		dom := false
		for _, s := range swaps {
			if instrDominates(s, in) {
				dom = true
			}
		}
		key := "every-call-publishes"
		if dom {
			c.OKH(key, r.Pos(), "return dominated by the publication")
			return
		}
		// which getters do the functions called before this return use?
		used := map[string]bool{}
		protoEqual := false
		seen := map[*ssa.Function]bool{}
		var visit func(fn *ssa.Function, d int)
		visit = func(fn *ssa.Function, d int) {
			if fn == nil || seen[fn] || d > 4 {
				return
			}
			seen[fn] = true
			instrs(fn, func(_ *ssa.BasicBlock, _ int, x ssa.Instruction) {
				cl, ok := x.(ssa.CallInstruction)
				if !ok {
					return
				}
				id := calleeID(cl)
				if id == "reflect.DeepEqual" || strings.HasSuffix(id, "maps.EqualFunc") || strings.HasSuffix(id, "maps.Equal") {
					for _, a := range cl.Common().Args {
						for _, l := range Leaves(a, nil) {
							if prm, ok := l.(*ssa.Parameter); ok && prm.Name() == "users" && fn == su {
								protoEqual = true
							}
						}
					}
				}
				if sc := cl.Common().StaticCallee(); sc != nil {
					if strings.Contains(id, "appctlpb.User)") {
						used[sc.Name()] = true
					}
					if relPkg(sc) == suPkg && sc.Name() != "buildState" {
						visit(sc, d+1)
					}
				}
			})
		}
		visit(su, 0)
		var missing []string
		for _, g := range need {
			if !used[g] {
				missing = append(missing, g)
			}
		}
		switch {
		case protoEqual:
			c.OKH(key, r.Pos(), "a return without publication is guarded by a comparison of the whole user map with the previous input")
		default:
			_ = missing
			c.Undecided(key, r.Pos(), "SetUsers can return without publishing the new users. The only skip this check can accept is a whole-map comparison (reflect.DeepEqual / maps.EqualFunc with proto.Equal on the users argument itself); a hand-written comparison (per-user digests, 'every configured user is already compiled in', field-by-field tests) cannot be shown to notice every change - a removed user, a changed hashedPassword - and a reload it misses keeps a retired credential valid")
		}
	})
}

// hintWrapperUserParam: fn does nothing but return
// cipher.CheckUserFromHint(<name of its parameter i>, <another parameter>);
// returns i, or -1.
func hintWrapperUserParam(fn *ssa.Function) int {
	if fn == nil || fn.Blocks == nil || len(fn.Blocks) != 1 || relPkg(fn) != suPkg {
		return -1
	}
	var call *ssa.Call
	other := false
	for _, in := range fn.Blocks[0].Instrs {
		switch x := in.(type) {
		case *ssa.Call:
			if strings.HasSuffix(calleeID(x), "cipher.CheckUserFromHint") && call == nil {
				call = x
			} else {
				other = true
			}
		case *ssa.Store, *ssa.Go, *ssa.Defer, *ssa.Send:
			other = true
		case *ssa.Return:
			if call == nil || len(x.Results) != 1 || x.Results[0] != ssa.Value(call) {
				other = true
			}
		}
	}
	if call == nil || other {
		return -1
	}
	for _, l := range Leaves(call.Common().Args[0], nil) {
		if u, ok := l.(*ssa.UnOp); ok {
			if fa, ok := u.X.(*ssa.FieldAddr); ok {
				if f, base := fieldOfAddr(fa); f != nil && f.Name() == "name" {
					for i, prm := range fn.Params {
						if ssa.Value(prm) == base {
							return i
						}
					}
				}
			}
		}
	}
	return -1
}

// isAttemptedPredicate: the call asks a side-effect-free boolean function of
// the serveruser package about a user's id (the "already tried" set, whatever
// it is called and whether it is a function or a method of the set).
func isAttemptedPredicate(call *ssa.Call) bool {
	sc := call.Common().StaticCallee()
	if sc == nil || sc.Blocks == nil || relPkg(sc) != suPkg || sc.Signature.Results().Len() != 1 || !isBoolType(sc.Signature.Results().At(0).Type()) {
		return false
	}
	pure := true
	instrs(sc, func(_ *ssa.BasicBlock, _ int, in ssa.Instruction) {
		switch in.(type) {
		case *ssa.Store, *ssa.Call, *ssa.Go, *ssa.Send, *ssa.MapUpdate, *ssa.Defer, *ssa.Panic:
			pure = false
		}
	})
	if !pure {
		return false
	}
	for _, a := range call.Common().Args {
		if f := fieldOrigin(a); f != nil && f.Name() == "id" {
			return true
		}
	}
	return false
}
