#!/bin/bash
# install_refactors.sh DIR PROP -- copy DIR/PROP/REFACTOR/rN/{patch.diff,NOTES.md} into /verif/refactors/PROP_rN
set -u
dir=$1; prop=$2
for d in $dir/$prop/REFACTOR/*/; do
  v=$(basename $d)
  [ -s $d/patch.diff ] || continue
  t=/verif/refactors/${prop}_$v
  mkdir -p $t
  cp $d/patch.diff $t/patch.diff
  [ -f $d/NOTES.md ] && cp $d/NOTES.md $t/NOTES.md
  printf '{"origin":"behaviour-preserving refactoring written by an independent sub-agent that saw only the text of property %s and a scratch worktree; the author ran build, vet and the full suite","property_context":"%s"}\n' $prop $prop > $t/meta.json
  git -C /repo apply --check $t/patch.diff && echo "installed ${prop}_$v" || echo "DOES NOT APPLY ${prop}_$v"
done
