#!/bin/bash
# process_seed2.sh PROP VARIANT PKGDIR  -- confirm and install one round-4 seed from /tmp/seed4/PROP/SEED/VARIANT
set -u
prop=$1; v=$2; pkgdir=$3
sd=/tmp/seed4/$prop/SEED/$v
id=$prop$v
demos=$(find $sd -name '*_test.go' | sort)
re=$(grep -h '^func Test' $demos | sed 's/^func \(Test[A-Za-z0-9_]*\).*/\1/' | paste -sd'|')
re="^($re)\$"
# demo files with generic names would collide in the package: rename on copy
tmpd=$(mktemp -d /tmp/seeddemo.XXXXXX)
for f in $demos; do cp $f $tmpd/seed_${id}_$(basename $f); done
/verif/tools/confirm_seed.sh $id $sd/patch.diff $pkgdir "$re" $tmpd/*.go | tee -a /tmp/confirm-summary4.log
/verif/tools/install_seed.sh $id $prop $pkgdir "$re" $sd/NOTES.md $tmpd/*.go
rm -rf $tmpd
