#!/usr/bin/env python3
"""mkmutant.py NAME FILE  (spec on stdin)

stdin:  <old text> NEWLINE ===== NEWLINE <new text>
Several files: separate blocks by a line '@@@@@ FILE'.
Writes /verif/mutants/NAME.patch: a unified diff replacing the (unique) old
text by the new text in /repo/FILE. With env MUTANT_DIR another output dir."""
import sys, difflib, os

name = sys.argv[1]
first = sys.argv[2]
repo = os.environ.get('MUTANT_REPO', '/repo')
outdir = os.environ.get('MUTANT_DIR', '/verif/mutants')
data = sys.stdin.read()
blocks = []
cur = first
buf = []
for line in data.split('\n'):
    if line.startswith('@@@@@ '):
        blocks.append((cur, '\n'.join(buf)))
        cur = line[6:].strip()
        buf = []
    else:
        buf.append(line)
blocks.append((cur, '\n'.join(buf)))
byfile = {}
for f, b in blocks:
    old, new = b.split('\n=====\n')
    old = old.strip('\n')
    new = new.strip('\n')
    src = byfile.get(f) or open(os.path.join(repo, f)).read()
    if src.count(old) != 1:
        sys.exit(f"{name}: old text occurs {src.count(old)} times in {f}")
    byfile[f] = src.replace(old, new)
out = []
for f, new in byfile.items():
    src = open(os.path.join(repo, f)).read()
    d = difflib.unified_diff(src.splitlines(True), new.splitlines(True), 'a/' + f, 'b/' + f)
    out.append(''.join(d))
os.makedirs(outdir, exist_ok=True)
open(os.path.join(outdir, name + '.patch'), 'w').write(''.join(out))
print('wrote', name)
