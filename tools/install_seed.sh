#!/bin/bash
# install_seed.sh ID PROPERTY PKGDIR TESTREGEX NOTES DEMOFILE...
# Copies a confirmed seeded change into /verif/seeded/ID/: patch.diff (the
# diff as re-applied on the current /repo HEAD by confirm_seed.sh), the demo
# test files, NOTES.md from the author, and meta.json.
set -eu
id=$1; prop=$2; pkgdir=$3; re=$4; notes=$5; shift 5
d=/verif/seeded/$id
mkdir -p $d/demo
cp /tmp/confirm-$id.rebased.diff $d/patch.diff
cp "$notes" $d/NOTES.md
for f in "$@"; do cp "$f" $d/demo/; done
summary=$(grep "^$id:" /tmp/confirm-summary*.log | tail -1 | sed 's/^[^:]*://')
python3 - "$id" "$prop" "$pkgdir" "$re" "$summary" <<'EOF'
import json, sys, os, re
id, prop, pkgdir, rx, summary = sys.argv[1:6]
d = f'/verif/seeded/{id}'
notes = open(f'{d}/NOTES.md').read()
meta = {
    "property": prop,
    "id": id,
    "origin": "written by an independent sub-agent that saw only the property text and a scratch worktree of /repo (nothing from /verif)",
    "demo": {"copy_into": pkgdir, "files": sorted(os.listdir(f'{d}/demo')), "run": f"go test -count=1 -run '{rx}' ./{pkgdir}/"},
    "confirmed": "tools/confirm_seed.sh in a scratch worktree of /repo HEAD: " + summary.strip(),
    "needs_to_manifest": "see NOTES.md",
    "expect_rule": "",
    "expect_miss": False,
}
old = f'{d}/meta.json'
if os.path.exists(old):
    o = json.load(open(old))
    for k in ("expect_rule", "expect_miss", "needs_to_manifest", "why_missed"):
        if k in o:
            meta[k] = o[k]
json.dump(meta, open(old, 'w'), indent=1)
EOF
echo installed $d
