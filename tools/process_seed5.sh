#!/bin/bash
# process_seed5.sh PROP PKGDIR -- confirm and install one round-5 seed (variant i)
# from /tmp/r5_PROP.patch, /tmp/r5_PROP.demo_test.go, /tmp/r5_PROP.NOTES.md
set -u
prop=$1; pkgdir=$2
id=${prop}i
demo=/tmp/r5_$prop.demo_test.go
re=$(grep -h '^func Test' $demo | sed 's/^func \(Test[A-Za-z0-9_]*\).*/\1/' | paste -sd'|')
re="^($re)\$"
tmpd=$(mktemp -d /tmp/seeddemo.XXXXXX)
cp $demo $tmpd/seed_${id}_demo_test.go
/verif/tools/confirm_seed.sh $id /tmp/r5_$prop.patch $pkgdir "$re" $tmpd/*.go | tee -a /tmp/confirm-summary5.log
/verif/tools/install_seed.sh $id $prop $pkgdir "$re" /tmp/r5_$prop.NOTES.md $tmpd/*.go
rm -rf $tmpd
