#!/usr/bin/env python3
"""Regenerates /verif/MANIFEST.json from the table below and from
`bin/mverif list` (which properties have rules). Properties without rules are
listed under not_applicable with the reason given in NA below."""
import json, subprocess, sys, os

V = '/verif'
props = [json.loads(l) for l in open(f'{V}/properties.jsonl')]

# property id -> (what the check decides, what it assumes / does not decide, technique)
CLAIMS = {}
NA = {}
exec(open(f'{V}/tools/claims.py').read())

out = subprocess.run([f'{V}/bin/mverif', 'list'], capture_output=True, text=True).stdout
have = set()
rules = {}
cur = None
for line in out.splitlines():
    if line and not line.startswith(' '):
        cur = line.split()[0]
        have.add(cur)
        rules[cur] = []
    elif line.strip() and cur:
        rules[cur].append(line.split()[0])

import re
def rule_sentence(pid):
    rs = sorted(rules.get(pid, []), key=lambda r: [int(x) if x.isdigit() else x for x in re.split(r'(\d+)', r)])
    return "Decides the %d rules %s." % (len(rs), ", ".join(rs))

checks = []
na = []
for p in props:
    pid = p['id']
    if pid in have and pid in CLAIMS:
        text, note, tech, ref = CLAIMS[pid]
        # keep the list of rules in step with the checker
        note = re.sub(r'^Decides rules .*?\.(?= |$)', rule_sentence(pid), note, count=1)
        if not note.startswith("Decides the"):
            note = rule_sentence(pid) + " " + note
        checks.append({
            "property_id": pid,
            "quick_cmd": f"bin/mverif check -prop {pid} -tier quick",
            "thorough_cmd": f"bin/mverif check -prop {pid} -tier thorough",
            "evidence_file": f"/verif/evidence/{pid}.json",
            "replay_cmd_template": "bin/mverif explain {path}",
            "engine": "mverif",
            "level_claimed": {"category": "other", "text": text, "design_ref": ref},
            "level_note": note,
            "technique": tech,
        })
    else:
        na.append({"property_id": pid, "reason": NA.get(pid, "check under construction; see DESIGN.md section 3")})

m = {
    "version": 1,
    "setup_cmd": "./setup.sh",
    "hooks": {
        "guard": "verif",
        "enable": "the checks themselves never build or run /repo (static analyses of the working tree, default build tags). One hook exists for a demonstration only: pkg/protocol/verif_hook_on.go (tag verif) lets demos/F16 hold Session.Read right before it waits; `go test -tags verif -run TestF16 ./pkg/protocol/` after copying the demo in. Without the tag the hook is an empty function (verif_hook_off.go)",
        "baseline_off_cmd": "cd /repo && go test -vet=off -count=1 -timeout 25m ./...",
        "source_commits": ["01fbd70"],
        "add_only": True,
    },
    "engines": [{
        "name": "mverif", "path": "checker",
        "serves_properties": sorted(c["property_id"] for c in checks),
        "kind_free_text": "repository-specific static analyser written for mieru: go/packages (type-checked syntax of the working tree), go/ssa, VTA call graph; per-property rules over field-store / call-site inventories, dominance, path cuts, provenance slices and wire-table extraction; mutant sweep over scratch copies in the thorough tier",
    }],
    "checks": checks,
    "not_applicable": na,
    "notes": "Family of technique: static analysis only (see DESIGN.md). Every claimed check decides structural necessary conditions of its property (level 'other') and names in level_note the behavioural clauses it does not decide. Genuine defects found while building are repaired by 'fix:' commits in /repo and listed under 'fixed' in known_findings.json; unrepaired ones are listed under 'findings' there and reported as KNOWN-FINDING lines.",
}
json.dump(m, open(f'{V}/MANIFEST.json', 'w'), indent=1)
print(len(checks), 'checks,', len(na), 'not applicable')
