# Table read by gen_manifest.py. CLAIMS[id] = (level text, level note, technique, design ref)

COMMON_NOTE = " Trusted base: Go parser/type checker, go/ssa construction, VTA/CHA call graph where used; reflection/unsafe are not used on the analysed paths."

CLAIMS["C05"] = (
    "Structural choke-point argument over every path the compiler can build: who may write to an underlay connection, where the send/receive ciphers may come from, who may create a server session or hand one to Accept, and what the failure branches may call. Each is a necessary condition of 'the server stays silent and creates nothing for a party without a credential'; a test samples inputs, these rules cover every path and every writer.",
    "Decides rules R05.1-R05.5 (DESIGN.md 3/C05). Not decided: timing side channels, the drain's length distribution, TCP-level behaviour (RST vs FIN), the AEAD's strength." + COMMON_NOTE,
    "who-may-call / who-may-write inventories + dominance and path-cut reachability on go/ssa, VTA call graph for may-write sets",
    "3/C05")

CLAIMS["C13"] = (
    "Who-may-write and dominance rules over the sequence/ack state of a session: nextRecv only advances by one after the exactly-next segment was queued for delivery; every ack field written is a fresh load of nextRecv; the sender forgets segments only under seq < peer's ack; identity fields of a segment are immutable after construction; sequence numbers are assigned under the output lock together with the segment that carries them.",
    "Decides rules R13.1-R13.5. Not decided: comparison of emitted acks with the datagrams actually delivered (needs a network history), 32-bit wrap-around." + COMMON_NOTE,
    "field-store inventories, dominance, closure-predicate inspection, intra-procedural must-hold lock check on go/ssa",
    "3/C13")

CLAIMS["C15"] = (
    "Structural rules for the close/deadline machinery: stored deadlines are written only by the deadline setters; every close() of a lifecycle channel is once-only (winning CAS, sync.Once, done-poll under mutex, admission gate, single constructor goroutine); every blocking channel operation has a shutdown alternative; underlay Close pokes blocked network I/O before waiting for sessions.",
    "Decides rules R15.1-R15.4. Not decided: promptness in seconds, goroutine counts at run time, data-race freedom in general, all interleavings." + COMMON_NOTE,
    "field-store inventory, enumerated close-once idioms checked by dominance/control dependence, select/send/receive inventory on go/ssa",
    "3/C15")
