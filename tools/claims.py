# Table read by gen_manifest.py. CLAIMS[id] = (level text, level note, technique, design ref)

COMMON_NOTE = " Trusted base: Go parser/type checker, go/ssa construction, VTA/CHA call graph where used; reflection/unsafe are not used on the analysed paths."

CLAIMS["C05"] = (
    "Structural choke-point argument over every path the compiler can build: who may write to an underlay connection, where the send/receive ciphers may come from, who may create a server session or hand one to Accept, and what the failure branches may call. Each is a necessary condition of 'the server stays silent and creates nothing for a party without a credential'; a test samples inputs, these rules cover every path and every writer. Also: every SetUsers call publishes the new generation (or skips only after comparing every field of the user message), so a retired credential does not survive a reload; the replay lookup precedes every decryption and a replay yields nothing, so re-sent observed traffic creates no session.",
    "Decides rules R05.1-R05.5 (DESIGN.md 3/C05). Not decided: timing side channels, the drain's length distribution, TCP-level behaviour (RST vs FIN), the AEAD's strength." + COMMON_NOTE,
    "who-may-call / who-may-write inventories + dominance and path-cut reachability on go/ssa, VTA call graph for may-write sets",
    "3/C05")

CLAIMS["C13"] = (
    "Who-may-write and dominance rules over the sequence/ack state of a session: nextRecv only advances by one after the exactly-next segment was queued for delivery; every ack field written is a fresh load of nextRecv; the sender forgets segments only under seq < peer's ack; identity fields of a segment are immutable after construction; sequence numbers are assigned under the output lock together with the segment that carries them.",
    "Decides rules R13.1-R13.5. Not decided: comparison of emitted acks with the datagrams actually delivered (needs a network history), 32-bit wrap-around." + COMMON_NOTE,
    "field-store inventories, dominance, closure-predicate inspection, intra-procedural must-hold lock check on go/ssa",
    "3/C13")

CLAIMS["C15"] = (
    "Structural rules for the close/deadline machinery: stored deadlines are written only by the deadline setters; every close() of a lifecycle channel is once-only (winning CAS, sync.Once, done-poll under mutex, admission gate, single constructor goroutine); every blocking channel operation has a shutdown alternative (for Session methods: the session's own closedChan, which is what Close fires); underlay Close pokes blocked network I/O - reads, and on a stream connection writes too - before waiting for sessions; the goroutine that runs an underlay event loop closes the underlay on every path after the loop returns. Also: a stored deadline always arms a timer in Read/writeChunk, even when it has already passed; Session.Close takes no lock that Read or Write hold while they wait.",
    "Decides rules R15.1-R15.5. Not decided: promptness in seconds, goroutine counts at run time, data-race freedom in general, all interleavings." + COMMON_NOTE,
    "field-store inventory, enumerated close-once idioms checked by dominance/control dependence, select/send/receive inventory, must-pass-through after RunEventLoop on go/ssa",
    "3/C15")

CLAIMS["C07"] = (
    "Structural rules over user discovery: a result carrying a cipher exists only on the success edge of an AEAD open under one user's key and carries that user's identity; the four candidate phases of tryState exist, in order, each trial guarded by exactly the enumerated conditions (so no phase can be skipped because of cache contents) with the hint-mandatory test between hint and fallback phases; generations are published only by SetUsers with the old cache retired, re-checked after discovery when requireCurrent, immutable after buildState; the source cache learns only after full validation; a session's identity comes from the authenticating cipher. Also: tryState gives up only after whole phases, never from inside a candidate loop (where the outcome would depend on the source cache), and every SetUsers call publishes.",
    "Decides rules R07.1, R07.2, R07.4, R07.5, R07.6. Not decided: independence from every reachable cache content (4096x4x16 table with wrapping ticks is value-level), the bounded de-duplication array beyond 16 users, reload/record races beyond the atomic-publication structure." + COMMON_NOTE,
    "provenance slices, control-dependence vocabulary check of trial guards, CFG reachability/order, path cuts, field-store inventories on go/ssa",
    "3/C07")

CLAIMS["C11"] = (
    "Path-sensitive reachability over handleAuthentication: with credentials configured no feasible path returns nil without taking the credential-match edge (correlated local flags are tracked, so every method list is covered at once); with none configured username/password is never selected; the request is read / forwarded only after authentication on the side that owns it; the client daemon's wiring of credentials and the HTTP-proxy exclusion are checked by provenance and reachability. The configured credential list is built by appends onto an empty list (no zero-valued entries).",
    "Decides rules R11.1-R11.4. Not decided: comparison timing, credentials longer than 255 bytes, the == operator itself." + COMMON_NOTE,
    "path-sensitive CFG exploration with branch facts (go/ssa), path cuts, provenance slices",
    "3/C11")

CLAIMS["C12"] = (
    "The egress decision is checked as a choke point and as a truth table: every dial / datagram send to a peer-designated address is reachable only past the decision (CONNECT under FindAction==DIRECT, each relayed UDP datagram past the per-datagram filter wired to isDestinationAllowed and the session's user); isDestinationAllowed is folded by constant propagation for all 64 combinations of address-class predicates and allow flags plus the empty-host, IP-literal and local-name scenarios and compared with the table the property states; local names are compared only with EqualFold; one parser; first match wins; identity from the mieru session. The table includes the rows where an address carries both an IP and a name: the IP's class decides.",
    "Decides rules R12.1-R12.6. Not decided: resolver behaviour for other spellings of local names (trailing dot, IDNA), DNS answers pointing into private space (outside the statement), the net.IP predicates themselves." + COMMON_NOTE,
    "who-may-call + dominance/path cuts, constant propagation over go/ssa for a finite truth table, provenance slices",
    "3/C12")

CLAIMS["C06"] = (
    "Dominance, path-sensitive reachability and lock discipline around replay detection: the lookup of the encrypted metadata prefix precedes every decrypt of that buffer on both transports; under (server, first read, duplicate) no feasible path of the stream reader returns a segment and every error it returns is a REPLAY_ERROR; on UDP no segment is returned before the next datagram; the failure branches call nothing that may write; both caches have positive capacity and a retention not shorter than the timestamp acceptance window; the cache's mutable or reference-typed state is only touched under its mutex. Also: every rotation of the two generations restarts the expiry clock on all paths (through helpers), which is what keeps an entry for at least one interval.",
    "Decides rules R06.1-R06.6. Not decided: retention / false-positive behaviour of the two-generation cache over operation histories (64-bit FNV collisions, rotation by size and time are value-level), timing." + COMMON_NOTE,
    "dominance, path-sensitive CFG exploration with branch facts and phi resolution, constant folding of constructor arguments, must-hold lock check on go/ssa; VTA call graph for may-write sets",
    "3/C06")

CLAIMS["C10"] = (
    "The process has no recover(), so every panic is fatal. Decided statically: errors that can reach the event loop's error-type panics are typed; the dynamic type of segment metadata is a function of the protocol byte and every unchecked assertion on it is reachable only for protocols of the asserted family (constant propagation over all 16 protocol numbers, through callers); only session/data segments are inserted into segment trees; a foreign user's segment never leads to a panic in Session.input; every explicit panic site in the network-facing packages is classified (constructor calls verified by folding their constant arguments); no arithmetic on a packet byte before it is widened. Also: narrow-typed (uint16) arithmetic on a parsed metadata length is covered by an unconditional parse-time bound, and every Read/ReadFrom implementation returns a count within len(p) on its non-error returns.",
    "Decides rules R10.1a-e and R10.4. Not decided: run-time panics without a panic statement other than the narrow-arithmetic pattern (nil dereferences, slice bounds in general, atomic.Value type mismatches), resource exhaustion, panics inside the standard library/protobuf. The panic table (R10.1e) is confirmed by reading; its reasons are listed in the evidence." + COMMON_NOTE,
    "constant propagation over go/ssa (finite protocol domain), provenance slices of returned errors, panic-site inventory with a confirmed table, CFG reachability",
    "3/C10")

CLAIMS["C08"] = (
    "Constants and structure of the time-slot machinery: one rounding definition shared by the salt and the cache epoch, exactly the previous/current/next slot, the sender on the current slot and the receiver trying all three; the minute-granular timestamp with margin 1, where the generic WithinRange instance used on the unsigned minute counter is folded for differences -3..+3; cache entries tagged with and reused only for the slot they were derived for. The arithmetic that follows from these constants (|d|<=60 s implies adjacent slots/minutes; >=2 min and >=240 s are refused) is recorded in the evidence, not executed.",
    "Decides rules R08.1-R08.3. Not decided: the continuum of instants and skews, cache age/jitter behaviour, time.Time.Round itself." + COMMON_NOTE,
    "constant folding of go/ssa (incl. generic instance with a local memory model), structural sibling comparison, path-sensitive reachability",
    "3/C08")

CLAIMS["C09"] = (
    "Three-way agreement between writer, reader and the published protocol, with the document (re-read on every run) and a frozen transcription as oracles external to the code: metadata layouts extracted as (offset,width,byte order,field) tables from each Marshal and each Unmarshal, protocol numbering, key-derivation constants and structure, user-hint construction, nonce progression on TCP and nonce sharing on UDP, the session payload limit, the low-entropy parameter table, rotation validity set and rotation direction (folded), and the UDP-associate frame. A symmetric edit passes every self-consistency test; this check compares against the specification. Also: the payload of every dequeued segment is handed to the application, in particular the payload the protocol allows on the open session response.",
    "Decides rules R09.1-R09.5, R09.7, R09.8. Not decided: emitted values beyond placement and derivation, the AEAD itself, the segment assembly order (R09.6 of the design was not built), run-time interoperability." + COMMON_NOTE,
    "wire-table extraction from go/ssa, Markdown table reader for docs/protocol.md, constant folding, structural idiom checks",
    "3/C09")

CLAIMS["C17"] = (
    "The low-entropy codec's structure against the published rules: the assembly routines are read (register def-use from the declared frame slots through exactly one PDEPQ/PEXTQ to the result slot) and their installation under the CPU feature test is checked; parameter validation dominates encode and decode; the mode table, chunk length, rotation validity set and rotation direction/amount, and the encoded-length law ceil(N/C)*8 with its 8191-chunk bound are folded by constant propagation; the decoder's padding acceptance predicate is folded over polarity x padding value for first and later chunks (canonical form only).",
    "Decides rules R17.1-R17.4. Not decided, and honestly not applicable to static analysis: that decode(encode(x)) == x and that the portable loops equal PDEP/PEXT for all 2^128 inputs (numerical bijection claims)." + COMMON_NOTE + " Assumes the Go assembler's operand order (mask, source, destination) for PDEPQ/PEXTQ.",
    "assembly text reader (def-use over 4 mnemonics), dominance, constant folding over go/ssa from function entry and from a chosen block",
    "3/C17")

CLAIMS["C18"] = (
    "The UDP-associate tunnel's framing and addressing as code shape: writer/reader frame tables equal the documented frame; the reader touches the stream only through io.ReadFull (so every chunking is covered at once); each violation edge returns (0, error) and the relay loops cannot continue on a desynchronised stream; oversize is refused before a frame is built; remembered reply headers are private copies keyed by their own datagram's address; relay destinations come from the datagram's own header; the SOCKS5 address codec's reader and writer agree on type bytes, lengths and port byte order.",
    "Decides rules R18.1-R18.5. Not decided: behaviour for every size/content (e.g. empty datagrams through UDPAssociateWrapper.ReadFrom), loss in the UDP legs." + COMMON_NOTE,
    "wire-table extraction, call-site inventory of stream reads, CFG reachability on error edges, provenance (aliasing) slices on go/ssa",
    "3/C18")

CLAIMS["C20"] = (
    "Structural rules over configuration handling: both merge functions are exhaustive over the generated message types and wire each field from the same field of patch/stored config under a nil test of the patch's field; share-link writer and reader agree on keys, schemes and alphabet and take credentials verbatim from net/url; the server file is written only by StoreServerConfig after hashing, and HashUserPassword has no feasible path that keeps a plaintext when asked not to; a patch reaches a store only merged into the loaded/fetched configuration and fully validated (local apply functions and the CLI's RPC path); constant-bound string slices are guarded; one write per store.",
    "Decides rules R20.1-R20.6. Not decided: round-trip equality for every field content (URL escaping, base64, JSON/protobuf are library behaviour), start-up of a stored configuration, run-time panics beyond the constant-bound slice pattern." + COMMON_NOTE,
    "exhaustiveness over go/types struct fields, provenance slices, dominance, path-sensitive reachability, call-site inventories on go/ssa",
    "3/C20")

CLAIMS["C16"] = (
    "Traffic-pattern handling as code shape plus folded tables: stores into the effective pattern are unreachable when the same original field is set (path-sensitive, per field); generators call only seed-scoped rng.FixedInt with distinct per-field hints and FixedInt's cache is independent of n; generated extremes (FixedInt at 0 and n-1, both unlockAll values) are folded and fed to the validators, the implicit minLen is capped by an explicit maxLen, NONCE_TYPE_FIXED is never generated; consumers: prefix/suffix padding capped by the middle/end setting respectively, the cap function folds to min(budget, configured), the server's low-entropy decision folds to 'only after the client used it'; Encode/Decode are whole-message. The host-derived default seed is selected by the absence of the seed field, never by its value; the server's low-entropy flag is set only after the foreign-user drop.",
    "Decides rules R16.1-R16.5. Not decided: that emitted bytes have the configured statistical shape, rng distributions, nonce rewriting content, TCP fragmentation timing." + COMMON_NOTE,
    "path-sensitive reachability per field, call inventory, constant folding with hooks for rng draws, provenance search on go/ssa",
    "3/C16")

CLAIMS["C19"] = (
    "Accounting as code shape: path-sensitive reachability shows that no successful Read/Write return of a server session that can carry bytes bypasses the user's counter; the counters are registered under the authenticating cipher's user; the quota gate's refusal edge never queues an open response and records the quota status; roll-up consumes each history record exactly once on every path of the loop body, flushes the open bucket, and writes only into records it allocated (so snapshots are not mutated); loading a dump is Add(max(0, stored-current)). Also: server sessions are created with their per-user counters attached and with the authenticated user's policy on both transports (a TCP connection's later sessions use the policy remembered by the connection).",
    "Decides rules R19.1-R19.5. Not decided: totals over arbitrary timestamp histories, ordering after truncation, window sums, sessions racing with accounting (F8: counters are attached by the input goroutine — timing), partial multi-chunk writes that fail midway (F10)." + COMMON_NOTE,
    "path-sensitive reachability, path enumeration of a loop body (linear use), provenance and alias slices on go/ssa",
    "3/C19")

CLAIMS["C14"] = (
    "The datagram budget as wiring plus folded arithmetic: the overhead constant equals nonce + metadata + two tags; maxFragmentSize is folded for every supported MTU (1280..1500) x transport x low-entropy mode against the datagram budget, the 32768 limit and the 16-bit encoded length; maxPaddingSize is folded on a boundary grid against clamp(MTU - payload - 88 - existing, 0, 255); at the UDP write sites each padding cap is computed from u.mtu, the payloadLen of the metadata actually marshalled, and the padding already placed; the low-entropy path refuses an over-MTU datagram; the narrow fields (piggyback length, fragment index, window) are bounded. Also: the configured MTU reaches the endpoint descriptor unchanged for every value 1280..1500 (folded) and the underlays take their mtu from it.",
    "Decides rules R14.1-R14.5. Not decided: len(datagram) <= MTU as joint arithmetic over all four configuration axes (wiring and each budget function are decided, not the sum for every combination); MTU outside [1280,1500]." + COMMON_NOTE,
    "constant folding over the whole MTU range and a boundary grid, argument provenance at call sites, dominance on go/ssa",
    "3/C14")

CLAIMS["C04"] = (
    "Provenance and ordering rules on both receive paths: the payload of every segment that leaves the reader is the result of an AEAD open that returned nil (or nil); every read size and every slice bound on attacker-controlled bytes is a field of the metadata that was itself opened and parsed with nil error (+ constants); a stream authentication or parse failure ends the read loop for that connection, a datagram failure discards that datagram's segment and never reaches the session; the direction gate on protocol numbers is folded for all 16 values; per-datagram nonce sharing between metadata and payload is inventoried; on the datagram transport a segment type of the wrong direction (an inserted or reflected datagram) is dropped with a nil return for all 16 protocol numbers on both roles instead of an error that would close the session.",
    "Decides rules R04.1, R04.2, R04.4-R04.8. Defect F13 (a reflected datagram ended the session; demos/F13) was repaired in /repo b4402cd. Not decided: the strength of XChaCha20-Poly1305 itself, what the application finally reads (C01/C02), unauthenticated padding bytes (they are never delivered, R04.1). Known finding F12 (R04.7): on UDP metadata and payload are sealed under the same key and nonce without domain separation, so the two ciphertexts of one datagram are interchangeable (demonstrated in demos/F12)." + COMMON_NOTE,
    "provenance slices through go/ssa (phi, convert, defer-spilled results), nil-error edge detection, dominance, path-cut reachability, constant folding of the direction gate",
    "3/C04")

CLAIMS["C01"] = (
    "The shape of the TCP data path on every path the compiler can build. Sender: each splitting loop is a consume loop (sent slice and advance use the same length, cursor starts at the input), sequence numbers are assigned under the output lock, payloads are private copies, the output loop dequeues and transmits within one critical section, every encryption and connection write of a segment happens under the connection's send mutex on the buffer just encrypted. Wire: the connection is read only with ReadFull/ReadAtLeast and only in sizes taken from authenticated metadata; fragment sizes fit the 16-bit length for every mode; both sides advance the implicit nonce exactly once per operation. Receiver: dispatch by authenticated session id, a single producer for the in-order queue, a full queue waits (never drops) unless the session is closed, and Read is a consume loop that keeps and replays the tail that did not fit before any newer segment.",
    "Decides rules R01.1-R01.10. These are necessary conditions of byte-exact in-order delivery; the equality of bytes read and written itself needs execution and is not claimed, nor are goroutine schedules beyond the lock discipline or the segment tree's ordering (a data structure property)." + COMMON_NOTE,
    "consume-loop recognition on go/ssa (slice/phi structure), must-hold lock check, dominance, who-may-call/who-may-write inventories, provenance of read sizes, constant folding of fragment sizes",
    "3/C01")

CLAIMS["C02"] = (
    "Necessary structural conditions of reliable, stall-free delivery over datagrams, each on every path of the code: the sender forgets a segment only under the peer's cumulative ack; the receiver releases only the exactly-next segment and acks with the current nextRecv; the peer's window is recorded from every ack and data segment; every received data datagram (duplicate or out of window) schedules an ack; the ack/heartbeat decision is reached by every output step and is gated by nothing but {opening, ack requested, heartbeat interval}; the retransmission scan is gated only by its timer, consults no window, retransmits on timeout, and its duplicate-ack trigger is bounded per segment (path-sensitive exploration over the condition atoms); only data is deferred during open and the open response ends the deferral; the congestion window can never close; datagrams are authenticated and bad ones discarded.",
    "Decides rules R02.1-R02.9. Not decided: the liveness statement itself ('completes under a fair-lossy network') is a temporal property over network histories and schedules, outside static analysis; timer values, RTO arithmetic, cubic's growth, sequence wrap-around. These rules decide the structure whose absence produces the stalls and abandonments the property excludes." + COMMON_NOTE,
    "transitive control-dependence vocabulary checks, path-sensitive CFG exploration over condition atoms, dominance / must-pass-through, field-store inventories, constant folding (isDataProtocol) on go/ssa",
    "3/C02")

CLAIMS["C03"] = (
    "The close protocol's structure on every path, explored path-sensitively over the atoms of closeWithError (first call, err == nil, session live, Insert succeeded, close request transmitted): a graceful close of a live session in any state queues the close request itself, under the output lock, behind the pending data before any discard of send state; the discard follows only the transmission of that very sequence number or the exhaustion of the bounded wait; direct transmission happens only when the loop did not transmit it; stream transmissions all hold the output lock so the close request follows the data on the wire; send state is discarded nowhere else. Receiver: a datagram close request ahead of undelivered segments marks the session incomplete before closing it, and Read reports io.EOF only with nothing left to hand out and the session not marked incomplete.",
    "Decides rules R03.1-R03.6. Not decided: what the peer actually read; the case where sendQueue.Insert fails on a full queue; Read's random choice when closedChan and inputErr are both ready. Defect F7 (clean EOF after a prefix when one UDP datagram is lost before the close request; demos/F7) was repaired in /repo commit cac872e; R03.5/R03.6 report it again if the repair is undone." + COMMON_NOTE,
    "path-sensitive CFG exploration with external atoms and edge cuts, transitive control-dependence check of the EOF result, must-hold lock check, who-may-call inventory on go/ssa",
    "3/C03")
