#!/bin/bash
# confirm_seed.sh ID PATCH PKGDIR TESTREGEX DEMOFILE...
#   ID        e.g. C05a
#   PATCH     path of patch.diff
#   PKGDIR    package directory (relative to repo root) the demo files are copied into
#   TESTREGEX -run regex of the demo tests
#   DEMOFILE  demo test files (copied into PKGDIR)
# Confirms in a scratch worktree of /repo HEAD (under /tmp) that the patch
# applies, builds, vets, passes the full existing suite, and that the demo
# fails with the patch and passes without it. Prints a summary and removes
# the worktree.
set -u
export GOFLAGS=-mod=mod GOPROXY=off GOSUMDB=off GOTOOLCHAIN=local
unset GOWORK
id=$1; patch=$2; pkgdir=$3; re=$4; shift 4
wt=/tmp/confirm-$id
rm -rf $wt; git -C /repo worktree prune
git -C /repo worktree add --detach $wt HEAD >/dev/null 2>&1 || { echo "$id: worktree failed"; exit 2; }
cleanup() { git -C /repo worktree remove --force $wt >/dev/null 2>&1; }
trap cleanup EXIT
cd $wt
res="$id:"
# demo without patch
for f in "$@"; do cp "$f" $pkgdir/; done
if go test -count=1 -run "$re" ./$pkgdir/ >/tmp/confirm-$id.clean.log 2>&1; then res="$res clean=PASS"; else res="$res clean=FAIL"; fi
for f in "$@"; do rm -f $pkgdir/$(basename $f); done
if ! git apply --whitespace=nowarn "$patch" 2>/tmp/confirm-$id.apply.log; then
  if ! git apply -3 --whitespace=nowarn "$patch" 2>>/tmp/confirm-$id.apply.log; then
    echo "$res APPLY=FAIL (see /tmp/confirm-$id.apply.log)"; exit 1
  fi
  res="$res apply=3way"
fi
git diff > /tmp/confirm-$id.rebased.diff
if go build ./... >/tmp/confirm-$id.build.log 2>&1 && go vet ./... >>/tmp/confirm-$id.build.log 2>&1; then res="$res build+vet=OK"; else res="$res build+vet=FAIL"; fi
if go test -vet=off -count=1 -timeout 25m ./... >/tmp/confirm-$id.suite.log 2>&1; then res="$res suite=PASS"; else res="$res suite=FAIL"; fi
for f in "$@"; do cp "$f" $pkgdir/; done
if go test -count=1 -run "$re" ./$pkgdir/ >/tmp/confirm-$id.patched.log 2>&1; then res="$res patched=PASS(!)"; else res="$res patched=FAIL(expected)"; fi
echo "$res"
