package trafficpattern

// Demo for finding F2 (property C16): implicit values must give a pattern that
// passes validation. Copy into apis/trafficpattern and run
//   go test -run TestDemoF2 ./apis/trafficpattern/
// Before the fix: an explicit nonce.maxLen below the implicit minLen (6..12)
// gives an effective pattern with minLen > maxLen for every seed.

import (
	"testing"

	"github.com/enfein/mieru/v3/pkg/appctl/appctlpb"
	"google.golang.org/protobuf/proto"
)

func TestDemoF2ExplicitMaxLenBelowImplicitMinLen(t *testing.T) {
	for seed := int32(0); seed < 50; seed++ {
		for _, unlock := range []bool{false, true} {
			for maxLen := int32(0); maxLen <= 12; maxLen++ {
				p := &appctlpb.TrafficPattern{Seed: proto.Int32(seed), UnlockAll: proto.Bool(unlock), Nonce: &appctlpb.NoncePattern{MaxLen: proto.Int32(maxLen)}}
				c, err := NewConfig(p)
				if err != nil {
					t.Fatalf("NewConfig: %v", err)
				}
				if got := c.Effective().GetNonce().GetMaxLen(); got != maxLen {
					t.Fatalf("explicit maxLen %d overridden to %d", maxLen, got)
				}
				if err := Validate(c.Effective()); err != nil {
					t.Fatalf("seed %d unlockAll %v maxLen %d: effective pattern invalid: %v", seed, unlock, maxLen, err)
				}
			}
		}
	}
}
