package socks5

// Demo for findings F4a-c (property C12): a user without loopback access must
// get REJECT for the well-known local names in any letter case, for an empty
// host and for the unspecified addresses. Copy into pkg/socks5 and run
//   go test -run TestDemoF4 ./pkg/socks5/
// Before the fix all of the cases below are DIRECT.

import (
	"bytes"
	"context"
	"net"
	"testing"

	"github.com/enfein/mieru/v3/apis/model"
	"github.com/enfein/mieru/v3/pkg/appctl/appctlpb"
	"github.com/enfein/mieru/v3/pkg/egress"
	"google.golang.org/protobuf/proto"
)

func TestDemoF4LocalDestinations(t *testing.T) {
	s, err := New(&Config{Users: map[string]*appctlpb.User{
		"plain": {Name: proto.String("plain")},
		"lo":    {Name: proto.String("lo"), AllowLoopbackIP: proto.Bool(true)},
	}})
	if err != nil {
		t.Fatal(err)
	}
	mk := func(a model.AddrSpec) []byte {
		var b bytes.Buffer
		b.Write([]byte{5, 1, 0})
		if err := a.WriteToSocks5(&b); err != nil {
			t.Fatal(err)
		}
		return b.Bytes()
	}
	cases := []model.AddrSpec{
		{FQDN: "LOCALHOST", Port: 80},
		{FQDN: "LocalHost6", Port: 80},
		{IP: net.IPv4(0, 0, 0, 0), Port: 80},
		{IP: net.IPv6unspecified, Port: 80},
		{IP: net.ParseIP("::ffff:127.0.0.1"), Port: 80},
	}
	for _, a := range cases {
		in := egress.Input{Protocol: appctlpb.ProxyProtocol_SOCKS5_PROXY_PROTOCOL, Data: mk(a), Env: map[string]string{"user": "plain"}}
		if got := s.FindAction(context.Background(), in).Action; got != appctlpb.EgressAction_REJECT {
			t.Errorf("user without loopback access, destination %v: got %v, want REJECT", a, got)
		}
		in.Env["user"] = "lo"
		if got := s.FindAction(context.Background(), in).Action; got != appctlpb.EgressAction_DIRECT {
			t.Errorf("user with loopback access, destination %v: got %v, want DIRECT", a, got)
		}
	}
	// zero-length domain name
	raw := []byte{5, 1, 0, 3, 0, 0, 80}
	in := egress.Input{Protocol: appctlpb.ProxyProtocol_SOCKS5_PROXY_PROTOCOL, Data: raw, Env: map[string]string{"user": "plain"}}
	if got := s.FindAction(context.Background(), in).Action; got != appctlpb.EgressAction_REJECT {
		t.Errorf("empty host: got %v, want REJECT", got)
	}
	// public destination unaffected
	in = egress.Input{Protocol: appctlpb.ProxyProtocol_SOCKS5_PROXY_PROTOCOL, Data: mk(model.AddrSpec{IP: net.IPv4(8, 8, 8, 8), Port: 53}), Env: map[string]string{"user": "plain"}}
	if got := s.FindAction(context.Background(), in).Action; got != appctlpb.EgressAction_DIRECT {
		t.Errorf("public destination: got %v, want DIRECT", got)
	}
}
