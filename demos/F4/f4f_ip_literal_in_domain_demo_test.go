package socks5

// Demo for finding F4f (property C12): a CONNECT whose address type is
// "domain name" but whose text is an IP literal ("127.0.0.1", "::1",
// "10.0.0.1") is resolved by the server to that address; the gate must treat
// it like the IP. Before the fix: DIRECT for a user without access.
//   go test -run TestDemoF4f ./pkg/socks5/

import (
	"context"
	"testing"

	"github.com/enfein/mieru/v3/pkg/appctl/appctlpb"
	"github.com/enfein/mieru/v3/pkg/egress"
	"google.golang.org/protobuf/proto"
)

func TestDemoF4fIPLiteralInDomainField(t *testing.T) {
	s, err := New(&Config{Users: map[string]*appctlpb.User{"plain": {Name: proto.String("plain")}}})
	if err != nil {
		t.Fatal(err)
	}
	for _, host := range []string{"127.0.0.1", "::1", "10.0.0.1", "0.0.0.0"} {
		data := append([]byte{5, 1, 0, 3, byte(len(host))}, host...)
		data = append(data, 0, 80)
		in := egress.Input{Protocol: appctlpb.ProxyProtocol_SOCKS5_PROXY_PROTOCOL, Data: data, Env: map[string]string{"user": "plain"}}
		if got := s.FindAction(context.Background(), in).Action; got != appctlpb.EgressAction_REJECT {
			t.Errorf("domain-typed %q: got %v, want REJECT", host, got)
		}
	}
	data := append([]byte{5, 1, 0, 3, 7}, "8.8.8.8"...)
	data = append(data, 0, 53)
	in := egress.Input{Protocol: appctlpb.ProxyProtocol_SOCKS5_PROXY_PROTOCOL, Data: data, Env: map[string]string{"user": "plain"}}
	if got := s.FindAction(context.Background(), in).Action; got != appctlpb.EgressAction_DIRECT {
		t.Errorf("domain-typed 8.8.8.8: got %v, want DIRECT", got)
	}
}
