package socks5

// Regression demo for the follow-up of F4 (property C12): a UDP ASSOCIATE
// request with the customary all-zero client address must still be allowed
// for a user without loopback access (nothing is dialed; each relayed packet
// is checked on its own), while CONNECT to 0.0.0.0 stays rejected.
//   go test -run TestDemoF4e ./pkg/socks5/

import (
	"context"
	"testing"

	"github.com/enfein/mieru/v3/pkg/appctl/appctlpb"
	"github.com/enfein/mieru/v3/pkg/egress"
	"google.golang.org/protobuf/proto"
)

func TestDemoF4eUDPAssociateAllZeroAddress(t *testing.T) {
	s, err := New(&Config{Users: map[string]*appctlpb.User{"plain": {Name: proto.String("plain")}}})
	if err != nil {
		t.Fatal(err)
	}
	env := map[string]string{"user": "plain"}
	assoc := egress.Input{Protocol: appctlpb.ProxyProtocol_SOCKS5_PROXY_PROTOCOL, Data: []byte{5, 3, 0, 1, 0, 0, 0, 0, 0, 0}, Env: env}
	if got := s.FindAction(context.Background(), assoc).Action; got != appctlpb.EgressAction_DIRECT {
		t.Errorf("UDP ASSOCIATE 0.0.0.0:0: got %v, want DIRECT", got)
	}
	connect := egress.Input{Protocol: appctlpb.ProxyProtocol_SOCKS5_PROXY_PROTOCOL, Data: []byte{5, 1, 0, 1, 0, 0, 0, 0, 0, 80}, Env: env}
	if got := s.FindAction(context.Background(), connect).Action; got != appctlpb.EgressAction_REJECT {
		t.Errorf("CONNECT 0.0.0.0:80: got %v, want REJECT", got)
	}
	assocLoop := egress.Input{Protocol: appctlpb.ProxyProtocol_SOCKS5_PROXY_PROTOCOL, Data: []byte{5, 3, 0, 1, 127, 0, 0, 1, 0, 0}, Env: env}
	if got := s.FindAction(context.Background(), assocLoop).Action; got != appctlpb.EgressAction_REJECT {
		t.Errorf("UDP ASSOCIATE 127.0.0.1:0: got %v, want REJECT", got)
	}
}
