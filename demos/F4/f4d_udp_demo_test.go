package socks5

// Demo for finding F4d (property C12): datagrams relayed through a UDP
// association must not be sent to a loopback address for a user without
// loopback access. Copy into pkg/socks5 and run
//   go test -run TestDemoF4d ./pkg/socks5/
// Before the fix the datagram arrives at the local UDP listener.

import (
	"context"
	"net"
	"testing"
	"time"

	apicommon "github.com/enfein/mieru/v3/apis/common"
	"github.com/enfein/mieru/v3/apis/model"
	"github.com/enfein/mieru/v3/pkg/appctl/appctlpb"
	"google.golang.org/protobuf/proto"
)

type demoUserConn struct {
	net.Conn
	user string
}

func (c demoUserConn) UserName() string { return c.user }

func demoF4dRelay(t *testing.T, user string) bool {
	s, err := New(&Config{Users: map[string]*appctlpb.User{
		"plain": {Name: proto.String("plain")},
		"lo":    {Name: proto.String("lo"), AllowLoopbackIP: proto.Bool(true)},
	}})
	if err != nil {
		t.Fatal(err)
	}
	target, err := net.ListenUDP("udp4", &net.UDPAddr{IP: net.IPv4(127, 0, 0, 1)})
	if err != nil {
		t.Fatal(err)
	}
	defer target.Close()
	c1, c2 := net.Pipe()
	defer c1.Close()
	go s.handleAssociate(context.Background(), &model.Request{}, demoUserConn{c2, user})
	// read the associate response (10 bytes for IPv4)
	c1.SetDeadline(time.Now().Add(3 * time.Second))
	if _, err := model.ReadSocks5Response(c1); err != nil {
		t.Fatal(err)
	}
	tunnel := apicommon.NewPacketOverStreamTunnel(c1)
	pkt, err := newSocks5UDPDatagram(model.AddrSpec{IP: net.IPv4(127, 0, 0, 1), Port: target.LocalAddr().(*net.UDPAddr).Port}, []byte("hello"))
	if err != nil {
		t.Fatal(err)
	}
	if _, err := tunnel.Write(pkt); err != nil {
		t.Fatal(err)
	}
	target.SetReadDeadline(time.Now().Add(700 * time.Millisecond))
	buf := make([]byte, 64)
	n, _, err := target.ReadFromUDP(buf)
	return err == nil && string(buf[:n]) == "hello"
}

func TestDemoF4dUDPRelayToLoopback(t *testing.T) {
	if demoF4dRelay(t, "plain") {
		t.Errorf("a datagram naming 127.0.0.1 was relayed for a user without loopback access")
	}
	if !demoF4dRelay(t, "lo") {
		t.Errorf("a datagram naming 127.0.0.1 was not relayed for a user with loopback access")
	}
}
