package appctl

// Demo for finding F1 (property C20): malformed share links must be rejected
// with an error, never a panic. Copy into pkg/appctl and run
//   go test -run TestDemoF1 ./pkg/appctl/
// Before the fix: panic "slice bounds out of range [8:7]".

import "testing"

func TestDemoF1ShortShareLink(t *testing.T) {
	for _, s := range []string{"mieru:/", "mieru:", "mieru:///", "MIERU://", "mieru:/?a"} {
		if _, err := URLToClientConfig(s); err == nil && len(s) < 8 {
			t.Errorf("URLToClientConfig(%q): want error", s)
		}
	}
}
