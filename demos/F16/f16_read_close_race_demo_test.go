//go:build verif

package protocol

// Demonstration for finding F16 (property C03).
//
// Session.Read tests recvQueue.Len() == 0 and then waits in a select. If the
// last data and the peer's graceful close both arrive between that test and
// the select, closedChan and the not-empty event are ready together; select
// picks one at random, and the closedChan case returns io.EOF without looking
// at the queue again. The application then sees a strict prefix of what the
// peer wrote, followed by a clean end of stream.
//
// The window is a few instructions wide, so the schedule is forced with the
// verif-tagged hook verifHookReadBeforeWait (a no-op in normal builds): the
// reader is held exactly there until the data is queued and the session is
// closed, then released. Everything else is the real code over loopback TCP.
//
// Run: copy into pkg/protocol and
//   go test -tags verif -count=1 -run TestF16 ./pkg/protocol/

import (
	"context"
	"io"
	"net"
	"sync"
	"testing"
	"time"

	"github.com/enfein/mieru/v3/pkg/appctl/appctlpb"
	"github.com/enfein/mieru/v3/pkg/cipher"
	"github.com/enfein/mieru/v3/pkg/common"
	"google.golang.org/protobuf/proto"
)

func TestF16ReadReportsCleanEOFWithDataQueued(t *testing.T) {
	port, err := common.UnusedTCPPort()
	if err != nil {
		t.Fatal(err)
	}
	f16Users := map[string]*appctlpb.User{
		"f16user": {Name: proto.String("f16user"), Password: proto.String("f16password")},
	}
	serverMux := NewMux(false).
		SetServerUsers(f16Users).
		SetEndpoints([]UnderlayProperties{NewUnderlayProperties(1400, common.StreamTransport, &net.TCPAddr{IP: net.ParseIP("127.0.0.1"), Port: port}, nil)})
	if err := serverMux.Start(); err != nil {
		t.Fatal(err)
	}
	defer serverMux.Close()
	time.Sleep(100 * time.Millisecond)
	clientMux := NewMux(true).
		SetClientUserNamePassword("f16user", cipher.HashPassword([]byte("f16password"), []byte("f16user"))).
		SetClientMultiplexFactor(0).
		SetEndpoints([]UnderlayProperties{NewUnderlayProperties(1400, common.StreamTransport, nil, &net.TCPAddr{IP: net.ParseIP("127.0.0.1"), Port: port})})
	defer clientMux.Close()

	const rounds = 24
	head := make([]byte, 100)
	tail := make([]byte, 50)
	for i := range head {
		head[i] = 'h'
	}
	for i := range tail {
		tail[i] = 't'
	}

	short := 0
	for round := 0; round < rounds; round++ {
		ctx, cancel := context.WithTimeout(context.Background(), 5*time.Second)
		cconn, err := clientMux.DialContext(ctx)
		cancel()
		if err != nil {
			t.Fatalf("round %d: dial: %v", round, err)
		}
		if _, err := cconn.Write(head); err != nil {
			t.Fatalf("round %d: write head: %v", round, err)
		}
		sconn, err := serverMux.Accept()
		if err != nil {
			t.Fatalf("round %d: accept: %v", round, err)
		}
		target := sconn.(*Session)
		got := make([]byte, len(head))
		if _, err := io.ReadFull(sconn, got); err != nil {
			t.Fatalf("round %d: read head: %v", round, err)
		}

		// hold the next Read of this session right before it waits
		reached := make(chan struct{})
		release := make(chan struct{})
		var once sync.Once
		hook := func(s *Session) {
			if s == target {
				once.Do(func() {
					close(reached)
					<-release
				})
			}
		}
		verifReadBeforeWait.Store(&hook)

		type res struct {
			n   int
			err error
		}
		done := make(chan res, 1)
		buf := make([]byte, 4096)
		go func() {
			n, err := sconn.Read(buf)
			done <- res{n, err}
		}()
		select {
		case <-reached:
		case <-time.After(3 * time.Second):
			t.Fatalf("round %d: the reader never reached the wait", round)
		}

		// the peer writes the tail and closes gracefully
		if _, err := cconn.Write(tail); err != nil {
			t.Fatalf("round %d: write tail: %v", round, err)
		}
		cconn.Close()

		// wait until the tail is queued at the receiver and its session is closed
		deadline := time.Now().Add(5 * time.Second)
		for {
			closed := false
			select {
			case <-target.closedChan:
				closed = true
			default:
			}
			if closed && target.recvQueue.Len() > 0 {
				break
			}
			if time.Now().After(deadline) {
				t.Fatalf("round %d: tail queued=%v closed=%v after 5s", round, target.recvQueue.Len() > 0, closed)
			}
			time.Sleep(time.Millisecond)
		}
		close(release)
		r := <-done
		verifReadBeforeWait.Store(nil)
		switch {
		case r.err == io.EOF && r.n == 0:
			short++
			t.Logf("round %d: Read returned a clean io.EOF after %d of %d bytes; %d segment(s) still queued", round, len(head), len(head)+len(tail), target.recvQueue.Len())
		case r.err == nil && r.n == len(tail):
			// the tail was delivered; the next Read reports the end of stream
		default:
			t.Fatalf("round %d: unexpected Read result n=%d err=%v", round, r.n, r.err)
		}
		sconn.Close()
	}
	if short > 0 {
		t.Fatalf("in %d of %d rounds the application read a strict prefix (100 of 150 bytes) followed by a clean io.EOF", short, rounds)
	}
}
