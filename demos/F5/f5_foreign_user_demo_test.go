package protocol

// Demo for finding F5 (property C10): one authenticated UDP datagram from user
// bob that names a session id owned by user alice must not crash the server,
// and alice's session must keep working. Copy into pkg/protocol and run
//   go test -run TestDemoF5 ./pkg/protocol/
// Before the fix: process-wide panic in Session.input ("cipher block user name
// \"alice\" is different from ... \"bob\"").

import (
	"bytes"
	"context"
	"io"
	"net"
	"testing"
	"time"

	"github.com/enfein/mieru/v3/pkg/appctl/appctlpb"
	"github.com/enfein/mieru/v3/pkg/cipher"
	"github.com/enfein/mieru/v3/pkg/common"
	"github.com/enfein/mieru/v3/pkg/testtool"
	"google.golang.org/protobuf/proto"
)

func TestDemoF5ForeignUserNamesOtherSession(t *testing.T) {
	twoUsers := map[string]*appctlpb.User{
		"alice": {Name: proto.String("alice"), Password: proto.String("alice-pw")},
		"bob":   {Name: proto.String("bob"), Password: proto.String("bob-pw")},
	}
	port, err := common.UnusedUDPPort()
	if err != nil {
		t.Fatal(err)
	}
	srvAddr := &net.UDPAddr{IP: net.ParseIP("127.0.0.1"), Port: port}
	serverMux := NewMux(false).SetServerUsers(twoUsers).
		SetEndpoints([]UnderlayProperties{NewUnderlayProperties(1400, common.PacketTransport, srvAddr, nil)})
	if err := serverMux.Start(); err != nil {
		t.Fatal(err)
	}
	defer serverMux.Close()
	srv := testtool.NewTestHelperServer()
	go srv.Serve(serverMux)
	defer srv.Close()
	time.Sleep(100 * time.Millisecond)

	clientMux := NewMux(true).
		SetClientUserNamePassword("alice", cipher.HashPassword([]byte("alice-pw"), []byte("alice"))).
		SetClientMultiplexFactor(1).
		SetEndpoints([]UnderlayProperties{NewUnderlayProperties(1400, common.PacketTransport, nil, srvAddr)})
	defer clientMux.Close()
	ctx, cancel := context.WithTimeout(context.Background(), 5*time.Second)
	defer cancel()
	conn, err := clientMux.DialContext(ctx)
	if err != nil {
		t.Fatal(err)
	}
	defer conn.Close()
	echo := func(msg []byte) {
		t.Helper()
		if _, err := conn.Write(msg); err != nil {
			t.Fatalf("alice Write: %v", err)
		}
		resp := make([]byte, len(msg))
		conn.SetReadDeadline(time.Now().Add(5 * time.Second))
		if _, err := io.ReadFull(conn, resp); err != nil {
			t.Fatalf("alice Read: %v", err)
		}
		got, _ := testtool.TestHelperRot13(resp)
		if !bytes.Equal(got, msg) {
			t.Fatalf("alice got wrong echo")
		}
	}
	echo(testtool.TestHelperGenRot13Input(100))
	aliceSessionID := conn.(*Session).id

	// bob builds an authenticated closeSessionRequest naming alice's session.
	block, err := cipher.BlockCipherFromPassword(cipher.HashPassword([]byte("bob-pw"), []byte("bob")), true)
	if err != nil {
		t.Fatal(err)
	}
	block.SetBlockContext(cipher.BlockContext{UserName: "bob"})
	ss := &sessionStruct{baseStruct: baseStruct{protocol: uint8(closeSessionRequest)}, sessionID: aliceSessionID, seq: 7}
	meta := ss.Marshal()
	pkt := make([]byte, 0, 128)
	full := make([]byte, len(meta)+block.NonceSize()+block.Overhead())
	if err := block.Encrypt(full[:0], meta); err != nil {
		t.Fatal(err)
	}
	pkt = append(pkt, full...)
	bobSock, err := net.DialUDP("udp4", nil, srvAddr)
	if err != nil {
		t.Fatal(err)
	}
	defer bobSock.Close()
	if _, err := bobSock.Write(pkt); err != nil {
		t.Fatal(err)
	}
	time.Sleep(300 * time.Millisecond)

	// The server is alive and alice's session still works.
	echo(testtool.TestHelperGenRot13Input(200))
}
