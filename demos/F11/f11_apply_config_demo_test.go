package cli

// Demo for finding F11 (property C20): `mita apply config <FILE>` must merge
// the patch into the stored configuration ("applying a patch changes only what
// the patch sets"). Copy into pkg/cli and run
//   go test -run TestDemoF11 ./pkg/cli/
// Before the fix: a users-only patch replaces the whole stored configuration
// (port bindings, MTU and the existing user are gone).

import (
	"net"
	"os"
	"path/filepath"
	"testing"

	"github.com/enfein/mieru/v3/pkg/appctl"
	"github.com/enfein/mieru/v3/pkg/appctl/appctlgrpc"
	pb "github.com/enfein/mieru/v3/pkg/appctl/appctlpb"
	"google.golang.org/grpc"
	"google.golang.org/protobuf/proto"
)

func TestDemoF11ApplyConfigMerges(t *testing.T) {
	dir := t.TempDir()
	uds := filepath.Join(dir, "mita.sock")
	t.Setenv("MITA_UDS_PATH", uds)
	t.Setenv("MITA_CONFIG_JSON_FILE", filepath.Join(dir, "server.conf.json"))

	lis, err := net.Listen("unix", uds)
	if err != nil {
		t.Fatal(err)
	}
	srv := grpc.NewServer()
	appctlgrpc.RegisterServerManagementServiceServer(srv, appctl.NewServerManagementService())
	go srv.Serve(lis)
	defer srv.Stop()
	appctl.SetAppStatus(pb.AppStatus_IDLE)

	initial := &pb.ServerConfig{
		PortBindings: []*pb.PortBinding{{Port: proto.Int32(6000), Protocol: pb.TransportProtocol_TCP.Enum()}},
		Users:        []*pb.User{{Name: proto.String("alice"), Password: proto.String("alice-pw")}},
		Mtu:          proto.Int32(1400),
	}
	if err := appctl.StoreServerConfig(initial); err != nil {
		t.Fatal(err)
	}

	patch := filepath.Join(dir, "patch.json")
	if err := os.WriteFile(patch, []byte(`{"users":[{"name":"bob","password":"bob-pw"}]}`), 0o600); err != nil {
		t.Fatal(err)
	}
	if err := serverApplyConfigFunc([]string{"mita", "apply", "config", patch}); err != nil {
		t.Fatalf("apply config: %v", err)
	}

	got, err := appctl.LoadServerConfig()
	if err != nil {
		t.Fatal(err)
	}
	if len(got.GetPortBindings()) != 1 || got.GetPortBindings()[0].GetPort() != 6000 {
		t.Errorf("port bindings lost: %v", got.GetPortBindings())
	}
	if got.GetMtu() != 1400 {
		t.Errorf("mtu = %d, want 1400", got.GetMtu())
	}
	names := map[string]bool{}
	for _, u := range got.GetUsers() {
		names[u.GetName()] = true
		if u.GetPassword() != "" {
			t.Errorf("plaintext password stored for %s", u.GetName())
		}
	}
	if !names["alice"] || !names["bob"] {
		t.Errorf("users after apply = %v, want alice and bob", names)
	}
	if err := appctl.ValidateFullServerConfig(got); err != nil {
		t.Errorf("stored configuration no longer valid: %v", err)
	}
}
