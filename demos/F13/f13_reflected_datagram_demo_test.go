package protocol

// Demonstration for seeded change C04/d.
//
// Copy this file into pkg/protocol/ and run:
//   go test -count=1 -run TestF13ReflectedDatagrams ./pkg/protocol/
//
// A UDP relay sits between a mieru client and a mieru server. In the
// "reflect" run it sends a copy of every client -> server datagram back to
// the client, from the address the client believes to be the server.
// The server application writes a known stream S. The client application
// must never read a byte that differs from S at that position (the
// connection is allowed to end early).

import (
	"context"
	"io"
	"net"
	"sync"
	"testing"
	"time"

	"github.com/enfein/mieru/v3/pkg/appctl/appctlpb"
	"github.com/enfein/mieru/v3/pkg/cipher"
	"github.com/enfein/mieru/v3/pkg/common"
	"google.golang.org/protobuf/proto"
)

type f13Relay struct {
	clientSide net.PacketConn // the client talks to this socket
	serverSide net.PacketConn // this socket talks to the real server
	serverAddr net.Addr
	reflect    bool

	mu         sync.Mutex
	clientAddr net.Addr
	reflected  int
}

func newF13Relay(t *testing.T, serverAddr net.Addr, reflect bool) *f13Relay {
	t.Helper()
	cs, err := net.ListenPacket("udp", "127.0.0.1:0")
	if err != nil {
		t.Fatalf("ListenPacket() failed: %v", err)
	}
	ss, err := net.ListenPacket("udp", "127.0.0.1:0")
	if err != nil {
		t.Fatalf("ListenPacket() failed: %v", err)
	}
	r := &f13Relay{clientSide: cs, serverSide: ss, serverAddr: serverAddr, reflect: reflect}
	go r.clientToServer()
	go r.serverToClient()
	return r
}

func (r *f13Relay) clientToServer() {
	buf := make([]byte, 2048)
	for {
		n, addr, err := r.clientSide.ReadFrom(buf)
		if err != nil {
			return
		}
		r.mu.Lock()
		r.clientAddr = addr
		r.mu.Unlock()
		pkt := append([]byte(nil), buf[:n]...)
		r.serverSide.WriteTo(pkt, r.serverAddr)
		if r.reflect {
			// Splice the datagram into the opposite direction. The copy is
			// sent a little later than the original: client and server run
			// in one process here and share the package level replay cache,
			// so the server has to see the nonce first, as it would when the
			// two ends are separate processes.
			time.AfterFunc(30*time.Millisecond, func() {
				r.clientSide.WriteTo(pkt, addr)
				r.mu.Lock()
				r.reflected++
				r.mu.Unlock()
			})
		}
	}
}

func (r *f13Relay) serverToClient() {
	buf := make([]byte, 2048)
	for {
		n, _, err := r.serverSide.ReadFrom(buf)
		if err != nil {
			return
		}
		r.mu.Lock()
		addr := r.clientAddr
		r.mu.Unlock()
		if addr == nil {
			continue
		}
		r.clientSide.WriteTo(append([]byte(nil), buf[:n]...), addr)
	}
}

func (r *f13Relay) Close() {
	r.clientSide.Close()
	r.serverSide.Close()
}

func f13ServerStream(n int) []byte {
	b := make([]byte, n)
	for i := range b {
		b[i] = byte(0x80 | (i*7+3)%0x7f) // high bit always set
	}
	return b
}

func f13ClientStream(n int) []byte {
	b := make([]byte, n)
	for i := range b {
		b[i] = byte('a' + i%26) // high bit never set
	}
	return b
}

func runF13(t *testing.T, reflect bool) (read []byte, want []byte, reflected int) {
	userName := "f13user"
	rawPassword := "f13password"
	serverUsers := map[string]*appctlpb.User{
		userName: {Name: proto.String(userName), Password: proto.String(rawPassword)},
	}

	port, err := common.UnusedUDPPort()
	if err != nil {
		t.Fatalf("UnusedUDPPort() failed: %v", err)
	}
	serverUDPAddr := &net.UDPAddr{IP: net.ParseIP("127.0.0.1"), Port: port}
	serverMux := NewMux(false).
		SetServerUsers(serverUsers).
		SetEndpoints([]UnderlayProperties{NewUnderlayProperties(1400, common.PacketTransport, serverUDPAddr, nil)})
	if err := serverMux.Start(); err != nil {
		t.Fatalf("server Start() failed: %v", err)
	}
	defer serverMux.Close()
	time.Sleep(100 * time.Millisecond)

	want = f13ServerStream(6000)
	release := make(chan struct{})
	go func() {
		conn, err := serverMux.Accept()
		if err != nil {
			return
		}
		go io.Copy(io.Discard, conn)
		<-release
		conn.Write(want)
		// Keep the session open; the test tears everything down.
	}()

	relay := newF13Relay(t, serverUDPAddr, reflect)
	defer relay.Close()

	clientMux := NewMux(true).
		SetClientUserNamePassword(userName, cipher.HashPassword([]byte(rawPassword), []byte(userName))).
		SetClientMultiplexFactor(0).
		SetEndpoints([]UnderlayProperties{NewUnderlayProperties(1400, common.PacketTransport, nil, relay.clientSide.LocalAddr())})
	defer clientMux.Close()

	ctx, cancel := context.WithTimeout(context.Background(), 5*time.Second)
	defer cancel()
	conn, err := clientMux.DialContext(ctx)
	if err != nil {
		t.Fatalf("DialContext() failed: %v", err)
	}
	defer conn.Close()

	// Upload some data. With the relay reflecting, the connection may be
	// terminated by the client at any moment, so write errors are tolerated.
	upload := f13ClientStream(3000)
	go func() {
		for off := 0; off < len(upload); off += 1000 {
			if _, err := conn.Write(upload[off : off+1000]); err != nil {
				return
			}
			time.Sleep(50 * time.Millisecond)
		}
	}()
	time.Sleep(600 * time.Millisecond)

	// The server has written nothing yet. Anything the client application
	// reads now can't be server data.
	buf := make([]byte, 4096)
	conn.SetReadDeadline(time.Now().Add(1500 * time.Millisecond))
	if n, err := conn.Read(buf); n > 0 {
		read = append(read, buf[:n]...)
	} else {
		t.Logf("client Read() before server wrote anything: n=%d err=%v", n, err)
	}

	// Now let the server write S, and read until S is complete or the
	// connection ends.
	close(release)
	deadline := time.Now().Add(8 * time.Second)
	for len(read) < len(want) && time.Now().Before(deadline) {
		conn.SetReadDeadline(time.Now().Add(1500 * time.Millisecond))
		n, err := conn.Read(buf)
		read = append(read, buf[:n]...)
		if err != nil {
			t.Logf("client Read() ended: %v", err)
			break
		}
	}
	relay.mu.Lock()
	reflected = relay.reflected
	relay.mu.Unlock()
	return read, want, reflected
}

func f13CheckPrefix(t *testing.T, read, want []byte) {
	t.Helper()
	if len(read) > len(want) {
		t.Errorf("application read %d bytes but the server wrote only %d", len(read), len(want))
		read = read[:len(want)]
	}
	for i := range read {
		if read[i] != want[i] {
			end := i + 16
			if end > len(read) {
				end = len(read)
			}
			t.Fatalf("application read byte %#x at offset %d, but the server wrote %#x there; read[%d:%d]=%q", read[i], i, want[i], i, end, read[i:end])
		}
	}
}

func TestF13ReflectedDatagrams(t *testing.T) {
	t.Run("control", func(t *testing.T) {
		read, want, _ := runF13(t, false)
		f13CheckPrefix(t, read, want)
		if len(read) != len(want) {
			t.Fatalf("without tampering the application read %d of %d bytes", len(read), len(want))
		}
	})
	t.Run("reflect", func(t *testing.T) {
		read, want, reflected := runF13(t, true)
		if reflected == 0 {
			t.Fatalf("relay reflected no datagram")
		}
		t.Logf("relay reflected %d datagrams; application read %d bytes", reflected, len(read))
		f13CheckPrefix(t, read, want)
		// C04: on UDP a modified (here: inserted) datagram is discarded as
		// if lost and the stream still completes intact.
		if len(read) != len(want) {
			t.Fatalf("with client datagrams reflected back to the client the application read only %d of %d bytes: the inserted datagrams ended the session instead of being discarded", len(read), len(want))
		}
	})
}
