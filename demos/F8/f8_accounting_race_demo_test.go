// Demonstration for finding F8 (C15 data-race clause, C19 accounting clause).
//
// Copy to pkg/protocol/ and run
//
//	go test -race -count=1 -run TestF8 ./pkg/protocol/
package protocol

import (
	"context"
	"fmt"
	"io"
	"net"
	"sync"
	"testing"
	"time"

	"github.com/enfein/mieru/v3/pkg/appctl/appctlpb"
	"github.com/enfein/mieru/v3/pkg/cipher"
	"github.com/enfein/mieru/v3/pkg/common"
	"github.com/enfein/mieru/v3/pkg/metrics"
	"google.golang.org/protobuf/proto"
)

// TestF8ServerWritesRightAfterAccept: a server application that speaks first
// (writes as soon as Accept returns) uses the session concurrently with the
// session's own input goroutine, which attaches the per-user traffic counters
// when it processes the first segment. Every byte the server application
// hands to the session must be counted against the user (C19) and the
// concurrent use must be free of data races (C15; run with -race).
func TestF8ServerWritesRightAfterAccept(t *testing.T) {
	const user, pass = "f8user", "f8pass"
	const sessions = 40
	const greeting = 1000
	port, err := common.UnusedTCPPort()
	if err != nil {
		t.Fatalf("UnusedTCPPort() failed: %v", err)
	}
	server := NewMux(false).
		SetServerUsers(map[string]*appctlpb.User{user: {Name: proto.String(user), Password: proto.String(pass)}}).
		SetEndpoints([]UnderlayProperties{NewUnderlayProperties(1400, common.StreamTransport, &net.TCPAddr{IP: net.ParseIP("127.0.0.1"), Port: port}, nil)})
	if err := server.Start(); err != nil {
		t.Fatalf("server Start() failed: %v", err)
	}
	defer server.Close()
	time.Sleep(100 * time.Millisecond)

	var accepted sync.WaitGroup
	go func() {
		for {
			conn, err := server.Accept()
			if err != nil {
				return
			}
			accepted.Add(1)
			go func() {
				defer accepted.Done()
				defer conn.Close()
				// The application speaks first.
				if _, err := conn.Write(make([]byte, greeting)); err != nil {
					return
				}
				io.Copy(io.Discard, conn)
			}()
		}
	}()

	hashed := cipher.HashPassword([]byte(pass), []byte(user))
	client := NewMux(true).
		SetClientUserNamePassword(user, hashed).
		SetClientMultiplexFactor(1).
		SetEndpoints([]UnderlayProperties{NewUnderlayProperties(1400, common.StreamTransport, nil, &net.TCPAddr{IP: net.ParseIP("127.0.0.1"), Port: port})})
	defer client.Close()

	group := fmt.Sprintf(metrics.UserMetricGroupFormat, user)
	before := int64(0)
	if g := metrics.GetMetricGroupByName(group); g != nil {
		if m, ok := g.GetMetric(metrics.UserMetricDownloadBytes); ok {
			before = m.Load()
		}
	}

	var wg sync.WaitGroup
	for i := 0; i < sessions; i++ {
		wg.Add(1)
		go func() {
			defer wg.Done()
			ctx, cancel := context.WithTimeout(context.Background(), 5*time.Second)
			defer cancel()
			conn, err := client.DialContext(ctx)
			if err != nil {
				t.Errorf("DialContext() failed: %v", err)
				return
			}
			defer conn.Close()
			if _, err := conn.Write([]byte("x")); err != nil {
				t.Errorf("Write() failed: %v", err)
				return
			}
			buf := make([]byte, greeting)
			conn.SetReadDeadline(time.Now().Add(10 * time.Second))
			if _, err := io.ReadFull(conn, buf); err != nil {
				t.Errorf("did not receive the greeting: %v", err)
			}
		}()
	}
	wg.Wait()
	time.Sleep(200 * time.Millisecond)

	g := metrics.GetMetricGroupByName(group)
	if g == nil {
		t.Fatalf("metric group %s not found", group)
	}
	m, ok := g.GetMetric(metrics.UserMetricDownloadBytes)
	if !ok {
		t.Fatalf("download counter not found")
	}
	got := m.Load() - before
	want := int64(sessions * greeting)
	t.Logf("server applications wrote %d bytes; counted against %s: %d", want, user, got)
	if got < want {
		t.Errorf("%d of %d bytes written by the server application were not counted against the user", want-got, want)
	}
}
