package protocol

import (
		"context"
	"io"
	"net"
	"sync"
	"sync/atomic"
	"testing"
	"time"

	"github.com/enfein/mieru/v3/pkg/appctl/appctlpb"
	"github.com/enfein/mieru/v3/pkg/cipher"
	"github.com/enfein/mieru/v3/pkg/common"
	"google.golang.org/protobuf/proto"
)

// ---- simulated network, installed on the client side of the UDP underlay ----
//
// Every datagram the client writes (C2S) or reads (S2C) is decoded and shown
// to a policy which may drop it, duplicate it, or delay it.

type f15Dir int

const (
	f15C2S f15Dir = iota // datagram written by the client
	f15S2C                 // datagram read by the client
)

type f15Pkt struct {
	dir       f15Dir
	ok        bool // metadata decrypted
	proto     protocolType
	sessionID uint32
	seq       uint32
	unAckSeq  uint32
	payload   int
}

type f15Action struct {
	drop    bool
	delay   time.Duration // one way delay of this datagram
	dup     int           // extra copies
	dupStep time.Duration // spacing between the copies
}

type f15Policy func(p f15Pkt) f15Action

type f15Delivery struct {
	due  time.Time
	data []byte
	from net.Addr
	err  error
}

type f15Conn struct {
	net.PacketConn
	block  cipher.BlockCipher
	policy f15Policy

	mu      sync.Mutex
	inbox   []f15Delivery // sorted by due time
	wake    chan struct{}
	started sync.Once
}

func (c *f15Conn) parse(dir f15Dir, b []byte) f15Pkt {
	p := f15Pkt{dir: dir}
	if len(b) < packetNonHeaderPosition {
		return p
	}
	c.mu.Lock()
	meta, err := c.block.Decrypt(b[:packetNonHeaderPosition])
	c.mu.Unlock()
	if err != nil || len(meta) != MetadataLength {
		return p
	}
	p.proto = protocolType(meta[0])
	if isSessionProtocol(p.proto) {
		ss := &sessionStruct{}
		if ss.Unmarshal(meta) != nil {
			return p
		}
		p.ok, p.sessionID, p.seq, p.payload = true, ss.sessionID, ss.seq, int(ss.payloadLen)
	} else if isDataAckProtocol(p.proto) {
		das := &dataAckStruct{}
		if das.Unmarshal(meta) != nil {
			return p
		}
		p.ok, p.sessionID, p.seq, p.unAckSeq, p.payload = true, das.sessionID, das.seq, das.unAckSeq, int(das.payloadLen)
	}
	return p
}

func (c *f15Conn) WriteTo(b []byte, addr net.Addr) (int, error) {
	a := c.policy(c.parse(f15C2S, b))
	if a.drop {
		return len(b), nil
	}
	return c.PacketConn.WriteTo(b, addr)
}

func (c *f15Conn) push(d f15Delivery) {
	c.mu.Lock()
	i := len(c.inbox)
	for i > 0 && c.inbox[i-1].due.After(d.due) {
		i--
	}
	c.inbox = append(c.inbox, f15Delivery{})
	copy(c.inbox[i+1:], c.inbox[i:])
	c.inbox[i] = d
	c.mu.Unlock()
	select {
	case c.wake <- struct{}{}:
	default:
	}
}

func (c *f15Conn) pump() {
	for {
		b := make([]byte, 1500)
		n, addr, err := c.PacketConn.ReadFrom(b)
		if err != nil {
			c.push(f15Delivery{due: time.Now(), err: err})
			if ne, ok := err.(net.Error); ok && ne.Timeout() {
				continue
			}
			return
		}
		a := c.policy(c.parse(f15S2C, b[:n]))
		if a.drop {
			continue
		}
		due := time.Now().Add(a.delay)
		for i := 0; i <= a.dup; i++ {
			c.push(f15Delivery{due: due.Add(time.Duration(i) * a.dupStep), data: b[:n], from: addr})
		}
	}
}

func (c *f15Conn) ReadFrom(b []byte) (int, net.Addr, error) {
	c.started.Do(func() { go c.pump() })
	for {
		c.mu.Lock()
		var wait time.Duration = time.Hour
		if len(c.inbox) > 0 {
			d := c.inbox[0]
			if wait = time.Until(d.due); wait <= 0 {
				c.inbox = c.inbox[1:]
				c.mu.Unlock()
				if d.err != nil {
					return 0, nil, d.err
				}
				return copy(b, d.data), d.from, nil
			}
		}
		c.mu.Unlock()
		select {
		case <-c.wake:
		case <-time.After(wait):
		}
	}
}

type f15Dialer struct {
	password []byte
	policy   f15Policy
	mu       sync.Mutex
	conns    []net.PacketConn
}

func (d *f15Dialer) ListenPacket(ctx context.Context, network, laddr, raddr string) (net.PacketConn, error) {
	inner, err := common.UDPDialer{}.ListenPacket(ctx, network, laddr, raddr)
	if err != nil {
		return nil, err
	}
	block, err := cipher.BlockCipherFromPassword(d.password, true)
	if err != nil {
		inner.Close()
		return nil, err
	}
	d.mu.Lock()
	d.conns = append(d.conns, inner)
	d.mu.Unlock()
	return &f15Conn{PacketConn: inner, block: block, policy: d.policy, wake: make(chan struct{}, 1)}, nil
}

// f15Pair starts a UDP server mux and a client mux whose datagrams pass the policy.
func f15Pair(t *testing.T, mtu int, policy f15Policy) (client *Mux, server *Mux) {
	t.Helper()
	const user, pass = "f15user", "f15pass"
	port, err := common.UnusedUDPPort()
	if err != nil {
		t.Fatalf("UnusedUDPPort() failed: %v", err)
	}
	server = NewMux(false).
		SetServerUsers(map[string]*appctlpb.User{user: {Name: proto.String(user), Password: proto.String(pass)}}).
		SetEndpoints([]UnderlayProperties{NewUnderlayProperties(mtu, common.PacketTransport, &net.UDPAddr{IP: net.ParseIP("127.0.0.1"), Port: port}, nil)})
	if err := server.Start(); err != nil {
		t.Fatalf("server Start() failed: %v", err)
	}
	time.Sleep(100 * time.Millisecond)
	hashed := cipher.HashPassword([]byte(pass), []byte(user))
	dialer := &f15Dialer{password: hashed, policy: policy}
	client = NewMux(true).
		SetClientUserNamePassword(user, hashed).
		SetClientMultiplexFactor(1).
		SetPacketDialer(dialer).
		SetEndpoints([]UnderlayProperties{NewUnderlayProperties(mtu, common.PacketTransport, nil, &net.UDPAddr{IP: net.ParseIP("127.0.0.1"), Port: port})})
	t.Cleanup(func() {
		dialer.mu.Lock()
		for _, c := range dialer.conns {
			c.Close()
		}
		dialer.mu.Unlock()
		client.Close()
		server.Close()
	})
	return client, server
}


// TestF15CloseAfterWriteTailAndCloseRequestLost: the client writes 6000 bytes
// (five data datagrams at MTU 1400), every Write succeeds, and it closes the
// connection. The network loses every transmission of the LAST data datagram and
// the closeSessionRequest of the client's session. Nothing else is
// lost. The client has forgotten the session by the time the server's next
// heartbeat arrives and answers it, on behalf of the unknown session, with a
// synthetic close request. C03 requires that the peer application either
// reads all 6000 bytes before end-of-stream or observes an error.
func TestF15CloseAfterWriteTailAndCloseRequestLost(t *testing.T) {
	var dataSeen atomic.Int32
	var droppedData atomic.Bool
	var droppedClose atomic.Int32
	var tailSeq atomic.Uint32
	// The close request of the client's own session leaves within a second of
	// Close(); the one the client underlay sends on behalf of the forgotten
	// session answers the server's next heartbeat, seconds later.
	var closedAt atomic.Int64
	synthetic := func() bool {
		at := closedAt.Load()
		return at != 0 && time.Now().UnixNano()-at > int64(3*time.Second)
	}
	policy := func(p f15Pkt) f15Action {
		if !p.ok || p.dir != f15C2S {
			return f15Action{}
		}
		if p.proto == dataClientToServer && p.payload > 0 {
			// the fifth (last) data segment never arrives: its first
			// transmission and the retransmissions made before the close
			if dataSeen.Add(1) == 5 {
				tailSeq.Store(p.seq)
				droppedData.Store(true)
				return f15Action{drop: true}
			}
			if droppedData.Load() && p.seq == tailSeq.Load() {
				return f15Action{drop: true}
			}
		}
		if p.proto == closeSessionRequest && p.sessionID != 0 && droppedData.Load() && !synthetic() {
			droppedClose.Add(1)
			return f15Action{drop: true}
		}
		return f15Action{}
	}
	client, server := f15Pair(t, 1400, policy)

	type result struct {
		n   int
		err error
	}
	results := make(chan result, 1)
	go func() {
		conn, err := server.Accept()
		if err != nil {
			return
		}
		defer conn.Close()
		total := 0
		buf := make([]byte, 64*1024)
		for {
			conn.SetReadDeadline(time.Now().Add(40 * time.Second))
			n, err := conn.Read(buf)
			total += n
			if err != nil {
				results <- result{total, err}
				return
			}
		}
	}()

	ctx, cancel := context.WithTimeout(context.Background(), 5*time.Second)
	defer cancel()
	conn, err := client.DialContext(ctx)
	if err != nil {
		t.Fatalf("DialContext() failed: %v", err)
	}
	const want = 6000
	payload := make([]byte, want)
	for i := range payload {
		payload[i] = byte(i)
	}
	if n, err := conn.Write(payload); err != nil || n != want {
		t.Fatalf("Write() = (%d, %v), want (%d, nil)", n, err, want)
	}
	closedAt.Store(time.Now().UnixNano())
	if err := conn.Close(); err != nil {
		t.Fatalf("Close() failed: %v", err)
	}
	select {
	case r := <-results:
		t.Logf("tail datagram dropped=%v, close requests dropped=%d; peer read %d of %d bytes, then %v", droppedData.Load(), droppedClose.Load(), r.n, want, r.err)
		if r.err == io.EOF && r.n < want {
			t.Fatalf("peer observed a clean end-of-stream after only %d of %d bytes", r.n, want)
		}
	case <-time.After(45 * time.Second):
		t.Logf("peer didn't observe end-of-stream")
	}
}
