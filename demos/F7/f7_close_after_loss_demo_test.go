package protocol

import (
		"context"
	"io"
	"net"
	"sync"
	"sync/atomic"
	"testing"
	"time"

	"github.com/enfein/mieru/v3/pkg/appctl/appctlpb"
	"github.com/enfein/mieru/v3/pkg/cipher"
	"github.com/enfein/mieru/v3/pkg/common"
	"google.golang.org/protobuf/proto"
)

// ---- simulated network, installed on the client side of the UDP underlay ----
//
// Every datagram the client writes (C2S) or reads (S2C) is decoded and shown
// to a policy which may drop it, duplicate it, or delay it.

type f7Dir int

const (
	f7C2S f7Dir = iota // datagram written by the client
	f7S2C                 // datagram read by the client
)

type f7Pkt struct {
	dir       f7Dir
	ok        bool // metadata decrypted
	proto     protocolType
	sessionID uint32
	seq       uint32
	unAckSeq  uint32
	payload   int
}

type f7Action struct {
	drop    bool
	delay   time.Duration // one way delay of this datagram
	dup     int           // extra copies
	dupStep time.Duration // spacing between the copies
}

type f7Policy func(p f7Pkt) f7Action

type f7Delivery struct {
	due  time.Time
	data []byte
	from net.Addr
	err  error
}

type f7Conn struct {
	net.PacketConn
	block  cipher.BlockCipher
	policy f7Policy

	mu      sync.Mutex
	inbox   []f7Delivery // sorted by due time
	wake    chan struct{}
	started sync.Once
}

func (c *f7Conn) parse(dir f7Dir, b []byte) f7Pkt {
	p := f7Pkt{dir: dir}
	if len(b) < packetNonHeaderPosition {
		return p
	}
	c.mu.Lock()
	meta, err := c.block.Decrypt(b[:packetNonHeaderPosition])
	c.mu.Unlock()
	if err != nil || len(meta) != MetadataLength {
		return p
	}
	p.proto = protocolType(meta[0])
	if isSessionProtocol(p.proto) {
		ss := &sessionStruct{}
		if ss.Unmarshal(meta) != nil {
			return p
		}
		p.ok, p.sessionID, p.seq, p.payload = true, ss.sessionID, ss.seq, int(ss.payloadLen)
	} else if isDataAckProtocol(p.proto) {
		das := &dataAckStruct{}
		if das.Unmarshal(meta) != nil {
			return p
		}
		p.ok, p.sessionID, p.seq, p.unAckSeq, p.payload = true, das.sessionID, das.seq, das.unAckSeq, int(das.payloadLen)
	}
	return p
}

func (c *f7Conn) WriteTo(b []byte, addr net.Addr) (int, error) {
	a := c.policy(c.parse(f7C2S, b))
	if a.drop {
		return len(b), nil
	}
	return c.PacketConn.WriteTo(b, addr)
}

func (c *f7Conn) push(d f7Delivery) {
	c.mu.Lock()
	i := len(c.inbox)
	for i > 0 && c.inbox[i-1].due.After(d.due) {
		i--
	}
	c.inbox = append(c.inbox, f7Delivery{})
	copy(c.inbox[i+1:], c.inbox[i:])
	c.inbox[i] = d
	c.mu.Unlock()
	select {
	case c.wake <- struct{}{}:
	default:
	}
}

func (c *f7Conn) pump() {
	for {
		b := make([]byte, 1500)
		n, addr, err := c.PacketConn.ReadFrom(b)
		if err != nil {
			c.push(f7Delivery{due: time.Now(), err: err})
			if ne, ok := err.(net.Error); ok && ne.Timeout() {
				continue
			}
			return
		}
		a := c.policy(c.parse(f7S2C, b[:n]))
		if a.drop {
			continue
		}
		due := time.Now().Add(a.delay)
		for i := 0; i <= a.dup; i++ {
			c.push(f7Delivery{due: due.Add(time.Duration(i) * a.dupStep), data: b[:n], from: addr})
		}
	}
}

func (c *f7Conn) ReadFrom(b []byte) (int, net.Addr, error) {
	c.started.Do(func() { go c.pump() })
	for {
		c.mu.Lock()
		var wait time.Duration = time.Hour
		if len(c.inbox) > 0 {
			d := c.inbox[0]
			if wait = time.Until(d.due); wait <= 0 {
				c.inbox = c.inbox[1:]
				c.mu.Unlock()
				if d.err != nil {
					return 0, nil, d.err
				}
				return copy(b, d.data), d.from, nil
			}
		}
		c.mu.Unlock()
		select {
		case <-c.wake:
		case <-time.After(wait):
		}
	}
}

type f7Dialer struct {
	password []byte
	policy   f7Policy
	mu       sync.Mutex
	conns    []net.PacketConn
}

func (d *f7Dialer) ListenPacket(ctx context.Context, network, laddr, raddr string) (net.PacketConn, error) {
	inner, err := common.UDPDialer{}.ListenPacket(ctx, network, laddr, raddr)
	if err != nil {
		return nil, err
	}
	block, err := cipher.BlockCipherFromPassword(d.password, true)
	if err != nil {
		inner.Close()
		return nil, err
	}
	d.mu.Lock()
	d.conns = append(d.conns, inner)
	d.mu.Unlock()
	return &f7Conn{PacketConn: inner, block: block, policy: d.policy, wake: make(chan struct{}, 1)}, nil
}

// f7Pair starts a UDP server mux and a client mux whose datagrams pass the policy.
func f7Pair(t *testing.T, mtu int, policy f7Policy) (client *Mux, server *Mux) {
	t.Helper()
	const user, pass = "f7user", "f7pass"
	port, err := common.UnusedUDPPort()
	if err != nil {
		t.Fatalf("UnusedUDPPort() failed: %v", err)
	}
	server = NewMux(false).
		SetServerUsers(map[string]*appctlpb.User{user: {Name: proto.String(user), Password: proto.String(pass)}}).
		SetEndpoints([]UnderlayProperties{NewUnderlayProperties(mtu, common.PacketTransport, &net.UDPAddr{IP: net.ParseIP("127.0.0.1"), Port: port}, nil)})
	if err := server.Start(); err != nil {
		t.Fatalf("server Start() failed: %v", err)
	}
	time.Sleep(100 * time.Millisecond)
	hashed := cipher.HashPassword([]byte(pass), []byte(user))
	dialer := &f7Dialer{password: hashed, policy: policy}
	client = NewMux(true).
		SetClientUserNamePassword(user, hashed).
		SetClientMultiplexFactor(1).
		SetPacketDialer(dialer).
		SetEndpoints([]UnderlayProperties{NewUnderlayProperties(mtu, common.PacketTransport, nil, &net.UDPAddr{IP: net.ParseIP("127.0.0.1"), Port: port})})
	t.Cleanup(func() {
		dialer.mu.Lock()
		for _, c := range dialer.conns {
			c.Close()
		}
		dialer.mu.Unlock()
		client.Close()
		server.Close()
	})
	return client, server
}


// TestF7CloseAfterWriteWithOneLostDatagram: the client writes 6000 bytes (five
// data datagrams at MTU 1400), every Write succeeds, and it closes the
// connection. The network loses exactly one datagram, once: the first
// transmission of the third data segment. Everything else, including every
// retransmission, is delivered. C03 requires that the peer application either
// reads all 6000 bytes before end-of-stream or observes an error.
func TestF7CloseAfterWriteWithOneLostDatagram(t *testing.T) {
	var dataSeen atomic.Int32
	var dropped atomic.Bool
	policy := func(p f7Pkt) f7Action {
		if p.ok && p.dir == f7C2S && p.proto == dataClientToServer && p.payload > 0 {
			if dataSeen.Add(1) == 3 && dropped.CompareAndSwap(false, true) {
				return f7Action{drop: true}
			}
		}
		return f7Action{}
	}
	client, server := f7Pair(t, 1400, policy)

	type result struct {
		n   int
		err error
	}
	results := make(chan result, 1)
	go func() {
		conn, err := server.Accept()
		if err != nil {
			return
		}
		defer conn.Close()
		total := 0
		buf := make([]byte, 64*1024)
		for {
			conn.SetReadDeadline(time.Now().Add(10 * time.Second))
			n, err := conn.Read(buf)
			total += n
			if err != nil {
				results <- result{total, err}
				return
			}
		}
	}()

	ctx, cancel := context.WithTimeout(context.Background(), 5*time.Second)
	defer cancel()
	conn, err := client.DialContext(ctx)
	if err != nil {
		t.Fatalf("DialContext() failed: %v", err)
	}
	const want = 6000
	payload := make([]byte, want)
	for i := range payload {
		payload[i] = byte(i)
	}
	if n, err := conn.Write(payload); err != nil || n != want {
		t.Fatalf("Write() = (%d, %v), want (%d, nil)", n, err, want)
	}
	if err := conn.Close(); err != nil {
		t.Fatalf("Close() failed: %v", err)
	}
	select {
	case r := <-results:
		t.Logf("one datagram dropped=%v; peer read %d of %d bytes, then %v", dropped.Load(), r.n, want, r.err)
		if r.err == io.EOF && r.n < want {
			t.Fatalf("peer observed a clean end-of-stream after only %d of %d bytes", r.n, want)
		}
	case <-time.After(20 * time.Second):
		t.Logf("peer didn't observe end-of-stream")
	}
}
