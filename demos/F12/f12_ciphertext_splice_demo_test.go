package protocol

// Demo for finding F12 (property C04, rule R04.7): on the UDP transport the
// metadata and the payload of one datagram are sealed with the same key and
// the same nonce, without associated data. The metadata ciphertext+tag (48
// bytes) can therefore be spliced over the ciphertext+tag of a 32-byte
// payload: it authenticates, and the application reads the 32 metadata bytes
// instead of what the sender wrote. Copy into pkg/protocol and run
//   go test -run TestDemoF12 ./pkg/protocol/
// The test FAILS on the current tree (the defect is present; it is recorded as
// a known finding because repairing it changes the wire protocol).

import (
	"bytes"
	"testing"

	"github.com/enfein/mieru/v3/pkg/cipher"
)

func TestDemoF12MetadataCiphertextSplicedOverPayload(t *testing.T) {
	block, err := cipher.BlockCipherFromPassword(cipher.HashPassword([]byte("pw"), []byte("alice")), true)
	if err != nil {
		t.Fatal(err)
	}
	block.SetBlockContext(cipher.BlockContext{UserName: "alice"})

	written := bytes.Repeat([]byte("A"), 32) // what the sending application wrote
	das := &dataAckStruct{
		baseStruct: baseStruct{protocol: uint8(dataClientToServer)},
		sessionID:  7, seq: 1, payloadLen: 32,
	}
	meta := das.Marshal()

	// the sender seals metadata and payload exactly as PacketUnderlay.writeOneSegment does
	head := make([]byte, 0, cipher.DefaultNonceSize+MetadataLength+cipher.DefaultOverhead)
	if err := block.Encrypt(head, meta); err != nil {
		t.Fatal(err)
	}
	head = head[:cap(head)]
	nonce := head[:cipher.DefaultNonceSize]
	payloadCT := make([]byte, 0, 32+cipher.DefaultOverhead)
	if err := block.EncryptWithNonce(payloadCT, nonce, written); err != nil {
		t.Fatal(err)
	}
	payloadCT = payloadCT[:cap(payloadCT)]

	// the receiver parses the genuine datagram
	u := &PacketUnderlay{baseUnderlay: *newBaseUnderlay(false, 1400, nil)}
	rx := &dataAckStruct{}
	plain, err := block.Decrypt(head)
	if err != nil {
		t.Fatal(err)
	}
	if err := rx.Unmarshal(plain); err != nil {
		t.Fatal(err)
	}
	seg, err := u.parseDataAckSegment(rx, nonce, payloadCT, block)
	if err != nil || !bytes.Equal(seg.payload, written) {
		t.Fatalf("genuine datagram: %v", err)
	}

	// on-path splice: the payload ciphertext+tag is replaced by the metadata ciphertext+tag
	spliced := append([]byte(nil), head[cipher.DefaultNonceSize:]...)
	seg2, err := u.parseDataAckSegment(rx, nonce, spliced, block)
	if err == nil {
		t.Errorf("spliced datagram authenticated; the application would read %q instead of %q", seg2.payload, written)
	}
}
