package protocol

// Demo for finding F6 (property C15): a read deadline set by the application
// must bound every later Read until it is changed. Copy into pkg/protocol and
// run: go test -run TestDemoF6 ./pkg/protocol/
// Before the fix: the second Read blocks (the stored deadline was reset to 0
// by the first Read). After the fix: it returns a timeout at once.

import (
	"context"
	"net"
	"testing"
	"time"

	"github.com/enfein/mieru/v3/pkg/cipher"
	"github.com/enfein/mieru/v3/pkg/common"
	"github.com/enfein/mieru/v3/pkg/testtool"
)

func TestDemoF6DeadlinePersists(t *testing.T) {
	port, err := common.UnusedTCPPort()
	if err != nil {
		t.Fatal(err)
	}
	props := NewUnderlayProperties(1400, common.StreamTransport, &net.TCPAddr{IP: net.ParseIP("127.0.0.1"), Port: port}, nil)
	serverMux := NewMux(false).SetServerUsers(users).SetEndpoints([]UnderlayProperties{props})
	if err := serverMux.Start(); err != nil {
		t.Fatal(err)
	}
	defer serverMux.Close()
	srv := testtool.NewTestHelperServer()
	go srv.Serve(serverMux)
	defer srv.Close()
	time.Sleep(100 * time.Millisecond)

	clientMux := NewMux(true).
		SetClientUserNamePassword("xiaochitang", cipher.HashPassword([]byte("kuiranbudong"), []byte("xiaochitang"))).
		SetClientMultiplexFactor(1).
		SetEndpoints([]UnderlayProperties{NewUnderlayProperties(1400, common.StreamTransport, nil, &net.TCPAddr{IP: net.ParseIP("127.0.0.1"), Port: port})})
	defer clientMux.Close()
	ctx, cancel := context.WithTimeout(context.Background(), 5*time.Second)
	defer cancel()
	conn, err := clientMux.DialContext(ctx)
	if err != nil {
		t.Fatal(err)
	}
	defer conn.Close()

	conn.SetReadDeadline(time.Now().Add(50 * time.Millisecond))
	buf := make([]byte, 16)
	if _, err := conn.Read(buf); err == nil {
		t.Fatalf("first Read: want timeout, got nil")
	}
	done := make(chan error, 1)
	go func() {
		_, err := conn.Read(buf)
		done <- err
	}()
	select {
	case err := <-done:
		if err == nil {
			t.Fatalf("second Read: want timeout error, got nil")
		}
	case <-time.After(2 * time.Second):
		t.Fatalf("second Read blocked > 2s although the deadline set by the application is in the past")
	}
}
