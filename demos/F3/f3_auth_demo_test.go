package socks5

// Demo for finding F3 (property C11): with credentials configured, a client
// offering both "no authentication" and "username/password" must not be let
// in without credentials. Copy into pkg/socks5 and run
//   go test -run TestDemoF3 ./pkg/socks5/
// Before the fix: the server answers 05 00 and handleAuthentication returns nil.

import (
	"io"
	"net"
	"testing"
	"time"
)

func TestDemoF3NoAuthOfferedTogetherWithUserPass(t *testing.T) {
	s, err := New(&Config{AuthOpts: Auth{IngressCredentials: []Credential{{User: "u", Password: "p"}}}})
	if err != nil {
		t.Fatal(err)
	}
	for _, methods := range [][]byte{{0x00, 0x02}, {0x02, 0x00}, {0x00, 0x00, 0x02}, {0x00}} {
		c1, c2 := net.Pipe()
		res := make(chan error, 1)
		go func() { res <- s.handleAuthentication(c2) }()
		c1.SetDeadline(time.Now().Add(2 * time.Second))
		c1.Write(append([]byte{0x05, byte(len(methods))}, methods...))
		resp := make([]byte, 2)
		n, _ := io.ReadFull(c1, resp)
		if n == 2 && resp[1] == 0x00 {
			t.Errorf("methods %v: server selected NO AUTH although credentials are configured", methods)
		}
		c1.Close()
		if err := <-res; err == nil {
			t.Errorf("methods %v: handleAuthentication returned nil without any credential", methods)
		}
		c2.Close()
	}
	// A correct credential still works when both methods are offered.
	c1, c2 := net.Pipe()
	res := make(chan error, 1)
	go func() { res <- s.handleAuthentication(c2) }()
	c1.SetDeadline(time.Now().Add(2 * time.Second))
	c1.Write([]byte{0x05, 2, 0x00, 0x02})
	resp := make([]byte, 2)
	io.ReadFull(c1, resp)
	if resp[1] != 0x02 {
		t.Fatalf("want method 02, got %v", resp)
	}
	c1.Write([]byte{0x01, 1, 'u', 1, 'p'})
	io.ReadFull(c1, resp)
	if resp[1] != 0x00 {
		t.Fatalf("valid credential rejected: %v", resp)
	}
	if err := <-res; err != nil {
		t.Fatalf("valid credential: %v", err)
	}
}
