#!/bin/sh
# Builds the static analyser from files on disk only (vendored dependencies).
set -e
cd "$(dirname "$0")/checker"
export GOFLAGS=-mod=vendor GOPROXY=off GOSUMDB=off GOTOOLCHAIN=local GOWORK=off CGO_ENABLED=0
mkdir -p ../bin
go build -o ../bin/mverif .
echo "built $(cd .. && pwd)/bin/mverif"
